"""C21 driver: real Falcon apps (make_wsgi_app) around generated authenticator compositions.

A *configuration* is a nested tuple:
    ("leaf", id, decl)                 synthetic authenticate callback; declared proxy headers ``decl`` (tuple of str)
    ("xfcc", id)                       the real ``mtls_authenticate_xfcc()``
    ("chain", [cfg, ...])              real ``chain_authenticate``
    ("req", gid, ghdrs, inner|None)    real ``require_all`` around a synthetic ``PreconditionGate`` (proxy_headers=ghdrs)
    ("proof", gid, mode, inner|None)   real ``require_all`` around the real ``proxy_proof_gate`` (mode require|allow)

What a synthetic leaf / gate does on a request is steered by the request header ``X-L<id>`` (a JSON list, see
``_act``); a leaf without its header succeeds.  Every leaf / gate invocation is appended to ``CONSULTED``.
Everything the HTTP app resolves through ``typing.get_type_hints`` lives at module level.
"""
from __future__ import annotations

import json
from typing import Any, Protocol

from vgi_rpc.http import AuthFailure, AuthReason, chain_authenticate, require_all
from vgi_rpc.http._bearer import PreconditionGate
from vgi_rpc.http._unauthorized import AuthUnavailableError, declare_proxy_headers
from vgi_rpc.rpc import AuthContext, RpcServer

CONSULTED: list[int] = []   # ids of the leaves / gates invoked for the current request (cleared by the caller)
LOG: list[str] = []         # service code that ran


class C21P(Protocol):
    def f(self, a: int) -> int: ...


class C21Impl:
    def f(self, a: int) -> int:
        LOG.append("f")
        return a + 1


def make_server() -> RpcServer:
    return RpcServer(C21P, C21Impl())


class DuckValueError(ValueError):
    """A ValueError defined outside the package that steers the reason by the duck-typed attribute."""


class DuckPermissionError(PermissionError):
    """A PermissionError carrying the duck-typed reason attribute (as ProofError does)."""


class CustomLookup(LookupError):
    pass


def _act(spec: list[Any]) -> None:
    """Raise what ``spec`` says.  Shapes:
    ["ok"] | ["af", REASON_NAME, detail] | ["ve", msg] | ["ve0"] | ["duckve", REASON_NAME|None, msg] | ["ude"] |
    ["pe", msg] | ["pe0"] | ["duckpe", REASON_NAME|None, msg] | ["prooferr", code, msg] | ["un", detail, retry] |
    ["rt", msg] | ["lookup"] | ["key"]
    """
    k = spec[0]
    if k == "ok":
        return
    if k == "af":
        raise AuthFailure(AuthReason[spec[1]], spec[2])
    if k == "ve":
        raise ValueError(spec[1])
    if k == "ve0":
        raise ValueError
    if k == "duckve":
        e = DuckValueError(spec[2])
        if spec[1] is not None:
            e.vgi_auth_reason = AuthReason[spec[1]]  # type: ignore[attr-defined]
        raise e
    if k == "ude":
        b"\xff".decode("utf-8")
    if k == "pe":
        raise PermissionError(spec[1])
    if k == "pe0":
        raise PermissionError
    if k == "duckpe":
        p = DuckPermissionError(spec[2])
        if spec[1] is not None:
            p.vgi_auth_reason = AuthReason[spec[1]]  # type: ignore[attr-defined]
        raise p
    if k == "prooferr":
        from vgi_rpc.http._proof import ProofError

        raise ProofError(spec[1], spec[2])
    if k == "un":
        raise AuthUnavailableError(spec[1], retry_after=spec[2])
    if k == "rt":
        raise RuntimeError(spec[1])
    if k == "lookup":
        raise CustomLookup("lookup")
    if k == "key":
        raise KeyError("k")
    raise AssertionError(f"unknown act {spec!r}")


def _spec_of(req: Any, i: int) -> list[Any]:
    raw = req.get_header(f"X-L{i}")
    return ["ok"] if not raw else json.loads(raw)


def _leaf(i: int, decl: tuple[str, ...]) -> Any:
    def authenticate(req: Any) -> AuthContext:
        CONSULTED.append(i)
        _act(_spec_of(req, i))
        return AuthContext(domain=f"leaf{i}", authenticated=True, principal=f"p{i}", claims={})

    if decl:
        declare_proxy_headers(authenticate, *decl)
    return authenticate


def _gate(i: int, ghdrs: tuple[str, ...]) -> PreconditionGate:
    def gate(req: Any) -> dict[str, str]:
        CONSULTED.append(i)
        _act(_spec_of(req, i))
        return {"proxy": f"g{i}"}

    return PreconditionGate(gate, name=f"gate{i}", claims_key=f"gate{i}", proxy_headers=ghdrs)


def _recording(i: int, fn: Any) -> Any:
    """The real built-in leaf, observed without hiding its declaration: same attribute dict, extra log line."""

    def authenticate(req: Any) -> Any:
        CONSULTED.append(i)
        return fn(req)

    authenticate.__dict__.update(getattr(fn, "__dict__", {}))
    return authenticate


PROOF_SECRET = b"s" * 32


def build(cfg: Any) -> Any:
    """cfg -> real authenticate callable (built with the repo's own combinators)."""
    kind = cfg[0]
    if kind == "leaf":
        return _leaf(cfg[1], tuple(cfg[2]))
    if kind == "xfcc":
        from vgi_rpc.http._mtls import mtls_authenticate_xfcc

        return _recording(cfg[1], mtls_authenticate_xfcc())
    if kind == "chain":
        return chain_authenticate(*[build(c) for c in cfg[1]])
    if kind == "req":
        return require_all(_gate(cfg[1], tuple(cfg[2])), None if cfg[3] is None else build(cfg[3]))
    if kind == "proof":
        from vgi_rpc.http._proof import ProxyProofConfig, proxy_proof_gate

        g = proxy_proof_gate(ProxyProofConfig(mode=cfg[2], origin_id="origin-1", secrets={"k1": (PROOF_SECRET, "lbl")}))
        inner = None if cfg[3] is None else build(cfg[3])
        real = g._fn
        gid = cfg[1]

        def counted(req: Any) -> Any:
            CONSULTED.append(gid)
            return real(req)

        g._fn = counted
        return require_all(g, inner)
    raise AssertionError(cfg)


def leaves(cfg: Any) -> list[tuple[int, str, Any]]:
    """(id, kind, callable-free description) of every leaf / gate, in evaluation order."""
    kind = cfg[0]
    if kind in ("leaf", "xfcc"):
        return [(cfg[1], kind, cfg)]
    if kind == "chain":
        return [x for c in cfg[1] for x in leaves(c)]
    if kind in ("req", "proof"):
        return [(cfg[1], "gate" if kind == "req" else "proofgate", cfg)] + ([] if cfg[3] is None else leaves(cfg[3]))
    raise AssertionError(cfg)


def describe_exc(fn: Any, req: Any) -> list[Any]:
    """Run one leaf / gate on ``req`` and describe what it did, in the vocabulary of the Coq model:
    ["ok"] | ["af", reason_value, msg] | ["ve", declared|None, msg, cls] | ["pe", declared|None, msg] |
    ["un", retry_str, msg] | ["other", cls]
    """
    from vgi_rpc.http._unauthorized import REASON_ATTR

    try:
        fn(req)
    except AuthUnavailableError as e:
        return ["un", str(e.retry_after), str(e)]
    except AuthFailure as e:
        r = e.reason
        return ["af", r.value if isinstance(r, AuthReason) else None, str(e)]
    except ValueError as e:
        d = getattr(e, REASON_ATTR, None)
        return ["ve", d.value if isinstance(d, AuthReason) else None, str(e), type(e).__name__]
    except PermissionError as e:
        d = getattr(e, REASON_ATTR, None)
        return ["pe", d.value if isinstance(d, AuthReason) else None, str(e)]
    except Exception as e:  # noqa: BLE001 - anything else propagates as a 500
        return ["other", type(e).__name__]
    return ["ok"]
