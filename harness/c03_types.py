"""C03 harness: run-time generated ArrowSerializableDataclass types, instances, Coq rendering and a deep equality.

Annotation descriptors (``T``):
    ("s", "str"|"bytes"|"int"|"float"|"bool")   ("e", enum_id)   ("o", T)   ("l", T)   ("fs", T)   ("d", K, V)
    ("c", class_id)   ("sch",)   ("bat",)
Field kinds: "plain" | "binary" (Annotated[D, ArrowType(pa.binary())], D a dataclass or D | None) | "transient".
Nesting depth: scalars / enums / schema / batch 0; X | None as X; list / frozenset / dict 1 + elements; dataclass 1 + fields.
Field names are ``fld_<i>`` (generated strs never start with "fld_", which lets a row dict be told from a user dict).
"""
from __future__ import annotations

import dataclasses
import enum
import struct
import sys
from dataclasses import field
from typing import Annotated, Any

import pyarrow as pa

from vgi_rpc.utils import ArrowSerializableDataclass, ArrowType, IPCError, Transient


# ---- enum pool ------------------------------------------------------------------------------------------------
class Color(enum.Enum):
    RED = "red"
    GREEN = "green"
    BLUE = "blue"


class Num(enum.Enum):
    ONE = 1
    TWO = 2


class Swap(enum.Enum):  # values are the names of the *other* member: lookup by name must win
    A = "B"
    B = "A"


class StrE(str, enum.Enum):
    X = "x"
    YY = "yy"


class IntE(enum.IntEnum):
    LO = 0
    HI = 7


ENUMS: list[type[enum.Enum]] = [Color, Num, Swap, StrE, IntE]
ENUM_ID = {e: i + 1 for i, e in enumerate(ENUMS)}

SCHEMAS = [
    pa.schema([]),
    pa.schema([("a", pa.int64())]),
    pa.schema([("a", pa.int64()), ("b", pa.string())], metadata={"k": "v"}),
    pa.schema([pa.field("n", pa.list_(pa.float64()), nullable=False)]),
]
BATCHES = [
    pa.record_batch([], schema=pa.schema([])),
    pa.record_batch({"a": [1, 2, 3]}),
    pa.record_batch({"a": [None, 1.5], "b": ["x", None]}),
    pa.RecordBatch.from_pydict({"z": []}, schema=pa.schema([("z", pa.binary())])),
]

SCALAR_PY = {"str": str, "bytes": bytes, "int": int, "float": float, "bool": bool}
SCALAR_COQ = {"str": "SStr", "bytes": "SBytes", "int": "SInt", "float": "SFloat", "bool": "SBool"}

I64_MIN, I64_MAX = -(2**63), 2**63 - 1


@dataclasses.dataclass
class FieldDesc:
    idx: int
    name: str
    kind: str  # plain | binary | transient
    default: Any  # None = no default; else ("lit", coq_lit, python_value_or_factory, is_factory)
    T: Any


@dataclasses.dataclass
class ClassDesc:
    cid: int
    name: str
    fields: list[FieldDesc]
    pycls: Any = None
    hashable: bool = True
    flat: bool = True  # every non-transient field is a scalar or scalar | None (the compact codec's domain)


def depth(T: Any, classes: dict[int, ClassDesc]) -> int:
    k = T[0]
    if k in ("s", "e", "sch", "bat"):
        return 0
    if k == "o":
        return depth(T[1], classes)
    if k in ("l", "fs"):
        return 1 + depth(T[1], classes)
    if k == "d":
        return 1 + max(depth(T[1], classes), depth(T[2], classes))
    if k == "c":
        fs = [f for f in classes[T[1]].fields if f.kind != "transient"]
        return 1 + max([depth(f.T, classes) for f in fs], default=0)
    raise AssertionError(T)


def unopt(T: Any) -> Any:
    return T[1] if T[0] == "o" else T


class Gen:
    """Generator of classes / instances; deterministic in ``rng``."""

    def __init__(self, rng: Any, first_cid: int = 100, module: str = "harness.c03_types", base: Any = ArrowSerializableDataclass) -> None:
        self.rng = rng
        self.classes: dict[int, ClassDesc] = {}
        self.next_cid = first_cid
        self.module = module
        self.base = base

    # -- annotations ---------------------------------------------------------------------------------------
    def gen_scalar(self) -> Any:
        return ("s", self.rng.choice(["str", "bytes", "int", "float", "bool"]))

    def gen_key_type(self) -> Any:
        r = self.rng.random()
        if r < 0.3:
            return ("e", self.rng.randrange(1, len(ENUMS) + 1))
        return ("s", self.rng.choice(["str", "str", "int", "bytes", "bool", "float"]))

    def gen_type(self, d: int, hashable: bool = False) -> Any:
        """An annotation of nesting depth <= d."""
        rng = self.rng
        r = rng.random()
        if r < 0.18:
            inner = self.gen_type(d, hashable)
            return inner if inner[0] == "o" else ("o", inner)
        if d == 0 or r < 0.40:
            r2 = rng.random()
            if r2 < 0.2:
                return ("e", rng.randrange(1, len(ENUMS) + 1))
            if r2 < 0.3 and not hashable:
                return rng.choice([("sch",), ("bat",)])
            return self.gen_scalar()
        r3 = rng.random()
        if r3 < 0.22 and not hashable:
            return ("l", self.gen_type(d - 1))
        if r3 < 0.47:
            return ("fs", self.gen_type(d - 1, hashable=True))
        if r3 < 0.72 and not hashable:
            return ("d", self.gen_key_type(), self.gen_type(d - 1))
        return ("c", self.gen_class(d - 1, hashable).cid)

    def gen_default(self, T: Any) -> Any:
        rng = self.rng
        k = T[0]
        if k == "o":
            # X | None with a NON-None default / default_factory half of the time: "absent -> default" must not be
            # confused with "present and null -> None"
            inner = self.gen_default(T[1]) if rng.random() < 0.5 else None
            return inner if inner is not None else ("LNone", None, False)
        if k == "s":
            s = T[1]
            if s == "int":
                z = rng.choice([0, -1, 7, I64_MAX])
                return (f"LInt ({z})%Z", z, False)
            if s == "str":
                v = rng.choice(["", "dflt"])
                return (f"LStr {coq_cps(v)}", v, False)
            if s == "bytes":
                v = rng.choice([b"", b"\x00\xff"])
                return (f"LBytes {coq_bytes(v)}", v, False)
            if s == "bool":
                v = rng.choice([True, False])
                return (f"LBool {'true' if v else 'false'}", v, False)
            v = rng.choice([0.0, -1.5])
            return (f"LFloat {float_bits(v)}", v, False)
        if k == "e":
            m = rng.choice(list(ENUMS[T[1] - 1]))
            return (f"LEnum {T[1]} {coq_cps(m.name)}", m, False)
        if k == "l":
            return ("LEmptyList", list, True)
        if k == "fs":
            return ("LEmptySet", frozenset, True)
        if k == "d":
            return ("LEmptyDict", dict, True)
        return None

    def gen_class(self, d: int, hashable: bool = False, nfields: int | None = None, force: list[Any] | None = None) -> ClassDesc:
        """A dataclass whose field annotations have nesting depth <= d."""
        rng = self.rng
        fields: list[FieldDesc] = []
        specs: list[tuple[str, Any]] = []
        if force is not None:
            specs = [T if T[0] in ("plain", "binary", "transient") else ("plain", T) for T in force]
        else:
            n = nfields if nfields is not None else rng.choice([0, 1, 1, 2, 2, 3, 3, 4, 5])
            for _ in range(n):
                r = rng.random()
                if r < 0.10:
                    pool = [("s", "int"), ("s", "str"), ("o", ("s", "float"))]
                    if not hashable:
                        pool += [("l", ("s", "int")), ("d", ("s", "str"), ("s", "int"))]
                    specs.append(("transient", rng.choice(pool)))
                elif r < 0.20 and d >= 1 and not hashable:
                    inner = ("c", self.gen_class(d - 1).cid)
                    specs.append(("binary", inner if rng.random() < 0.6 else ("o", inner)))
                else:
                    specs.append(("plain", self.gen_type(d, hashable)))
        for i, spec in enumerate(specs):
            kind, T = spec[0], spec[1]
            default = None
            if len(spec) > 2:
                default = spec[2]
            elif kind == "transient":
                default = self.gen_default(T) or ("LInt (5)%Z", 5, False)
            elif kind == "plain" and rng.random() < 0.25:
                default = self.gen_default(T)
            fields.append(FieldDesc(i, f"fld_{i}", kind, default, T))
        cid = self.next_cid
        self.next_cid += 1
        cd = ClassDesc(cid, f"C03Gen{cid}", fields)
        cd.hashable = all(self.type_hashable(f.T) for f in fields if f.kind != "transient")
        cd.flat = all(unopt(f.T)[0] == "s" for f in fields if f.kind != "transient")
        self.classes[cid] = cd
        cd.pycls = self.build(cd)
        return cd

    def type_hashable(self, T: Any) -> bool:
        k = T[0]
        if k in ("s", "e"):
            return True
        if k == "o":
            return self.type_hashable(T[1])
        if k == "fs":
            return True
        if k == "c":
            return self.classes[T[1]].hashable
        return False

    def annotation(self, T: Any) -> Any:
        k = T[0]
        if k == "s":
            return SCALAR_PY[T[1]]
        if k == "e":
            return ENUMS[T[1] - 1]
        if k == "o":
            return self.annotation(T[1]) | None
        if k == "l":
            return list[self.annotation(T[1])]  # type: ignore[misc]
        if k == "fs":
            return frozenset[self.annotation(T[1])]  # type: ignore[misc]
        if k == "d":
            return dict[self.annotation(T[1]), self.annotation(T[2])]  # type: ignore[misc]
        if k == "c":
            return self.classes[T[1]].pycls
        if k == "sch":
            return pa.Schema
        if k == "bat":
            return pa.RecordBatch
        raise AssertionError(T)

    def build(self, cd: ClassDesc, extra_namespace: dict[str, Any] | None = None, frozen: bool = True) -> Any:
        specs = []
        for f in cd.fields:
            ann = self.annotation(f.T)
            if f.kind == "binary":
                ann = Annotated[ann, ArrowType(pa.binary())]
            elif f.kind == "transient":
                ann = Annotated[ann, Transient()]
            if f.default is None:
                specs.append((f.name, ann))
            else:
                _, val, is_factory = f.default
                specs.append((f.name, ann, field(default_factory=val) if is_factory else field(default=val)))
        cls = dataclasses.make_dataclass(cd.name, specs, bases=(self.base,), frozen=frozen, kw_only=True, namespace=extra_namespace or {})
        cls.__module__ = self.module
        mod = sys.modules.get(self.module)
        if mod is not None:
            setattr(mod, cd.name, cls)  # module-level registration: pickling / type-hint resolution by name
        return cls

    # -- instances -----------------------------------------------------------------------------------------
    def gen_str(self) -> str:
        rng = self.rng
        r = rng.random()
        if r < 0.15:
            return ""
        alphabet = "abcXYZ09 _-\x00\n\u00e9\u4e2d\U0001f600\ud7ff\ue000\U0010ffff"
        s = "".join(rng.choice(alphabet) for _ in range(rng.randrange(1, 6)))
        if s.startswith("fld_"):
            s = "g" + s
        if r < 0.3:
            s = rng.choice(["RED", "red", "A", "B", "ONE", "x", "X"]) + ("" if r < 0.22 else s)
        return s

    def gen_scalar_value(self, s: str) -> Any:
        rng = self.rng
        if s == "str":
            return self.gen_str()
        if s == "bytes":
            return bytes(rng.randrange(256) for _ in range(rng.choice([0, 0, 1, 2, 5])))
        if s == "int":
            return rng.choice([0, 1, -1, I64_MIN, I64_MAX, rng.randrange(-1000, 1000), rng.randrange(I64_MIN, I64_MAX + 1)])
        if s == "bool":
            return rng.random() < 0.5
        r = rng.random()
        if r < 0.5:
            return rng.choice([0.0, -0.0, 1.5, float("inf"), float("-inf"), float("nan"), 5e-324, 1.7976931348623157e308])
        bits = rng.getrandbits(64)
        if r < 0.6:
            bits = 0x7FF0000000000000 | rng.getrandbits(52) | (rng.getrandbits(1) << 63)  # NaN payloads / infinities
        return struct.unpack("<d", struct.pack("<Q", bits))[0]

    def gen_value(self, T: Any) -> Any:
        rng = self.rng
        k = T[0]
        if k == "s":
            return self.gen_scalar_value(T[1])
        if k == "e":
            return rng.choice(list(ENUMS[T[1] - 1]))
        if k == "o":
            return None if rng.random() < 0.3 else self.gen_value(T[1])
        if k == "l":
            return [self.gen_value(T[1]) for _ in range(rng.choice([0, 1, 2, 3]))]
        if k == "fs":
            return frozenset(self.gen_value(T[1]) for _ in range(rng.choice([0, 1, 2, 3])))
        if k == "d":
            return {self.gen_value(T[1]): self.gen_value(T[2]) for _ in range(rng.choice([0, 1, 2, 3]))}
        if k == "c":
            return self.gen_instance(self.classes[T[1]])
        if k == "sch":
            return rng.choice(SCHEMAS)
        if k == "bat":
            return rng.choice(BATCHES)
        raise AssertionError(T)

    def gen_instance(self, cd: ClassDesc, transient_nondefault: bool = False, none_over_default: bool = False) -> Any:
        """``none_over_default``: every ``X | None`` field that declares a non-None default is explicitly set to None."""
        kw = {}
        for f in cd.fields:
            if f.kind == "transient":
                if transient_nondefault:
                    kw[f.name] = self.gen_value(f.T)
                continue
            if none_over_default and f.T[0] == "o" and f.default is not None and f.default[0] != "LNone":
                kw[f.name] = None
                continue
            kw[f.name] = self.gen_value(f.T)
        return cd.pycls(**kw)

    @staticmethod
    def has_optional_with_default(cd: ClassDesc) -> bool:
        return any(f.kind != "transient" and f.T[0] == "o" and f.default is not None and f.default[0] != "LNone" for f in cd.fields)

    # -- Coq rendering -------------------------------------------------------------------------------------
    def coq_ty(self, T: Any) -> str:
        k = T[0]
        if k == "s":
            return f"(TScalar {SCALAR_COQ[T[1]]})"
        if k == "e":
            return f"enum_{T[1]}"
        if k == "o":
            return f"(TOpt {self.coq_ty(T[1])})"
        if k == "l":
            return f"(TList {self.coq_ty(T[1])})"
        if k == "fs":
            return f"(TSet {self.coq_ty(T[1])})"
        if k == "d":
            return f"(TDict {self.coq_ty(T[1])} {self.coq_ty(T[2])})"
        if k == "c":
            return f"cls_{T[1]}"
        return "TSchema" if k == "sch" else "TBatch"

    def coq_header(self) -> str:
        """Definitions of the enums, of every generated class (in creation order) and of the registry ``ce_all``."""
        out = []
        for e in ENUMS:
            ms = "; ".join(f"({coq_cps(m.name)}, {('(Some ' + coq_cps(m.value) + ')') if isinstance(m.value, str) else 'None'})" for m in e)
            out.append(f"Definition enum_{ENUM_ID[e]} : ty := TEnum {ENUM_ID[e]} [{ms}].")
        kinds = {"plain": "KPlain", "binary": "KBinary", "transient": "KTransient"}
        for cid in sorted(self.classes):
            cd = self.classes[cid]
            fs = "; ".join(
                f"({f.idx}, {kinds[f.kind]}, {'None' if f.default is None else '(Some (' + f.default[0] + '))'}, {self.coq_ty(f.T)})" for f in cd.fields
            )
            out.append(f"Definition cls_{cid}_fs : list fdecl := [{fs}].")
            out.append(f"Definition cls_{cid} : ty := TData {cid} cls_{cid}_fs.")
        out.append("Definition ce_all : cenv := [" + "; ".join(f"({cid}, cls_{cid}_fs)" for cid in sorted(self.classes)) + "].")
        return "\n".join(out)

    def class_of(self, obj: Any) -> ClassDesc | None:
        for cd in self.classes.values():
            if type(obj) is cd.pycls:
                return cd
        return None

    def render(self, v: Any, T: Any = None) -> str:
        """A Python value as a ``pv`` term.  Value-directed; ``T`` only tells a row dict from a user dict and passes the
        element annotations down."""
        if T is not None:
            T = unopt(T)
        if v is None:
            return "VNone"
        if isinstance(v, enum.Enum):
            return f"(VEnum {ENUM_ID.get(type(v), 0)} {coq_cps(v.name)})"
        tv = type(v)
        if tv is bool:
            return f"(VBool {'true' if v else 'false'})"
        if tv is int:
            return f"(VInt ({v})%Z)"
        if tv is float:
            return f"(VFloat {float_bits(v)})"
        if tv is str:
            return f"(VStr {coq_cps(v)})"
        if tv is bytes:
            if v[:4] == b"\xff\xff\xff\xff":  # IPC bytes left unconverted: the model keeps them symbolic
                if T is not None and T[0] == "c":
                    # a nested dataclass in binary form that was left as bytes: show the one-row batch it holds
                    try:
                        batch = pa.ipc.open_stream(v).read_next_batch()
                        try:
                            batch.validate(full=True)
                            valid = "true"
                        except pa.ArrowInvalid:
                            valid = "false"
                        by_name = {f.name: f for f in self.classes[T[1]].fields}
                        cols = [(by_name[n], batch.column(i)[0].as_py()) for i, n in enumerate(batch.schema.names) if n in by_name]
                        if batch.num_rows == 1 or batch.num_columns == 0:
                            return f"(VIpcRow {valid} [" + "; ".join(f"({f.idx}, {self.render(x, f.T)})" for f, x in cols) + "])"
                    except Exception:  # noqa: BLE001 - fall through to the plain rendering
                        pass
                for i, ipc in enumerate(_ipc_tables()[0]):
                    if v == ipc:
                        return f"(VIpcSchema {i})"
                for i, ipc in enumerate(_ipc_tables()[1]):
                    if v == ipc:
                        return f"(VIpcBatch {i})"
            return f"(VBytes {coq_bytes(v)})"
        et = T[1] if T is not None and T[0] in ("l", "fs") else None
        if tv is list:
            if T is not None and T[0] == "d":
                # a map column read back and left as it was: list of (key, value) tuples
                return "(VList [" + "; ".join(self.render(x, ("tup", T[1], T[2])) for x in v) + "])"
            return "(VList [" + "; ".join(self.render(x, et) for x in v) + "])"
        if tv is tuple:
            if T is not None and T[0] == "tup" and len(v) == 2:
                return f"(VTuple [{self.render(v[0], T[1])}; {self.render(v[1], T[2])}])"
            return "(VTuple [" + "; ".join(self.render(x) for x in v) + "])"
        if tv is frozenset:
            return "(VSet [" + "; ".join(self.render(x, et) for x in v) + "])"
        if tv is dict:
            if T is not None and T[0] == "c":
                cd = self.classes[T[1]]
                by_name = {f.name: f for f in cd.fields}
                if all(isinstance(k, str) and k in by_name for k in v):
                    return "(VRow [" + "; ".join(f"({by_name[k].idx}, {self.render(x, by_name[k].T)})" for k, x in v.items()) + "])"
            kt, vt = (T[1], T[2]) if T is not None and T[0] == "d" else (None, None)
            return "(VDict [" + "; ".join(f"({self.render(k, kt)}, {self.render(x, vt)})" for k, x in v.items()) + "])"
        if isinstance(v, pa.Schema):
            for i, s in enumerate(SCHEMAS):
                if v.equals(s, check_metadata=True):
                    return f"(VSchema {i})"
            return "(VSchema 999999)"
        if isinstance(v, pa.RecordBatch):
            for i, b in enumerate(BATCHES):
                if v.schema.equals(b.schema, check_metadata=True) and v.equals(b):
                    return f"(VBatch {i})"
            return "(VBatch 999999)"
        cd = self.class_of(v)
        if cd is not None:
            return f"(VObj {cd.cid} [" + "; ".join(f"({f.idx}, {self.render(getattr(v, f.name), f.T)})" for f in cd.fields) + "])"
        return "(VBytes [999999])"  # something the model has no value for: certainly a disagreement


_IPC: list[list[bytes]] = []


def _ipc_tables() -> list[list[bytes]]:
    if not _IPC:
        from vgi_rpc.utils import new_ipc_stream

        sch = [s.serialize().to_pybytes() for s in SCHEMAS]
        bat = []
        for b in BATCHES:
            sink = pa.BufferOutputStream()
            with new_ipc_stream(sink, b.schema) as w:
                w.write_batch(b)
            bat.append(sink.getvalue().to_pybytes())
        _IPC.extend([sch, bat])
    return _IPC


def coq_cps(s: str) -> str:
    return "([" + ";".join(str(ord(c)) for c in s) + "]%N : list N)"


def coq_bytes(b: bytes) -> str:
    return "([" + ";".join(str(x) for x in b) + "]%N : list N)"


def float_bits(x: float) -> int:
    return struct.unpack("<Q", struct.pack("<d", x))[0]


# ---- deep equality: Python `==` with floats compared by bit pattern, no int/bool/float coercion ------------------
def deep_eq(a: Any, b: Any) -> bool:
    if type(a) is not type(b):
        return False
    if a is None:
        return True
    if isinstance(a, enum.Enum):
        return a is b
    if isinstance(a, float):
        return float_bits(a) == float_bits(b)
    if isinstance(a, (bool, int, str, bytes)):
        return a == b
    if isinstance(a, (list, tuple)):
        return len(a) == len(b) and all(deep_eq(x, y) for x, y in zip(a, b))
    if isinstance(a, (frozenset, set)):
        if len(a) != len(b):
            return False
        rest = list(b)
        for x in a:
            for i, y in enumerate(rest):
                if deep_eq(x, y):
                    del rest[i]
                    break
            else:
                return False
        return True
    if isinstance(a, dict):
        if len(a) != len(b):
            return False
        rest = list(b.items())
        for k, x in a.items():
            for i, (k2, y) in enumerate(rest):
                if deep_eq(k, k2) and deep_eq(x, y):
                    del rest[i]
                    break
            else:
                return False
        return True
    if isinstance(a, pa.Schema):
        return bool(a == b)
    if isinstance(a, pa.RecordBatch):
        return bool(a == b)
    if dataclasses.is_dataclass(a):
        return all(deep_eq(getattr(a, f.name), getattr(b, f.name)) for f in dataclasses.fields(a))
    return bool(a == b)


def first_diff(a: Any, b: Any, T: Any, gen: Gen, path: tuple[str, ...] = ()) -> tuple[str, ...] | None:
    """Annotation constructs on the way to the first position where ``b`` (restored) differs from ``a`` (original)."""
    if deep_eq(a, b):
        return None
    T0 = T
    T = unopt(T) if T is not None else None
    here = path + ((T[0] if T is not None else "?"),)
    if T is None or type(a) is not type(b):
        return here
    k = T[0]
    if k == "l" and len(a) == len(b):
        for x, y in zip(a, b):
            d = first_diff(x, y, T[1], gen, here)
            if d:
                return d
    if k == "c" and dataclasses.is_dataclass(a):
        cd = gen.classes[T[1]]
        for f in cd.fields:
            d = first_diff(getattr(a, f.name), getattr(b, f.name), f.T, gen, here)
            if d:
                return d
    if k == "fs":
        return here + (unopt(T[1])[0],)
    if k == "d":
        return here + (unopt(T[1])[0], unopt(T[2])[0])
    del T0
    return here


ERR_CODE = {"TypeError": 1, "ValueError": 2, "KeyError": 3, "OverflowError": 4, "UnicodeEncodeError": 5, "Arrow": 6, "IPCError": 7, "RuntimeError": 8}


def classify(e: BaseException) -> int:
    if isinstance(e, UnicodeEncodeError):
        return 5
    if isinstance(e, OverflowError):
        return 4
    if isinstance(e, IPCError):
        return 7
    if isinstance(e, pa.ArrowException):
        return 6
    if isinstance(e, KeyError):
        return 3
    if isinstance(e, TypeError):
        return 1
    if isinstance(e, ValueError):
        return 2
    if isinstance(e, RuntimeError):
        return 8
    return 99


def _has_set_of_nonscalar(gen: Gen, T: Any, seen: set[int] | None = None) -> bool:
    seen = set() if seen is None else seen
    k = T[0]
    if k == "fs":
        return unopt(T[1])[0] in ("c", "fs", "d", "l") or _has_set_of_nonscalar(gen, T[1], seen)
    if k in ("o", "l"):
        return _has_set_of_nonscalar(gen, T[1], seen)
    if k == "d":
        return _has_set_of_nonscalar(gen, T[1], seen) or _has_set_of_nonscalar(gen, T[2], seen)
    if k == "c" and T[1] not in seen:
        seen.add(T[1])
        return any(_has_set_of_nonscalar(gen, f.T, seen) for f in gen.classes[T[1]].fields if f.kind != "transient")
    return False


def finding_key(gen: Gen, cd: ClassDesc, x: Any, y: Any = None, exc: BaseException | None = None) -> str:
    """Name the class of failure specifically: which construct did not come back."""
    if exc is not None:
        if "Dictionary indices invalid" in str(exc):
            return "none-nested-dataclass-with-enum-field-fails-full-ipc-validation"
        if isinstance(exc, TypeError) and "unhashable" in str(exc) and _has_set_of_nonscalar(gen, ("c", cd.cid)):
            return "frozenset-elements-not-converted-back"
        return "roundtrip-raises-" + type(exc).__name__
    if y is not None and type(y) is type(x):
        for f in cd.fields:
            if f.kind != "transient" and f.default is not None and getattr(x, f.name, 0) is None and getattr(y, f.name, None) is not None:
                dv = f.default[1]() if f.default[2] else f.default[1]
                if deep_eq(getattr(y, f.name), dv):
                    return "explicit-none-replaced-by-field-default"
    path = first_diff(x, y, ("c", cd.cid), gen) or ()
    for i in range(len(path) - 1, -1, -1):
        if path[i] == "fs" and i < len(path) - 1:
            return "frozenset-elements-not-converted-back"
        if path[i] == "d" and i < len(path) - 2:
            return "dict-keys-or-values-not-converted-back"
    kinds = {"s": "scalar", "e": "enum", "c": "dataclass", "l": "list", "fs": "frozenset", "d": "dict", "sch": "schema", "bat": "batch", "?": "value"}
    return "roundtrip-changes-a-" + kinds.get(path[-1] if path else "?", "value")
