"""C10 lifecycle service + client driver (additive to harness/interp.py, which is owned by the wire-core worker).

Service ``Life`` (served by the REAL RpcServer): the interpreter's stream program grammar (see harness/interp.py) with
three additions
  step["emit2"]: bool         process() calls out.emit twice (the collector must refuse the second data batch)
  step["try_bad"]: kind       before anything else process() does ``try: out.emit(<bad batch>) except Exception: pass``;
                              kind = "missing" (lacks the output column: ValueError), "uncastable" (v is a string that is
                              not a number: ArrowInvalid) -- both emits FAIL and must leave the collector untouched --
                              or "extra" (v plus an extra column, 2 rows: the emit SUCCEEDS by projection)
  prog["cancel_raises"]: bool the state's on_cancel hook raises
  method "typed"              an exchange whose declared input schema is IN_TYPED (a:int64, b:float64, c:string);
                              process() records whether the batch it was handed has exactly that schema, and its values
Programs live in harness.interp's registry (``I.register``); server-side invocations are appended to ``CALLS``:
  ("init", method, pid) ("process", pid, i) ("typed_input", pid, i, schema_equal, names, types, columns) ("cancel", pid, i)

Client scripts (``run_ops``): {"method": m, "pid": p, "ops": [op...]} with
  ["iter", k|None]   fresh ``iter(session)``; take at most k batches (None: to exhaustion); a generator that was not
                     exhausted stays suspended and can be continued by ["resume"]
  ["resume"]         ``next()`` on the suspended iterator
  ["exch", name]     session.exchange(input) ; name = perturbation of the input schema (typed method) or None
  ["close"] ["cancel"]
  ["cancel_fault", "lost"|"refused"]  HTTP only: cancel() while the next POST fails in the client -- "lost": the request is
                     delivered to the server and the response is lost (exception while reading it); "refused": the
                     request never leaves the client.  cancel() is documented best effort: it swallows the failure.
  ["next"]           HTTP only: session.next_with_token(); a batch or ["done"] for (None, None)
Every op yields its own event list (harness.interp event vocabulary); an RpcError is the event ["error", type, msg] and
the script CONTINUES (the point of C10 is what a session does after cancel); any other exception ends the script.
The result is (init_events, [(op_events, server_calls_during_op)...]).
"""
from __future__ import annotations

import contextlib
import threading
from dataclasses import dataclass
from typing import Any, Iterator, Protocol

import pyarrow as pa

from harness import interp as I
from vgi_rpc.rpc import AnnotatedBatch, CallContext, OutputCollector, RpcConnection, RpcError, RpcServer, Stream, StreamState

CALLS: list[tuple[Any, ...]] = []
OUT_SCHEMA = I.OUT_SCHEMA
IN_SCHEMA = I.IN_SCHEMA
IN_TYPED = pa.schema([pa.field("a", pa.int64()), pa.field("b", pa.float64()), pa.field("c", pa.string())])


class CancelBoom(Exception):
    """Raised by on_cancel when the program says so."""


def _step(state: Any, out: OutputCollector, ctx: CallContext, producer: bool) -> None:
    prog = I.lookup(state.pid)
    steps = prog.get("steps", [])
    i = state.i
    state.i = i + 1
    CALLS.append(("process", state.pid, i))
    if i >= len(steps):
        if producer:
            out.finish()
        else:
            out.emit_pydict({"v": []})
        return
    st = steps[i]
    I._emit_logs(st.get("logs") or [], ctx.client_log)
    tb = st.get("try_bad")
    if tb:
        try:
            out.emit(bad_output_batch(tb, i))
        except Exception:  # noqa: BLE001, S110 - the step swallows the failed emit and goes on (fallback / nothing / finish)
            pass
    em = st.get("emit")
    if em is not None:
        out.emit_pydict({"v": [i] * int(em["rows"])}, metadata=(em.get("meta") or None))
        if st.get("emit2"):
            out.emit_pydict({"v": [i]})
    if st.get("finish"):
        out.finish()
    if st.get("raise"):
        raise I.make_exc(*st["raise"])


def bad_output_batch(kind: str, i: int) -> pa.RecordBatch:
    if kind == "missing":
        return pa.RecordBatch.from_pydict({"w": [i]})
    if kind == "uncastable":
        return pa.RecordBatch.from_pydict({"v": ["abc"]})
    if kind == "extra":
        return pa.RecordBatch.from_pydict({"v": [i, i], "w": [0, 0]})
    raise ValueError(kind)


def _cancel(state: Any) -> None:
    CALLS.append(("cancel", state.pid, state.i))
    if I.lookup(state.pid).get("cancel_raises"):
        raise CancelBoom("on_cancel raised")


@dataclass
class LProd(StreamState):
    """Producer cursor."""

    pid: int
    i: int = 0

    def process(self, input: AnnotatedBatch, out: OutputCollector, ctx: CallContext) -> None:  # noqa: A002
        _step(self, out, ctx, producer=True)

    def on_cancel(self, ctx: CallContext) -> None:
        _cancel(self)


@dataclass
class LExch(StreamState):
    """Exchange cursor (input schema x:int64)."""

    pid: int
    i: int = 0

    def process(self, input: AnnotatedBatch, out: OutputCollector, ctx: CallContext) -> None:  # noqa: A002
        _step(self, out, ctx, producer=False)

    def on_cancel(self, ctx: CallContext) -> None:
        _cancel(self)


@dataclass
class LTyped(StreamState):
    """Exchange cursor of the typed method: records what process() was handed."""

    pid: int
    i: int = 0

    def process(self, input: AnnotatedBatch, out: OutputCollector, ctx: CallContext) -> None:  # noqa: A002
        b = input.batch
        CALLS.append(("typed_input", self.pid, self.i, b.schema == IN_TYPED, list(b.schema.names), [str(t) for t in b.schema.types],
                      {n: b.column(k).to_pylist() for k, n in enumerate(b.schema.names)}))
        _step(self, out, ctx, producer=False)

    def on_cancel(self, ctx: CallContext) -> None:
        _cancel(self)


class Life(Protocol):
    """Lifecycle protocol."""

    def producer(self, pid: int) -> Stream[LProd]: ...

    def producer_h(self, pid: int) -> Stream[LProd, I.Hdr]: ...

    def exchange(self, pid: int) -> Stream[LExch]: ...

    def exchange_h(self, pid: int) -> Stream[LExch, I.Hdr]: ...

    def typed(self, pid: int) -> Stream[LTyped]: ...


class LifeImpl:
    """Replays registered programs."""

    def _init(self, method: str, pid: int, ctx: CallContext, kind: str, with_header: bool) -> Any:
        prog = I.lookup(pid)
        CALLS.append(("init", method, pid))
        I._emit_logs(prog.get("init_logs") or [], ctx.client_log)
        init = prog.get("init", "ok")
        if isinstance(init, dict) and "raise" in init:
            raise I.make_exc(*init["raise"])
        header = I.Hdr(h=int(prog["header"])) if with_header and prog.get("header") is not None else None
        if kind == "exchange":
            return Stream(output_schema=OUT_SCHEMA, state=LExch(pid=pid), input_schema=IN_SCHEMA, header=header)
        if kind == "typed":
            return Stream(output_schema=OUT_SCHEMA, state=LTyped(pid=pid), input_schema=IN_TYPED)
        return Stream(output_schema=OUT_SCHEMA, state=LProd(pid=pid), header=header)

    def producer(self, pid: int, ctx: CallContext) -> Stream[LProd]:
        return self._init("producer", pid, ctx, "producer", False)  # type: ignore[no-any-return]

    def producer_h(self, pid: int, ctx: CallContext) -> Stream[LProd, I.Hdr]:
        return self._init("producer_h", pid, ctx, "producer", True)  # type: ignore[no-any-return]

    def exchange(self, pid: int, ctx: CallContext) -> Stream[LExch]:
        return self._init("exchange", pid, ctx, "exchange", False)  # type: ignore[no-any-return]

    def exchange_h(self, pid: int, ctx: CallContext) -> Stream[LExch, I.Hdr]:
        return self._init("exchange_h", pid, ctx, "exchange", True)  # type: ignore[no-any-return]

    def typed(self, pid: int, ctx: CallContext) -> Stream[LTyped]:
        return self._init("typed", pid, ctx, "typed", False)  # type: ignore[no-any-return]


HAS_HEADER = {"producer": False, "producer_h": True, "exchange": False, "exchange_h": True, "typed": False}
IS_PRODUCER = {"producer": True, "producer_h": True, "exchange": False, "exchange_h": False, "typed": False}

# --------------------------------------------------------------------------- input-schema perturbations (typed method)
# name -> (list of (field name, arrow type, nullable, values)) ; row count 2.  TYPE_CODES gives the abstract type of the model.
_A, _B, _C = [1, 2], [0.5, 2.0], ["p", "q"]
PERTURB: dict[str, list[tuple[str, pa.DataType, bool, list[Any]]]] = {
    "same": [("a", pa.int64(), True, _A), ("b", pa.float64(), True, _B), ("c", pa.string(), True, _C)],
    "reorder": [("c", pa.string(), True, _C), ("a", pa.int64(), True, _A), ("b", pa.float64(), True, _B)],
    "reverse": [("c", pa.string(), True, _C), ("b", pa.float64(), True, _B), ("a", pa.int64(), True, _A)],
    "cast_narrow": [("a", pa.int32(), True, _A), ("b", pa.float32(), True, _B), ("c", pa.string(), True, _C)],
    "cast_float_integral": [("a", pa.float64(), True, [1.0, 2.0]), ("b", pa.float64(), True, _B), ("c", pa.string(), True, _C)],
    "cast_float_fractional": [("a", pa.float64(), True, [1.5, 2.0]), ("b", pa.float64(), True, _B), ("c", pa.string(), True, _C)],
    "cast_string_numeric": [("a", pa.string(), True, ["12", "13"]), ("b", pa.float64(), True, _B), ("c", pa.string(), True, _C)],
    "cast_string_text": [("a", pa.string(), True, ["abc", "13"]), ("b", pa.float64(), True, _B), ("c", pa.string(), True, _C)],
    "cast_list": [("a", pa.list_(pa.int64()), True, [[1], [2]]), ("b", pa.float64(), True, _B), ("c", pa.string(), True, _C)],
    "cast_uint_overflow": [("a", pa.uint64(), True, [2**63, 1]), ("b", pa.float64(), True, _B), ("c", pa.string(), True, _C)],
    "cast_large_string": [("a", pa.int64(), True, _A), ("b", pa.float64(), True, _B), ("c", pa.large_string(), True, _C)],
    "reorder_cast": [("b", pa.float32(), True, _B), ("c", pa.string(), True, _C), ("a", pa.int32(), True, _A)],
    "reorder_cast_bad": [("b", pa.float32(), True, _B), ("c", pa.string(), True, _C), ("a", pa.string(), True, ["x", "y"])],
    "nonnull": [("a", pa.int64(), False, _A), ("b", pa.float64(), True, _B), ("c", pa.string(), True, _C)],
    "extra": [("a", pa.int64(), True, _A), ("b", pa.float64(), True, _B), ("c", pa.string(), True, _C), ("d", pa.int64(), True, _A)],
    "missing": [("a", pa.int64(), True, _A), ("b", pa.float64(), True, _B)],
    "renamed": [("A", pa.int64(), True, _A), ("b", pa.float64(), True, _B), ("c", pa.string(), True, _C)],
    "swapped_names": [("b", pa.int64(), True, _A), ("a", pa.float64(), True, [3.0, 4.0]), ("c", pa.string(), True, _C)],
    "duplicate": [("a", pa.int64(), True, _A), ("a", pa.int64(), True, _A), ("b", pa.float64(), True, _B), ("c", pa.string(), True, _C)],
    "empty": [],
    "only_extra": [("z", pa.int64(), True, _A)],
}


def perturbed_batch(name: str) -> AnnotatedBatch:
    cols = PERTURB[name]
    schema = pa.schema([pa.field(n, t, nullable=nl) for n, t, nl, _ in cols])
    arrays = [pa.array(v, type=t) for _, t, _, v in cols]
    if not cols:
        return AnnotatedBatch(batch=pa.RecordBatch.from_arrays([], schema=schema))
    return AnnotatedBatch(batch=pa.RecordBatch.from_arrays(arrays, schema=schema))


def oracle_cast(name: str) -> dict[tuple[str, int], Any]:
    """pyarrow itself, independent of vgi_rpc: for every column of the perturbed batch and every target field, the values
    after ``Array.cast(target type)`` or the exception class name.  Key: (target field name, column position)."""
    out: dict[tuple[str, int], Any] = {}
    for pos, (_n, t, _nl, v) in enumerate(PERTURB[name]):
        arr = pa.array(v, type=t)
        for f in IN_TYPED:
            try:
                out[(f.name, pos)] = ("ok", arr.cast(f.type).to_pylist())
            except Exception as e:  # noqa: BLE001 - the class is the observation
                out[(f.name, pos)] = ("err", type(e).__name__)
    return out


# --------------------------------------------------------------------------- fault injection (HTTP)
class FlakyClient:
    """Wraps the in-process HTTP client: the NEXT post() can be refused (never sent) or lose its response."""

    def __init__(self, inner: Any) -> None:
        self._inner = inner
        self.prefix = getattr(inner, "prefix", "")
        self.fault: str | None = None

    def post(self, url: str, *, content: bytes, headers: dict[str, str]) -> Any:
        fault, self.fault = self.fault, None
        if fault == "refused":
            raise ConnectionError("injected: connect failed, request never sent")
        resp = self._inner.post(url, content=content, headers=headers)
        if fault == "lost":
            raise ConnectionError("injected: connection reset while reading the response")
        return resp

    def __getattr__(self, name: str) -> Any:
        return getattr(self._inner, name)


# --------------------------------------------------------------------------- transports
_SERVER: list[RpcServer] = []
_HTTP: dict[Any, Any] = {}


def server() -> RpcServer:
    if not _SERVER:
        _SERVER.append(RpcServer(Life, LifeImpl()))
    return _SERVER[0]


@contextlib.contextmanager
def connect(kind: str, cap: int | None = None) -> Iterator[tuple[Any, I.Recorder]]:
    """Typed proxy for ``Life`` over a real pipe pair / unix socket pair (server thread) or the in-process HTTP app."""
    rec = I.Recorder("record")
    if kind == "http":
        from vgi_rpc.http import http_connect
        from vgi_rpc.http._testing import make_sync_client

        client = _HTTP.get(cap)
        if client is None:
            client = make_sync_client(server(), token_key=b"verif-c10-token-key-0123456789ab", max_response_bytes=cap, compression_level=None,
                                      enable_landing_page=False, enable_describe_page=False, enable_not_found_page=False)
            _HTTP[cap] = client
        flaky = FlakyClient(client)
        with http_connect(Life, client=flaky, on_log=rec.on_log, compression_level=None) as proxy:
            rec.flaky = flaky  # type: ignore[attr-defined]
            yield proxy, rec
        return
    from vgi_rpc.rpc import make_pipe_pair
    from vgi_rpc.rpc._transport import make_unix_pair

    ct, st = make_pipe_pair() if kind == "pipe" else make_unix_pair()

    def serve() -> None:
        with contextlib.suppress(Exception):
            server().serve(st)

    th = threading.Thread(target=serve, daemon=True, name="c10-serve")
    th.start()
    try:
        with RpcConnection(Life, ct, on_log=rec.on_log) as proxy:
            yield proxy, rec
    finally:
        with contextlib.suppress(Exception):
            ct.close()
        th.join(timeout=3)
        with contextlib.suppress(Exception):
            st.close()


def _play(proxy: Any, rec: I.Recorder, script: dict[str, Any], out: dict[str, Any]) -> None:
    method, pid = script["method"], script["pid"]
    ev: list[Any] = []
    rec.events = ev
    out["init"] = ev
    mark = len(CALLS)
    try:
        sess = getattr(proxy, method)(pid=pid)
    except RpcError as e:
        ev.append(["error", e.error_type, e.error_message])
        out["init_calls"] = CALLS[mark:]
        return
    if HAS_HEADER[method]:
        ev.append(["header", getattr(sess.header, "h", None)])
    out["init_calls"] = CALLS[mark:]
    it: Any = None
    j = 0
    for op in script["ops"]:
        ev = []
        rec.events = ev
        mark = len(CALLS)
        out["ops"].append((ev, None))
        try:
            if op[0] == "iter":
                it = iter(sess)
                n = 0
                while op[1] is None or n < op[1]:
                    try:
                        ab = next(it)
                    except StopIteration:
                        ev.append(["done"])
                        break
                    ev.append(I._batch_event(ab))
                    n += 1
            elif op[0] == "resume":
                try:
                    ev.append(I._batch_event(next(it)))
                except StopIteration:
                    ev.append(["done"])
            elif op[0] == "exch":
                inp = I.input_batch(j) if op[1] is None else perturbed_batch(op[1])
                j += 1
                ev.append(I._batch_event(sess.exchange(inp)))
            elif op[0] == "close":
                sess.close()
            elif op[0] == "cancel":
                sess.cancel()
            elif op[0] == "cancel_fault":
                rec.flaky.fault = op[1]  # type: ignore[attr-defined]
                try:
                    sess.cancel()
                finally:
                    rec.flaky.fault = None  # type: ignore[attr-defined]
            elif op[0] == "next":
                ab, _tok = sess.next_with_token()
                ev.append(["done"] if ab is None else I._batch_event(ab))
            else:
                raise ValueError(f"unknown op {op!r}")
        except RpcError as e:
            ev.append(["error", e.error_type, e.error_message])
        finally:
            out["ops"][-1] = (ev, CALLS[mark:])
    with contextlib.suppress(Exception):
        sess.close()


def run_ops(kind: str, cap: int | None, script: dict[str, Any], timeout: float = 20.0) -> dict[str, Any]:
    """Fresh connection, one script.  Returns {"init": events, "init_calls": calls, "ops": [(events, calls)...], "fatal": None|[...]}."""
    out: dict[str, Any] = {"init": [], "init_calls": [], "ops": [], "fatal": None}
    with connect(kind, cap) as (proxy, rec):

        def body() -> None:
            try:
                _play(proxy, rec, script, out)
            except BaseException as e:  # noqa: BLE001 - anything but RpcError escaping the client API is an observation
                out["fatal"] = ["client_exc", type(e).__name__, str(e)[:200]]

        t = threading.Thread(target=body, daemon=True, name="c10-script")
        t.start()
        t.join(timeout)
        if t.is_alive():
            out["fatal"] = ["blocked"]
    return out
