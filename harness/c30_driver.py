"""C30 harness, unit level: drive the REAL maybe_externalize_* / resolve_external_location /
_build_pointer_request_body against the fake object store, and express inputs and observations in the vocabulary
of coq/model/M_ExtStore.v (abstract batches, views, outcomes)."""
from __future__ import annotations

import hashlib
import json
from io import BytesIO
from typing import Any

import pyarrow as pa
from pyarrow import ipc

from vgi_rpc.log import Level, Message
from vgi_rpc.rpc import OutputCollector, RpcError
from vgi_rpc.utils import IpcValidation, ValidatedReader, empty_batch

K_LOC = b"vgi_rpc.location"
K_SHA = b"vgi_rpc.location.sha256"
K_FETCH_MS = b"vgi_rpc.location.fetch_ms"
K_SOURCE = b"vgi_rpc.location.source"
K_LEVEL = b"vgi_rpc.log_level"
K_MSG = b"vgi_rpc.log_message"
K_EXTRA = b"vgi_rpc.log_extra"

SCHEMAS: list[pa.Schema] = [
    pa.schema([pa.field("v", pa.int64())]),
    pa.schema([pa.field("v", pa.int32())]),
    pa.schema([pa.field("w", pa.int64())]),
    pa.schema([pa.field("v", pa.int64(), nullable=False)]),
    pa.schema([pa.field("v", pa.int64()), pa.field("u", pa.int64())]),
    pa.schema([]),
]
COMP_CODE = {None: None, "zstd": 0, "gzip": 1}


def schema_id(s: pa.Schema) -> int:
    for i, t in enumerate(SCHEMAS):
        if s.equals(t, check_metadata=False):
            return i
    SCHEMAS.append(s)
    return len(SCHEMAS) - 1


def body_of(b: pa.RecordBatch) -> list[int]:
    if b.num_rows == 0:
        return []
    if b.num_columns == 1 and b.num_rows <= 6:
        vals = b.column(0).to_pylist()
        if all(isinstance(x, int) and 0 <= x < 2**31 for x in vals):
            return [int(x) for x in vals]
    return list(hashlib.sha1(repr(b.to_pydict()).encode()).digest()[:6]) + [2**32]


def meta_of(cm: Any) -> list[tuple[bytes, bytes]] | None:
    if cm is None:
        return None
    return [(bytes(k), bytes(v)) for k, v in cm.items()]


def abs_batch(b: pa.RecordBatch, cm: Any, norm_fetch_ms: bool = False) -> dict[str, Any]:
    m = meta_of(cm)
    if norm_fetch_ms and m is not None:
        m = [(k, b"" if k == K_FETCH_MS else v) for k, v in m]
    return {"schema": schema_id(b.schema), "rows": b.num_rows, "body": body_of(b), "meta": m}


# ---- rendering as Coq terms ---------------------------------------------------------------------------------------
def c_bytes(b: bytes) -> str:
    return "[" + ";".join(str(x) for x in b) + "]"


def c_meta(m: list[tuple[bytes, bytes]] | None) -> str:
    if m is None:
        return "None"
    return "(Some [" + "; ".join(f"({c_bytes(k)}, {c_bytes(v)})" for k, v in m) + "])"


def c_batch(a: dict[str, Any]) -> str:
    return f"(mkBatch {a['schema']} {a['rows']} {c_bytes(a['body'])} {c_meta(a['meta'])})"


def c_list(xs: list[str]) -> str:
    return "[" + "; ".join(xs) + "]"


def c_opt(x: str | None) -> str:
    return "None" if x is None else f"(Some {x})"


def c_item(it: Any) -> str:
    return "IBad" if it is None else f"(IBatch {c_batch(it)})"


def c_fetched(f: Any) -> str:
    if f[0] == "err":
        return f"(FErr {'true' if f[1] else 'false'})"
    return f"(FData (mkView {c_bytes(f[1])} {c_list([c_item(i) for i in f[2]])}))"


def c_upload(u: Any) -> str:
    if u is None:
        return "None"
    return f"(Some (mkUpload {u['schema']} {c_list([c_batch(b) for b in u['items']])} {c_opt(None if u['enc'] is None else str(u['enc']))}))"


def c_outcome(o: Any) -> str:
    if o[0] == "none":
        return "None"
    if o[0] == "pass":
        return f"(Some (OPass {c_batch(o[1])}))"
    if o[0] == "deliver":
        return f"(Some (ODeliver {c_batch(o[1])}))"
    code = o[1]
    names = {0: "EShaMismatch", 1: "ELoop", 2: "ERpc", 4: "ENoData", 5: "EMulti", 6: "ESchema", 7: "EFetchFatal", 8: "EExhausted"}
    # an error class outside the model can never equal the model's answer: render as a pass of an impossible batch
    return f"(Some (OFail {names[code]}))" if code in names else "(Some (OPass (mkBatch 987654 0 [] None)))"


def c_logs(lg: list[tuple[bytes, bytes]]) -> str:
    return c_list([f"({c_bytes(l)}, {c_bytes(m)})" for l, m in lg])


def c_result(wire: list[Any], upload: Any, logs: list[tuple[bytes, bytes]], out: Any) -> str:
    return f"(mkResult {c_list([c_batch(b) for b in wire])} {c_upload(upload)} {c_logs(logs)} {c_outcome(out)})"


def c_cfg(storage: bool, thr: int, comp: str | None) -> str:
    cc = COMP_CODE[comp]
    return f"(mkCfg {'true' if storage else 'false'} {thr} {c_opt(None if cc is None else str(cc))})"


def c_tab(tab: list[tuple[int, list[Any], bytes]]) -> str:
    return c_list([f"({s}, {c_list([c_batch(b) for b in bs])}, {c_bytes(h)})" for s, bs, h in tab])


# ---- serialisation helpers (independent of the code under test) --------------------------------------------------------
def ser_stream(schema: pa.Schema, batches: list[tuple[pa.RecordBatch, Any]]) -> bytes:
    buf = BytesIO()
    with ipc.new_stream(buf, schema) as w:
        for b, cm in batches:
            if cm is not None:
                w.write_batch(b, custom_metadata=cm)
            else:
                w.write_batch(b)
    return buf.getvalue()


def log_batch(schema: pa.Schema, level: str, message: str, extra: dict[str, str] | None = None) -> tuple[pa.RecordBatch, Any]:
    md = {K_LEVEL: level.encode(), K_MSG: message.encode()}
    if extra:
        md[K_EXTRA] = json.dumps(extra).encode()
    return empty_batch(schema), pa.KeyValueMetadata(md)


def data_batch(schema: pa.Schema, rows: int, tag: int, meta: dict[bytes, bytes] | None = None) -> tuple[pa.RecordBatch, Any]:
    arrays = [pa.array([tag] * rows, type=f.type) for f in schema]
    b = pa.RecordBatch.from_arrays(arrays, schema=schema) if len(schema) else pa.RecordBatch.from_pylist([{}] * rows, schema=schema)
    return b, (pa.KeyValueMetadata(meta) if meta else None)


def decode_body(body: bytes, enc: str | None) -> tuple[bool, bytes]:
    """What fetch_url's content decoding makes of a stored object.  The codec itself is environment here
    (properties C17/C18 are about it): vgi_rpc._codec.decompress is used as is."""
    ce = (enc or "").strip().lower().split(";", 1)[0].strip()
    if ce in ("zstd", "gzip"):
        from vgi_rpc._codec import Encoding, decompress

        try:
            return True, decompress(Encoding(ce), body, max_output_size=1 << 30)
        except Exception:  # noqa: BLE001
            return False, b""
    return True, body


def utf8(b: bytes) -> bool:
    try:
        b.decode()
        return True
    except UnicodeDecodeError:
        return False


def view_of(variant: Any) -> tuple[Any, bool]:
    """(fetched value in model vocabulary, inside the model's domain?) for one stored variant."""
    if variant is None:
        return ("err", True), True
    body, enc = variant
    ok, data = decode_body(body, enc)
    if not ok:
        return ("err", False), True
    items: list[Any] = []
    dom = True
    try:
        rd = ValidatedReader(ipc.open_stream(BytesIO(data)), IpcValidation.FULL)
        while True:
            try:
                b, cm = rd.read_next_batch_with_custom_metadata()
            except StopIteration:
                break
            a = abs_batch(b, cm)
            m = a["meta"]
            if m is not None:
                keys = [k for k, _ in m]
                if len(set(keys)) != len(keys):
                    dom = False
                d = dict(m)
                for k in (K_LEVEL, K_MSG, K_LOC, b"vgi_rpc.request_id", b"vgi_rpc.server_id"):
                    if k in d and not utf8(d[k]):
                        dom = False
            items.append(a)
    except (OSError, pa.ArrowInvalid):
        items.append(None)
    except Exception:  # noqa: BLE001 - an exception class the retry list does not name: outside the model
        items.append(None)
        dom = False
    return ("data", hashlib.sha256(data).hexdigest().encode(), items), dom


# ---- the real operations -------------------------------------------------------------------------------------------
ERR_PREFIX = [
    (RuntimeError, "SHA-256 checksum mismatch", 0),
    (RuntimeError, "Redirect loop detected", 1),
    (RuntimeError, "No data batch found", 4),
    (RuntimeError, "Multiple data batches", 5),
    (ValueError, "Schema mismatch in ExternalLocation", 6),
    (RuntimeError, "Failed to resolve ExternalLocation after", 8),
    (RuntimeError, "Failed to decompress", 7),
]


def classify_exc(e: BaseException) -> int:
    if isinstance(e, RpcError):
        return 2
    msg = str(e)
    for cls, prefix, code in ERR_PREFIX:
        if type(e) is cls and msg.startswith(prefix):
            return code
    return 99


def real_resolve(ptr: pa.RecordBatch, cm: Any, config: Any, on_log: bool) -> tuple[list[tuple[bytes, bytes]], Any, list[Message], Any]:
    """-> (logs, outcome in model vocabulary, raw messages, raw result or exception)."""
    from vgi_rpc.external import resolve_external_location

    msgs: list[Message] = []
    try:
        rb, rcm = resolve_external_location(ptr, cm, config, msgs.append if on_log else None)
    except BaseException as e:  # noqa: BLE001
        logs = [(m.level.value.encode(), m.message.encode()) for m in msgs]
        return logs, ("fail", classify_exc(e)), msgs, e
    logs = [(m.level.value.encode(), m.message.encode()) for m in msgs]
    if rb is ptr and rcm is cm:
        return logs, ("pass", abs_batch(rb, rcm)), msgs, (rb, rcm)
    return logs, ("deliver", abs_batch(rb, rcm, norm_fetch_ms=True)), msgs, (rb, rcm)


def make_collector(schema: pa.Schema, cycle: list[Any]) -> tuple[OutputCollector, list[tuple[pa.RecordBatch, Any]]]:
    """cycle items: ("log", level, message, extra) | ("data", rows, tag, meta-dict | None).  Uses the real collector API."""
    out = OutputCollector(schema)
    for it in cycle:
        if it[0] == "log":
            out.client_log(Level(it[1]), it[2], **(it[3] or {}))
        else:
            b, _ = data_batch(schema, it[1], it[2])
            out.emit(b, metadata=it[3] or None)
    return out, [(ab.batch, ab.custom_metadata) for ab in out.batches]
