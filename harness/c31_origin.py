"""C31 harness: a scripted origin at the aiohttp.ClientSession interface, driven in virtual time.

`run_fetch(case)` runs the REAL `vgi_rpc.external_fetch.fetch_url` (pool thread, retry, probe, redirect loop,
single GET / parallel range path with hedging, decompression) against a scripted `FakeSession` that stands for
`aiohttp.ClientSession`: `head/get(url, headers=, allow_redirects=False)` return scripted responses
(`status`, `headers` (CIMultiDict), `content.iter_chunked(n)`, `content.read(n)`, `release()`).

Determinism: the pool's event loop is a `VirtualLoop` whose clock only advances when nothing is runnable (delays
of the script are virtual); `external_fetch.time` / `external_fetch.asyncio` are replaced by proxies that read the
virtual clock and record task creation and every `asyncio.wait` result (done / pending iteration order) - the
scheduling facts the Coq model takes as its `schedule` input.

Nothing here decides anything about the property: it only scripts the environment and records what the code did.
"""
from __future__ import annotations

import asyncio
import contextlib
import logging
import threading
import traceback
from typing import Any

from multidict import CIMultiDict, CIMultiDictProxy


class VirtualLoop(asyncio.SelectorEventLoop):
    """Event loop with a virtual clock: when no callback is ready the clock jumps to the next timer."""

    def __init__(self) -> None:
        super().__init__()
        self._vt = 0.0

    def time(self) -> float:
        return self._vt

    def _run_once(self) -> None:  # type: ignore[override]
        if not self._ready and self._scheduled:
            # drop cancelled timers at the head the way the base class does, then jump
            while self._scheduled and self._scheduled[0]._cancelled:
                import heapq

                h = heapq.heappop(self._scheduled)
                h._scheduled = False
            if self._scheduled and not self._ready:
                self._vt = max(self._vt, self._scheduled[0]._when)
        super()._run_once()


class _Content:
    def __init__(self, rec: dict[str, Any], units: list[bytes], unit_delays: list[int], berr: bool):
        self.rec = rec
        self.units = [u for u in units if u]
        self.delays = list(unit_delays) + [0] * len(units)
        self.berr = berr
        self.cur = b""
        self.i = 0

    async def _next_unit(self) -> bool:
        if self.i >= len(self.units):
            return False
        d = self.delays[self.i]
        if d:
            await asyncio.sleep(d)
        self.cur = self.units[self.i]
        self.i += 1
        return True

    async def _fail(self) -> None:
        import aiohttp

        raise aiohttp.ClientPayloadError("Response payload is not completed")

    async def iter_chunked(self, n: int):  # noqa: ANN201
        self.rec["read_sizes"].append(n)
        while True:
            if not self.cur and not await self._next_unit():
                if self.berr:
                    await self._fail()
                return
            piece, self.cur = self.cur[:n], self.cur[n:]
            self.rec["consumed"] += len(piece)
            self.rec["max_piece"] = max(self.rec["max_piece"], len(piece))
            yield piece

    async def read(self, n: int = -1) -> bytes:
        self.rec["read_sizes"].append(n)
        if not self.cur and not await self._next_unit():
            if self.berr:
                await self._fail()
            return b""
        if n < 0:
            n = len(self.cur)
        piece, self.cur = self.cur[:n], self.cur[n:]
        self.rec["consumed"] += len(piece)
        self.rec["max_piece"] = max(self.rec["max_piece"], len(piece))
        return piece


class _ReqInfo:
    def __init__(self, headers: Any):
        self.headers = headers


class _Resp:
    def __init__(self, rec: dict[str, Any], spec: dict[str, Any], method: str, req_headers: dict[str, str]):
        self.status = spec["status"]
        self.reason = spec.get("reason", "Scripted")
        self.method = method
        self.headers = CIMultiDictProxy(CIMultiDict(spec.get("headers", {})))
        self.request_info = _ReqInfo(CIMultiDictProxy(CIMultiDict(req_headers)))
        self.content = _Content(rec, spec.get("units", []), spec.get("unit_delays", []), spec.get("berr", False))
        self._rec = rec

    def release(self) -> None:
        self._rec["released"] += 1


_DEFAULT_FAULT = {"fault": "other"}


class Recorder:
    """All observations of one fetch_url call."""

    def __init__(self, case: dict[str, Any]):
        self.case = case
        self.attempts: list[dict[str, Any]] = []
        self.main_tasks: dict[Any, int] = {}
        self.lock = threading.Lock()

    def attempt_of_main(self, task: Any) -> dict[str, Any]:
        if task not in self.main_tasks:
            self.main_tasks[task] = len(self.attempts)
            self.attempts.append(
                {"seqs": {}, "task_ids": {}, "tasks": [], "rounds": [], "validated": {}, "decompress": []}
            )
        return self.attempts[self.main_tasks[task]]

    def locate(self) -> tuple[dict[str, Any], Any]:
        """(attempt record, sequence key) of the coroutine that is running now."""
        t = asyncio.current_task()
        for att in self.attempts:
            if t in att["task_ids"]:
                return att, att["task_ids"][t]
        return self.attempt_of_main(t), None


class FakeSession:
    def __init__(self, rec: Recorder):
        self.rec = rec
        self.closed = False

    async def close(self) -> None:
        self.closed = True

    async def _request(self, method: str, url: str, headers: Any, allow_redirects: bool) -> _Resp:
        assert allow_redirects is False, "the code let aiohttp follow redirects"
        hdrs = dict(headers or {})
        att, key = self.rec.locate()
        if key is None:
            key = "probe" if (method == "HEAD" or "Range" in hdrs) else "get"
        seq = att["seqs"].setdefault(key, [])
        script = self.rec.case["attempts"]
        ai = self.rec.attempts.index(att)
        hops = (script[ai] if ai < len(script) else {}).get(str(key), [])
        spec = hops[len(seq)] if len(seq) < len(hops) else _DEFAULT_FAULT
        resolver = self.rec.case.get("resolver")
        if resolver is not None:
            spec = resolver(spec, method, url, hdrs)
        r = {"served": spec, "method": method, "url": url, "range": hdrs.get("Range"), "consumed": 0, "max_piece": 0, "read_sizes": [], "released": 0, "t": asyncio.get_running_loop().time()}
        seq.append(r)
        d = spec.get("delay", 0)
        if d:
            await asyncio.sleep(d)
        f = spec.get("fault")
        if f:
            import aiohttp

            if f == "timeout":
                raise TimeoutError
            if f == "reset":
                raise ConnectionResetError("Connection reset by peer")
            if f == "disconn":
                raise aiohttp.ServerDisconnectedError
            if f == "invalidurl":
                raise aiohttp.InvalidURL(url)
            # a connector error whose text would leak the URL if it were passed on unredacted
            raise aiohttp.ClientConnectionError(f"Cannot connect to host {url}")
        return _Resp(r, spec, method, hdrs)

    async def head(self, url: str, *, headers: Any = None, allow_redirects: bool = True) -> _Resp:
        return await self._request("HEAD", url, headers, allow_redirects)

    async def get(self, url: str, *, headers: Any = None, allow_redirects: bool = True) -> _Resp:
        return await self._request("GET", url, headers, allow_redirects)


class _TimeProxy:
    def __init__(self, loop_of: Any):
        self._loop_of = loop_of

    def monotonic(self) -> float:
        return self._loop_of().time()

    def __getattr__(self, name: str) -> Any:
        import time as _t

        return getattr(_t, name)


class _AsyncioProxy:
    def __init__(self, rec_of: Any):
        self._rec_of = rec_of

    def __getattr__(self, name: str) -> Any:
        return getattr(asyncio, name)

    def create_task(self, coro: Any, **kw: Any) -> Any:
        task = asyncio.create_task(coro, **kw)
        rec: Recorder | None = self._rec_of()
        if rec is not None:
            att = rec.attempt_of_main(asyncio.current_task())
            tid = len(att["tasks"])
            att["task_ids"][task] = tid
            frame = getattr(coro, "cr_frame", None)
            idx = frame.f_locals.get("idx") if frame is not None else None
            info = {"tid": tid, "chunk": idx, "start": asyncio.get_running_loop().time(), "end": None, "state": "pending"}
            att["tasks"].append(info)

            def _done(t: Any, info: dict[str, Any] = info) -> None:
                info["end"] = asyncio.get_running_loop().time()
                info["state"] = "cancelled" if t.cancelled() else ("failed" if t.exception() is not None else "ok")

            task.add_done_callback(_done)
        return task

    async def wait(self, fs: Any, **kw: Any) -> Any:
        done, pending = await asyncio.wait(fs, **kw)
        rec: Recorder | None = self._rec_of()
        if rec is not None:
            att = rec.attempt_of_main(asyncio.current_task())
            ids = att["task_ids"]
            att["rounds"].append(
                {"done": [ids[t] for t in done], "pending": [ids[t] for t in pending], "now": asyncio.get_running_loop().time()}
            )
        return done, pending


class _LogCapture(logging.Handler):
    def __init__(self) -> None:
        super().__init__(level=logging.DEBUG)
        self.records: list[str] = []

    def emit(self, record: logging.LogRecord) -> None:
        try:
            txt = record.getMessage()
        except Exception as e:  # noqa: BLE001
            txt = f"<unformattable {e!r}>"
        extra = {k: v for k, v in record.__dict__.items() if k not in logging.LogRecord("", 0, "", 0, "", (), None).__dict__}
        self.records.append(f"{record.name}|{record.levelname}|{txt}|{extra!r}|{record.args!r}")


def render_exception(exc: BaseException) -> dict[str, Any]:
    """What of an exception is 'the error': class, str, the formatted traceback (suppressed context honoured)."""
    txt = "".join(traceback.format_exception(type(exc), exc, exc.__traceback__))
    out = {"type": type(exc).__name__, "str": str(exc), "traceback": txt, "status": getattr(exc, "status", None)}
    ri = getattr(exc, "request_info", None)
    if ri is not None:
        out["request_url"] = f"{getattr(ri, 'url', '')} {getattr(ri, 'real_url', '')}"
    # informational only (not part of the rendered error): attributes a caller could still reach
    out["repr"] = repr(exc)
    ctx = exc.__context__
    out["suppressed_context"] = None if ctx is None else f"{type(ctx).__name__}: {ctx}"
    return out


_CURRENT: list[Recorder | None] = [None]
_LOOP: list[Any] = [None]
_PATCH_LOCK = threading.Lock()


def run_fetch(case: dict[str, Any], validator: Any, timeout_s: float = 30.0) -> dict[str, Any]:
    """Run the real fetch_url on one scripted case.  Returns the observation dict."""
    import vgi_rpc._codec as codec_mod
    import vgi_rpc.external_fetch as ef

    c = case["cfg"]
    rec = Recorder(case)
    cfg = ef.FetchConfig(
        parallel_threshold_bytes=c["threshold"],
        chunk_size_bytes=c["chunk"],
        max_parallel_requests=c.get("max_parallel", 8),
        timeout_seconds=60.0,
        max_fetch_bytes=c["max_fetch"],
        max_decompressed_bytes=c["max_dec"],
        max_redirects=c["max_redir"],
        speculative_retry_multiplier=c["mult2"] / 2,
        max_speculative_hedges=c["max_hedges"],
    )
    validated: list[str] = []
    rejections: list[str] = []

    def wrapped_validator(u: str) -> None:
        att, key = rec.locate()
        if key is None:
            # main coroutine: probe unless the probe sequence is over (a data GET follows the probe)
            key = "main"
        att["validated"].setdefault(str(key), []).append(u)
        validated.append(u)
        try:
            validator(u)
        except Exception as e:  # noqa: BLE001
            # tag the refusal (no URL material in the tag) so that the error fetch_url finally raises names WHICH
            # refusal it stems from: on the parallel path several tasks can be refused at different URLs
            n = len(rejections)
            rejections.append(u)
            raise type(e)(f"{e} [refusal #{n}]") from None

    loop = VirtualLoop()
    thread = threading.Thread(target=loop.run_forever, daemon=True, name="c31-virtual-loop")
    thread.start()
    pool = cfg._pool
    pool.loop, pool.thread, pool.session = loop, thread, FakeSession(rec)

    real_decompress = codec_mod.decompress

    def rec_decompress(encoding: Any, data: bytes, *, max_output_size: int | None = None) -> bytes:
        entry: dict[str, Any] = {"codec": encoding.value, "data": bytes(data), "max": max_output_size, "out": None, "peak": None}
        att = rec.attempts[-1] if rec.attempts else rec.attempt_of_main(asyncio.current_task())
        att["decompress"].append(entry)
        out = real_decompress(encoding, data, max_output_size=max_output_size)
        entry["out"] = bytes(out)
        return out

    async def fake_create_session(timeout: Any) -> Any:
        return FakeSession(rec)

    logcap = _LogCapture()
    root = logging.getLogger()
    old_level = root.level
    obs: dict[str, Any] = {"result": None, "error": None}
    with _PATCH_LOCK:
        saved = (ef.time, ef.asyncio, ef._create_session, codec_mod.decompress)
        ef.time = _TimeProxy(lambda: loop)  # type: ignore[assignment]
        ef.asyncio = _AsyncioProxy(lambda: rec)  # type: ignore[assignment]
        ef._create_session = fake_create_session  # type: ignore[assignment]
        codec_mod.decompress = rec_decompress  # type: ignore[assignment]
        root.addHandler(logcap)
        root.setLevel(logging.DEBUG)
        try:
            box: dict[str, Any] = {}

            def call() -> None:
                try:
                    box["data"] = ef.fetch_url(case["url"], cfg, url_validator=None if validator is None else wrapped_validator)
                except BaseException as e:  # noqa: BLE001 - the observation
                    box["exc"] = e

            th = threading.Thread(target=call, daemon=True, name="c31-fetch")
            th.start()
            th.join(timeout_s)
            if th.is_alive():
                obs["error"] = {"type": "HANG", "str": "fetch_url did not return (watchdog)", "traceback": "", "status": None}
            elif "exc" in box:
                obs["error"] = render_exception(box["exc"])
            else:
                obs["result"] = box["data"]
        finally:
            root.removeHandler(logcap)
            root.setLevel(old_level)
            ef.time, ef.asyncio, ef._create_session, codec_mod.decompress = saved  # type: ignore[assignment]
            with contextlib.suppress(Exception):
                cfg.close()
    for att in rec.attempts:
        att.pop("task_ids", None)
    obs["attempts"] = rec.attempts
    obs["validated"] = validated
    obs["rejections"] = rejections
    obs["logs"] = logcap.records
    return obs
