"""C13 driver: generated multi-method stream services behind the REAL Falcon app; every harvested (cursor, call) token
pair is presented at every stream endpoint of the same service.

Runs as a subprocess (``python -m harness.c13_driver`` with a JSON job on stdin, JSON result on stdout) because
``vgi_rpc.utils`` decides at import time whether the compact (msgpack) state codec exists: the job's ``msgpack`` flag
puts ``harness/stubs_C13`` (a small pure-Python msgpack) on ``sys.path`` before anything of vgi_rpc is imported.

Service spec (JSON):
  {"strings": [...], "enums": {"E0": ["A","B"]}, "callstates": ["CS0","CS1"],
   "classes": [{"name":"S0","callty":"CS0"|null,"fields":[{"name":"n","type":"int|str|bytes|list|E0","default":bool}]}],
   "methods": [{"name":"m0","info":["S0"] | ["S0","S1"], "producer":bool, "out":0|1}], "cache": int}
The service's init methods take (k, v): k selects the union member that starts the stream, v seeds its field values.
"""
from __future__ import annotations

import json
import random
import struct
import sys
from typing import Any

ARROW_CT = "application/vnd.apache.arrow.stream"
IDENT_HEADER = "X-C13-Ident"
KEY = b"k" * 32
DEFAULTS = {"int": 7, "str": "A", "bytes": b"xxxxxx", "list": []}


# ---- values -------------------------------------------------------------------------------------------------------
def value_for(spec: dict[str, Any], ftype: str, seed: int) -> Any:
    if ftype == "int":
        return seed
    if ftype == "str":
        return spec["strings"][seed % len(spec["strings"])]
    if ftype == "bytes":
        return b"x" * (seed % 5)
    if ftype == "list":
        return [seed, seed + 1]
    members = spec["enums"][ftype]
    return ("enum", ftype, members[seed % len(members)])


def norm(v: Any) -> list[Any]:
    """Canonical JSON form of a field / column value."""
    import enum

    if v is None:
        return ["n"]
    if isinstance(v, enum.Enum):
        return ["s", v.name]
    if isinstance(v, bool):
        return ["?", repr(v)]
    if isinstance(v, int):
        return ["i", v]
    if isinstance(v, str):
        return ["s", v]
    if isinstance(v, (bytes, bytearray)):
        return ["b", len(v)] if bytes(v) == b"x" * len(v) else (["b", 1000 + int.from_bytes(b"\x01" + bytes(v), "big")] if len(v) <= 6 else ["?", bytes(v).hex()])
    if isinstance(v, list) and all(isinstance(x, int) for x in v):
        return ["l", list(v)]
    return ["?", repr(v)[:60]]


# ---- service construction ---------------------------------------------------------------------------------------
def service_source(spec: dict[str, Any]) -> str:
    L = [
        "import enum",
        "from dataclasses import dataclass, field",
        "from typing import Any, ClassVar, Protocol",
        "import pyarrow as pa",
        "from vgi_rpc.rpc import AnnotatedBatch, CallContext, OutputCollector, Stream, StreamState",
        "from vgi_rpc.utils import ArrowSerializableDataclass",
        "",
    ]
    for en, members in spec["enums"].items():
        L.append(f"class {en}(enum.Enum):")
        for i, m in enumerate(members):
            L.append(f"    {m} = {i + 1}")
        L.append("")
    for cs in spec["callstates"]:
        L += ["@dataclass(frozen=True)", f"class {cs}(ArrowSerializableDataclass):", "    label: int = 0", ""]
    L += [
        "class _Base(StreamState):",
        "    def bind_call_state(self, call_state: Any) -> None:",
        "        object.__setattr__(self, '_call', call_state)",
        "    def on_cancel(self, ctx: CallContext) -> None:",
        "        RECORD('cancel', self, None, ctx)",
        "    def process(self, input: AnnotatedBatch, out: OutputCollector, ctx: CallContext) -> None:",
        "        RECORD('process', self, out, ctx)",
        "        out.emit_pydict({f.name: ([1] if pa.types.is_integer(f.type) else ['q']) for f in out.output_schema})",
        "",
    ]
    for c in spec["classes"]:
        L += ["@dataclass", f"class {c['name']}(_Base):"]
        if c["callty"] is not None:
            L.append(f"    CALL_STATE_TYPE: ClassVar[type[ArrowSerializableDataclass] | None] = {c['callty']}")
        fields = sorted(c["fields"], key=lambda f: f["default"])  # required fields first (dataclass rule)
        for f in fields:
            ty = {"int": "int", "str": "str", "bytes": "bytes", "list": "list[int]"}.get(f["type"], f["type"])
            if not f["default"]:
                L.append(f"    {f['name']}: {ty}")
            elif f["type"] == "list":
                L.append(f"    {f['name']}: {ty} = field(default_factory=list)")
            elif f["type"] in spec["enums"]:
                L.append(f"    {f['name']}: {ty} = {ty}.{spec['enums'][f['type']][0]}")
            else:
                L.append(f"    {f['name']}: {ty} = {DEFAULTS[f['type']]!r}")
        if not fields:
            L.append("    pass")
        L.append("")
    L.append("class P(Protocol):")
    for m in spec["methods"]:
        L.append(f"    def {m['name']}(self, k: int, v: int) -> Stream[{' | '.join(m['info'])}]: ...")
    L += ["", "class Impl:"]
    for m in spec["methods"]:
        L.append(f"    def {m['name']}(self, k: int, v: int) -> Stream[{' | '.join(m['info'])}]:")
        L.append(f"        return START({m['name']!r}, k, v)")
    return "\n".join(L) + "\n"


def ordered_fields(c: dict[str, Any]) -> list[dict[str, Any]]:
    return sorted(c["fields"], key=lambda f: f["default"])


class Service:
    def __init__(self, spec: dict[str, Any]) -> None:
        import pyarrow as pa
        import falcon.testing
        import vgi_rpc.http.server._factory as F
        from vgi_rpc.http import make_wsgi_app
        from vgi_rpc.rpc import AuthContext, RpcServer, Stream
        from vgi_rpc.rpc._common import _current_stream_id

        self.spec = spec
        self.log: list[dict[str, Any]] = []
        self.OUT = [pa.schema([("y", pa.int64())]), pa.schema([("y", pa.int64()), ("z", pa.utf8())])]
        self.IN = pa.schema([("x", pa.int64())])
        self.EMPTY = pa.schema([])
        self.classes = {c["name"]: c for c in spec["classes"]}
        self.methods = {m["name"]: m for m in spec["methods"]}
        import types as _t

        Service._n = getattr(Service, "_n", 0) + 1
        mod = _t.ModuleType(f"c13_generated_service_{Service._n}")
        sys.modules[mod.__name__] = mod
        ns: dict[str, Any] = mod.__dict__

        def record(hook: str, st: Any, out: Any, ctx: Any) -> None:
            c = self.classes[type(st).__name__]
            call = getattr(st, "_call", None)
            self.log.append(
                {
                    "hook": hook,
                    "cls": type(st).__name__,
                    "vals": [[f["name"], norm(getattr(st, f["name"]))] for f in ordered_fields(c)],
                    "cstate": None if call is None else type(call).__name__,
                    "out": None if out is None else self.schema_id(out.output_schema),
                    "producer": None if out is None else bool(out._producer_mode),
                    "method": ctx._method_name,
                    "sid": self.sid(_current_stream_id.get() or ""),
                }
            )

        def start(mname: str, k: int, v: int) -> Any:
            m = self.methods[mname]
            c = self.classes[m["info"][k]]
            kwargs = {}
            for i, f in enumerate(ordered_fields(c)):
                val = value_for(spec, f["type"], v + i)
                if isinstance(val, tuple):
                    val = ns[val[1]][val[2]]
                kwargs[f["name"]] = val
            st = ns[c["name"]](**kwargs)
            cs = None if c["callty"] is None else ns[c["callty"]](label=v)
            return Stream(output_schema=self.OUT[m["out"]], state=st, input_schema=self.EMPTY if m["producer"] else self.IN, call_state=cs)

        ns["RECORD"] = record
        ns["START"] = start
        exec(compile(service_source(spec), "<c13 generated service>", "exec"), ns)  # noqa: S102
        self.ns = ns
        server = RpcServer(ns["P"], ns["Impl"]())

        def authenticate(req: Any) -> Any:
            h = req.get_header(IDENT_HEADER)
            if h is None:
                return AuthContext.anonymous()
            d, p = h.split("|")
            return AuthContext(domain=d, authenticated=True, principal=p)

        captured: list[Any] = []
        orig = F._HttpRpcApp

        def capture(*a: Any, **k: Any) -> Any:
            h = orig(*a, **k)
            captured.append(h)
            return h

        F._HttpRpcApp = capture  # type: ignore[misc,assignment]
        try:
            app = make_wsgi_app(
                server, prefix="", token_key=KEY, authenticate=authenticate, call_state_cache_entries=spec["cache"],
                compression_level=None, enable_landing_page=False, enable_not_found_page=False, enable_describe_page=False,
            )
        finally:
            F._HttpRpcApp = orig  # type: ignore[misc]
        self.http = captured[0]
        import vgi_rpc.http.server._state_token as ST

        if not hasattr(ST._CallStateCache, "_c13_puts"):
            orig_put = ST._CallStateCache.put

            def counting_put(cache_self: Any, *a: Any, **k: Any) -> Any:
                ST._CallStateCache._c13_puts += 1  # type: ignore[attr-defined]
                return orig_put(cache_self, *a, **k)

            ST._CallStateCache._c13_puts = 0  # type: ignore[attr-defined]
            ST._CallStateCache.put = counting_put  # type: ignore[method-assign]
        self.ST = ST
        # record WHAT is sealed at seal time (robust against a change of the AAD): token -> sealed arguments
        if not hasattr(ST, "_c13_sealed"):
            ST._c13_sealed = {}  # type: ignore[attr-defined]
            import inspect

            for fname in ("_seal_cursor_token", "_seal_call_token"):
                orig_seal = getattr(ST, fname)
                sig = inspect.signature(orig_seal)

                def recording(*a: Any, _orig: Any = orig_seal, _sig: Any = sig, **k: Any) -> Any:
                    tok = _orig(*a, **k)
                    ST._c13_sealed[bytes(tok)] = dict(_sig.bind(*a, **k).arguments)  # type: ignore[attr-defined]
                    return tok

                setattr(ST, fname, recording)
        self.cache = self.http._call_state_cache
        self.state_types = self.http._state_types
        self.client = falcon.testing.TestClient(app)
        self.server = server
        self.callids: dict[bytes, int] = {}
        self.sids: dict[str, int] = {}

    # -- ids
    def schema_id(self, s: Any) -> int:
        for i, o in enumerate(self.OUT):
            if s == o:
                return i
        if s == self.IN:
            return 10
        if s == self.EMPTY:
            return 11
        return 99

    def cid(self, b: bytes) -> int:
        return self.callids.setdefault(bytes(b), len(self.callids) + 1)

    def sid(self, s: str) -> int:
        return self.sids.setdefault(s, len(self.sids) + 1)

    # -- identities: 0 anonymous, i>0 ("d", "u<i>")
    @staticmethod
    def headers(ident: int) -> dict[str, str]:
        h = {"Content-Type": ARROW_CT}
        if ident:
            h[IDENT_HEADER] = f"d|u{ident}"
        return h

    @staticmethod
    def auth(ident: int) -> Any:
        from vgi_rpc.rpc import AuthContext

        return AuthContext.anonymous() if not ident else AuthContext(domain="d", authenticated=True, principal=f"u{ident}")

    def ident_of_cache_key(self, s: str) -> int:
        if s == "\0anonymous":
            return 0
        d, p = s.split("\0")
        return int(p[1:]) if d == "d" and p.startswith("u") else 99

    # -- decoding what was sealed (harness side: real open functions under the minting identity)
    def decode_cursor(self, tok: bytes, ident: int) -> dict[str, Any]:
        from vgi_rpc.http.server._state_token import _compute_aad, _open_cursor_token
        from vgi_rpc.utils import deserialize_record_batch

        rec = self.ST._c13_sealed.get(bytes(tok))
        if rec is not None:
            sb, call_id = rec["state_bytes"], rec["call_id"]
        else:
            sb, call_id = _open_cursor_token(tok, KEY, _compute_aad(self.auth(ident)), 0)
        tag = None
        raw = sb
        if sb[:1] == b"\x00":
            tag = struct.unpack("<H", sb[1:3])[0]
            raw = sb[3:]
        if raw[:1] == b"\x01":
            import msgpack  # the C13 stub

            row = msgpack.unpackb(raw[1:], raw=False)
            enc = "compact"
            cols = [[k, norm(v)] for k, v in row.items()]
        else:
            batch, _ = deserialize_record_batch(raw)
            enc = "arrow"
            cols = [[n, norm(batch.column(i)[0].as_py())] for i, n in enumerate(batch.schema.names)]
        return {"ident": ident, "callid": self.cid(call_id), "tag": tag, "enc": enc, "cols": cols}

    def decode_call(self, tok: bytes, ident: int) -> dict[str, Any]:
        import pyarrow as pa
        from vgi_rpc.http.server._state_token import _compute_call_aad, _open_call_token

        rec = self.ST._c13_sealed.get(bytes(tok))
        if rec is not None:
            csb, cst, sch, isch, call_id, stream_id = (rec["call_state_bytes"], rec["call_state_type"], rec["schema_bytes"],
                                                       rec["input_schema_bytes"], rec["call_id"], rec["stream_id"])
        else:
            csb, cst, sch, isch, call_id, stream_id = _open_call_token(tok, KEY, _compute_call_aad(self.auth(ident)), 0)
        return {
            "ident": ident,
            "callid": self.cid(call_id),
            "cstate": cst if csb else None,
            "out": self.schema_id(pa.ipc.read_schema(pa.py_buffer(sch))),
            "in": self.schema_id(pa.ipc.read_schema(pa.py_buffer(isch))),
            "sid": self.sid(stream_id),
        }

    def cache_snapshot(self) -> list[list[Any]]:
        out = []
        for (cid, ident), (_exp, r) in list(self.cache._entries.items()):
            out.append(
                [self.cid(cid), self.ident_of_cache_key(ident), None if r.call_state is None else type(r.call_state).__name__,
                 self.schema_id(r.output_schema), self.schema_id(r.input_schema), self.sid(r.stream_id)]
            )
        return out

    # -- requests
    def tokens_of(self, content: bytes) -> tuple[bytes | None, bytes | None]:
        from harness.rawrpc import read_streams

        cur = call = None
        try:
            for st in read_streams(content):
                for _rows, md, _b in st:
                    if b"vgi_rpc.stream_state#b64" in md:
                        cur = md[b"vgi_rpc.stream_state#b64"]
                    if b"vgi_rpc.call_state#b64" in md:
                        call = md[b"vgi_rpc.call_state#b64"]
        except Exception:  # noqa: BLE001
            pass
        return cur, call

    def init(self, mname: str, ident: int, k: int, v: int) -> dict[str, Any] | None:
        from harness.rawrpc import request_bytes

        info = self.server.methods[mname]
        body = request_bytes(mname, info.params_schema, {"k": k, "v": v})
        del self.log[:]
        r = self.client.simulate_post(f"/{mname}/init", body=body, headers=self.headers(ident))
        cur, call = self.tokens_of(r.content)
        if r.status_code != 200 or cur is None or call is None:
            return {"error": f"init {mname} status {r.status_code} tokens {cur is not None}/{call is not None}: {r.content[:200]!r}"}
        m = self.methods[mname]
        c = self.classes[m["info"][k]]
        vals = []
        for i, f in enumerate(ordered_fields(c)):
            val = value_for(self.spec, f["type"], v + i)
            vals.append([f["name"], ["s", val[2]] if isinstance(val, tuple) else norm(val)])
        return {
            "cursor_tok": cur, "call_tok": call, "ident": ident, "method": mname, "gen": 1,
            "cursor": self.decode_cursor(cur, ident), "call": self.decode_call(call, ident),
            "minted_state": {"cls": c["name"], "vals": vals}, "minted_at": mname, "init_log": list(self.log),
        }

    def present(self, endpoint: str, ident: int, cur_tok: bytes, call_tok: bytes | None, in_schema_id: int, cancel: bool) -> dict[str, Any]:
        import io

        import pyarrow as pa
        from pyarrow import ipc

        schema = self.IN if in_schema_id == 10 else self.EMPTY
        if cancel or schema is self.EMPTY:
            batch = pa.RecordBatch.from_arrays([pa.array([], type=f.type) for f in schema], schema=schema)
        else:
            batch = pa.RecordBatch.from_arrays([pa.array([5], type=pa.int64())], schema=schema)
        md = {b"vgi_rpc.stream_state#b64": cur_tok}
        if call_tok is not None:
            md[b"vgi_rpc.call_state#b64"] = call_tok
        if cancel:
            md[b"vgi_rpc.cancel"] = b"1"
        sink = io.BytesIO()
        with ipc.new_stream(sink, schema) as w:
            w.write_batch(batch, custom_metadata=pa.KeyValueMetadata(md))
        before = self.cache_snapshot()
        del self.log[:]
        puts0 = self.ST._CallStateCache._c13_puts
        r = self.client.simulate_post(f"/{endpoint}/exchange", body=sink.getvalue(), headers=self.headers(ident))
        puts = self.ST._CallStateCache._c13_puts - puts0
        after = self.cache_snapshot()
        new_cur, _ = self.tokens_of(r.content) if r.status_code == 200 else (None, None)
        message = None
        try:
            from harness.rawrpc import error_of, read_streams

            for st in read_streams(r.content):
                err = error_of(st)
                if err is not None:
                    message = err[1]
                    break
        except Exception as exc:  # noqa: BLE001
            message = f"<unparseable body: {type(exc).__name__}>"
        if cancel and self.log and r.status_code == 200:
            try:
                self.log[0]["out"] = self.schema_id(ipc.open_stream(io.BytesIO(r.content)).schema)
            except Exception:  # noqa: BLE001
                pass
        return {
            "status": r.status_code, "log": list(self.log), "cache_before": before, "puts": puts, "message": message,
            "inserted": [e for e in after if e not in before], "removed": [e for e in before if e not in after],
            "new_cursor_tok": new_cur, "rpc_error": r.headers.get("X-VGI-RPC-Error"), "body_head": r.content[:0].hex(),
        }


# ---- scenario ---------------------------------------------------------------------------------------------------
def run_service(spec: dict[str, Any], rng: random.Random, budget: dict[str, int]) -> dict[str, Any]:
    S = Service(spec)
    state_types = {
        name: ([t.__name__ for t in info] if isinstance(info, tuple) else [info.__name__], isinstance(info, tuple))
        for name, info in S.state_types.items()
    }
    pool: list[dict[str, Any]] = []
    errors: list[str] = []
    idents = [0, 1]
    for m in spec["methods"]:
        for k in range(len(m["info"])):
            for ident in idents:
                for v in rng.sample(range(0, 12), budget["seeds"]):
                    e = S.init(m["name"], ident, k, v)
                    if e is None or "error" in e:
                        errors.append(str(e))
                        continue
                    pool.append(e)
    cases: list[dict[str, Any]] = []
    mints: list[dict[str, Any]] = [
        {"method": e["minted_at"], "state": e["minted_state"], "cursor": e["cursor"]} for e in pool
    ]
    cancel_name = "vgi_rpc.cancel"

    def one(e: dict[str, Any], endpoint: str, ident: int, call_from: dict[str, Any] | None, cancel: bool, cold: bool, variant: str) -> None:
        if cold:
            S.cache.clear()
        obs = S.present(endpoint, ident, e["cursor_tok"], None if call_from is None else call_from["call_tok"], e["call"]["in"], cancel)
        cases.append(
            {
                "endpoint": endpoint, "ident": ident, "cursor": e["cursor"], "call": None if call_from is None else call_from["call"],
                "origin": e["method"], "gen": e["gen"], "minted_at": e["minted_at"], "cancel": cancel, "cold": cold, "variant": variant,
                "obs": {k: v for k, v in obs.items() if k != "new_cursor_tok"},
            }
        )
        tok = obs["new_cursor_tok"]
        if tok is not None and e["gen"] < budget["max_gen"] and len([p for p in pool if p["gen"] > 1]) < budget["derived"]:
            try:
                d = {
                    "cursor_tok": tok, "call_tok": e["call_tok"], "ident": ident, "method": e["method"], "gen": e["gen"] + 1,
                    "cursor": S.decode_cursor(tok, ident), "call": e["call"], "minted_at": endpoint,
                }
            except Exception as exc:  # noqa: BLE001
                errors.append(f"derived token does not decode: {type(exc).__name__}: {exc}")
                return
            if obs["log"]:
                rec = obs["log"][-1]
                d["minted_state"] = {"cls": rec["cls"], "vals": rec["vals"]}
                mints.append({"method": endpoint, "state": d["minted_state"], "cursor": d["cursor"]})
            pool.append(d)

    i = 0
    while i < len(pool):
        e = pool[i]
        i += 1
        others = [p for p in pool if p["ident"] == e["ident"] and p["call"]["callid"] != e["call"]["callid"]]
        for m in spec["methods"]:
            ep = m["name"]
            one(e, ep, e["ident"], e, False, False, "own-call/warm")
            one(e, ep, e["ident"], e, False, True, "own-call/cold")
            extra = [
                ("no-call/warm", e["ident"], None, False, False),
                ("no-call/cold", e["ident"], None, False, True),
                ("other-ident/warm", 1 - e["ident"], e, False, False),
                ("cancel/warm", e["ident"], e, True, False),
                ("cancel/cold", e["ident"], e, True, True),
            ]
            alien = [p for p in pool if p["ident"] != e["ident"]]
            if alien:
                extra.append(("other-ident-call/cold", e["ident"], rng.choice(alien), False, True))
            if others:
                extra.append(("foreign-call/cold", e["ident"], rng.choice(others), False, True))
                extra.append(("foreign-call/warm", e["ident"], rng.choice(others), False, False))
            for variant, ident, cf, cancel, cold in rng.sample(extra, min(budget["extra"], len(extra))):
                one(e, ep, ident, cf, cancel, cold, variant)
    del cancel_name
    return {"state_types": state_types, "cases": cases, "mints": mints, "errors": errors, "n_tokens": len(pool)}


def main() -> None:
    job = json.loads(sys.stdin.read())
    if job["msgpack"]:
        import os

        sys.path.insert(0, os.path.join(os.path.dirname(os.path.abspath(__file__)), "stubs_C13"))
    import vgi_rpc.utils as U

    out: dict[str, Any] = {"have_msgpack": bool(U._HAVE_MSGPACK), "services": []}
    rng = random.Random(job["seed"])
    for spec in job["services"]:
        try:
            out["services"].append(run_service(spec, rng, job["budget"]))
        except Exception as exc:  # noqa: BLE001
            import traceback

            out["services"].append({"crash": "".join(traceback.format_exception(type(exc), exc, exc.__traceback__))[-3000:]})

    def clean(o: Any) -> Any:
        if isinstance(o, dict):
            return {k: clean(v) for k, v in o.items() if not k.endswith("_tok")}
        if isinstance(o, list):
            return [clean(x) for x in o]
        if isinstance(o, bytes):
            return o.hex()
        return o

    sys.stdout.write(json.dumps(clean(out)))


if __name__ == "__main__":
    main()
