"""C30 harness, end-to-end level: an interpreter service (programs as data) served by the REAL RpcServer over a pipe
pair or the in-process HTTP app, with a configurable external-location config on both sides and the fake object store
of harness/c30_store.py behind it.

program (JSON-able)
  unary   : {"logs": [log...], "size": n}                           result = n bytes (pattern determined by pid)
  stream  : {"init_logs": [log...], "header": {"h": int, "size": n} | None, "steps": [step...]}
  step    : {"pre": [log...], "emit": {"rows": r, "meta": {str: str} | None} | None, "post": [log...], "finish": bool}
  log     : [level, message, {extra}]
Order inside a step: pre logs, emit, post logs, finish.  An emitted batch has one int64 column v = rows copies of the
step index.  A producer step past the end finishes; an exchange step past the end emits an empty batch.

Client scripts: ["unary", pid] | ["iterate", method, pid] | ["exchange", method, pid, n] | ["upload", pid, n_bytes]
Trace events: ["log", level, message, extras] ["result", len, sha1] ["header", h, len, sha1] ["batch", rows, meta, tag]
              ["error", type, message] ["done"] ["client_exc", type, message] ["blocked"]
"""
from __future__ import annotations

import contextlib
import hashlib
import threading
from dataclasses import dataclass
from typing import Any, Callable, Iterator, Protocol

import pyarrow as pa

from vgi_rpc.log import Level, Message
from vgi_rpc.rpc import (
    AnnotatedBatch,
    CallContext,
    OutputCollector,
    RpcConnection,
    RpcError,
    RpcServer,
    Stream,
    StreamState,
)
from vgi_rpc.utils import ArrowSerializableDataclass

OUT_SCHEMA = pa.schema([pa.field("v", pa.int64())])
IN_SCHEMA = pa.schema([pa.field("x", pa.int64())])
PROGRAMS: dict[int, dict[str, Any]] = {}
SERVER_SEEN: list[Any] = []  # what application code on the server was handed (uploads)


def blob(pid: int, n: int) -> bytes:
    """n bytes that do not compress to nothing and depend on pid."""
    out = bytearray()
    k = 0
    while len(out) < n:
        out += hashlib.sha256(f"{pid}:{k}".encode()).digest()
        k += 1
    return bytes(out[:n])


@dataclass(frozen=True)
class C30Hdr(ArrowSerializableDataclass):
    """Stream header whose size is programmable."""

    h: int
    pad: bytes


def _logs(logs: list[Any], log: Callable[..., None]) -> None:
    for lvl, msg, extra in logs or []:
        log(Level(lvl), msg, **(extra or {}))


def _step(state: Any, out: OutputCollector, ctx: CallContext, producer: bool) -> None:
    steps = PROGRAMS[state.pid].get("steps", [])
    i = state.i
    state.i = i + 1
    if i >= len(steps):
        if producer:
            out.finish()
        else:
            out.emit_pydict({"v": []})
        return
    st = steps[i]
    _logs(st.get("pre"), ctx.client_log)
    em = st.get("emit")
    if em is not None:
        out.emit_pydict({"v": [i] * int(em["rows"])}, metadata=(em.get("meta") or None))
    _logs(st.get("post"), ctx.client_log)
    if st.get("finish"):
        out.finish()


@dataclass
class C30Prod(StreamState):
    """Producer cursor."""

    pid: int
    i: int = 0

    def process(self, input: AnnotatedBatch, out: OutputCollector, ctx: CallContext) -> None:  # noqa: A002
        _step(self, out, ctx, True)


@dataclass
class C30Exch(StreamState):
    """Exchange cursor."""

    pid: int
    i: int = 0

    def process(self, input: AnnotatedBatch, out: OutputCollector, ctx: CallContext) -> None:  # noqa: A002
        _step(self, out, ctx, False)


class C30Proto(Protocol):
    """Every method shape the property names."""

    def unary(self, pid: int) -> bytes: ...

    def upload(self, pid: int, payload: bytes) -> int: ...

    def producer(self, pid: int) -> Stream[C30Prod]: ...

    def producer_h(self, pid: int) -> Stream[C30Prod, C30Hdr]: ...

    def exchange(self, pid: int) -> Stream[C30Exch]: ...

    def exchange_h(self, pid: int) -> Stream[C30Exch, C30Hdr]: ...


class C30Impl:
    """Replays PROGRAMS."""

    def unary(self, pid: int, ctx: CallContext) -> bytes:
        p = PROGRAMS[pid]
        _logs(p.get("logs"), ctx.client_log)
        return blob(pid, int(p["size"]))

    def upload(self, pid: int, payload: bytes, ctx: CallContext) -> int:
        SERVER_SEEN.append(("upload", pid, len(payload), hashlib.sha1(payload).hexdigest()))
        _logs(PROGRAMS.get(pid, {}).get("logs"), ctx.client_log)
        return len(payload)

    def _init(self, pid: int, ctx: CallContext, exchange: bool, with_header: bool) -> Any:
        p = PROGRAMS[pid]
        _logs(p.get("init_logs"), ctx.client_log)
        header = None
        if with_header:
            hd = p.get("header") or {"h": 0, "size": 0}
            header = C30Hdr(h=int(hd["h"]), pad=blob(pid, int(hd["size"])))
        if exchange:
            return Stream(output_schema=OUT_SCHEMA, state=C30Exch(pid=pid), input_schema=IN_SCHEMA, header=header)
        return Stream(output_schema=OUT_SCHEMA, state=C30Prod(pid=pid), header=header)

    def producer(self, pid: int, ctx: CallContext) -> Stream[C30Prod]:
        return self._init(pid, ctx, False, False)  # type: ignore[no-any-return]

    def producer_h(self, pid: int, ctx: CallContext) -> Stream[C30Prod, C30Hdr]:
        return self._init(pid, ctx, False, True)  # type: ignore[no-any-return]

    def exchange(self, pid: int, ctx: CallContext) -> Stream[C30Exch]:
        return self._init(pid, ctx, True, False)  # type: ignore[no-any-return]

    def exchange_h(self, pid: int, ctx: CallContext) -> Stream[C30Exch, C30Hdr]:
        return self._init(pid, ctx, True, True)  # type: ignore[no-any-return]


HAS_HEADER = {"producer": False, "producer_h": True, "exchange": False, "exchange_h": True}
_HIDDEN = ("server_id", "request_id")


def _app_meta(cm: Any) -> dict[str, str] | None:
    if cm is None:
        return None
    out = {}
    for k, v in cm.items():
        ks = k.decode() if isinstance(k, bytes) else k
        if ks.startswith("vgi_rpc."):
            continue
        out[ks] = v.decode() if isinstance(v, bytes) else v
    return out or None


def _fw_meta(cm: Any) -> list[str]:
    """framework keys a delivered data batch carries (to see the provenance keys, and nothing else, appear)."""
    if cm is None:
        return []
    return sorted((k.decode() if isinstance(k, bytes) else k) for k in cm.keys() if (k.decode() if isinstance(k, bytes) else k).startswith("vgi_rpc."))


def _batch_event(ab: AnnotatedBatch) -> list[Any]:
    b = ab.batch
    vals = b.column("v").to_pylist() if "v" in b.schema.names else []
    tag = vals[0] if vals else None
    if vals and any(x != tag for x in vals):
        tag = -1
    return ["batch", b.num_rows, _app_meta(ab.custom_metadata), tag, b.schema.equals(OUT_SCHEMA)]


def _play(proxy: Any, script: list[Any], ev: list[Any]) -> None:
    op = script[0]
    if op == "unary":
        r = proxy.unary(pid=script[1])
        ev.append(["result", len(r), hashlib.sha1(r).hexdigest()])
        return
    if op == "upload":
        r = proxy.upload(pid=script[1], payload=blob(script[1] + 7, script[2]))
        ev.append(["result", r, ""])
        return
    method, pid = script[1], script[2]
    sess = getattr(proxy, method)(pid=pid)
    if HAS_HEADER[method]:
        h = sess.header
        ev.append(["header", h.h, len(h.pad), hashlib.sha1(h.pad).hexdigest()])
    if op == "iterate":
        for ab in sess:
            ev.append(_batch_event(ab))
        ev.append(["done"])
    else:
        for j in range(script[3]):
            ev.append(_batch_event(sess.exchange(AnnotatedBatch.from_pydict({"x": [j] * (1 + j % 3)}, schema=IN_SCHEMA))))
        sess.close()


class Recorder:
    def __init__(self) -> None:
        self.events: list[Any] = []

    def on_log(self, msg: Message) -> None:
        extras = {k: v for k, v in (msg.extra or {}).items() if k not in _HIDDEN}
        self.events.append(["log", msg.level.value, msg.message, extras])


def run_script(proxy: Any, rec: Recorder, script: list[Any], timeout: float = 30.0, closer: Callable[[], None] | None = None) -> list[Any]:
    ev: list[Any] = []
    rec.events = ev

    def body() -> None:
        try:
            _play(proxy, script, ev)
        except RpcError as e:
            ev.append(["error", e.error_type, e.error_message])
        except BaseException as e:  # noqa: BLE001
            ev.append(["client_exc", type(e).__name__, str(e)[:300]])

    t = threading.Thread(target=body, daemon=True, name="c30-script")
    t.start()
    t.join(timeout)
    if t.is_alive():
        ev2 = list(ev) + [["blocked"]]
        if closer is not None:
            with contextlib.suppress(Exception):
                closer()
            t.join(2.0)
        return ev2
    return list(ev)


def make_config(store: Any, threshold: int | None, comp: str | None, max_retries: int = 2) -> Any:
    """threshold None = storage not configured (config present, storage None)."""
    from vgi_rpc.external import Compression, ExternalLocationConfig

    return ExternalLocationConfig(
        storage=None if threshold is None else store.backend,
        externalize_threshold_bytes=threshold if threshold is not None else 1 << 60,
        max_retries=max_retries,
        retry_delay_seconds=0.0,
        compression=None if comp is None else Compression(algorithm=comp),  # type: ignore[arg-type]
        url_validator=None,
    )


@contextlib.contextmanager
def open_pipe(server_cfg: Any, client_cfg: Any) -> Iterator[tuple[Any, Recorder, Callable[[], None]]]:
    from vgi_rpc.rpc import make_pipe_pair

    ct, st = make_pipe_pair()
    server = RpcServer(C30Proto, C30Impl(), external_location=server_cfg)

    def serve() -> None:
        with contextlib.suppress(BaseException):
            server.serve(st)

    th = threading.Thread(target=serve, daemon=True, name="c30-serve")
    th.start()
    rec = Recorder()
    try:
        with RpcConnection(C30Proto, ct, on_log=rec.on_log, external_location=client_cfg) as proxy:
            yield proxy, rec, ct.close
    finally:
        with contextlib.suppress(Exception):
            ct.close()
        th.join(timeout=3)
        with contextlib.suppress(Exception):
            st.close()


@contextlib.contextmanager
def open_http(server_cfg: Any, client_cfg: Any, **app_kw: Any) -> Iterator[tuple[Any, Recorder, Callable[[], None]]]:
    from vgi_rpc.http import http_connect
    from vgi_rpc.http._testing import make_sync_client

    server = RpcServer(C30Proto, C30Impl(), external_location=server_cfg)
    client = make_sync_client(
        server, token_key=b"verif-c30-token-key-0123456789ab", enable_landing_page=False, enable_describe_page=False,
        enable_not_found_page=False, compression_level=None, **app_kw,
    )
    rec = Recorder()
    with http_connect(C30Proto, client=client, on_log=rec.on_log, external_location=client_cfg, compression_level=None) as proxy:
        yield proxy, rec, (lambda: None)
