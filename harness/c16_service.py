"""C16 harness: a service whose result / batch sizes are dictated by the caller, served by the REAL Falcon app,
with a byte-counting in-memory external storage and a message-level parser for response bodies.

Methods
  blob(n, logs)            unary: ``logs`` client logs, then a ``bytes`` result of n bytes        (maybe_externalize_batch)
  void(logs)               unary without result column (zero-row result batch)
  boom(n)                  unary raising ValueError (the method's own error: cap sites are skipped)
  xch(tag)                 exchange stream; every input row (n, rows, logs) -> ``logs`` logs + one data batch of
                           ``rows`` rows, each n bytes                                          (maybe_externalize_collector)
  prod(sizes, logs, fin_with_last, ilogs)
                           producer stream: ``ilogs`` logs from the init method, then tick i emits ``logs`` logs + a 1-row
                           batch of sizes[i] bytes; the last tick also calls finish() when fin_with_last, otherwise
                           the tick after the last one is a bare finish(); sizes[i] < 0 = the tick raises ValueError

Everything the driver reports is measured outside the code under test: body length and message sizes by reading
the body with pyarrow's MessageReader, uploaded bytes by the storage object's own counter.
"""
from __future__ import annotations

import io
import json
from dataclasses import dataclass, field
from typing import Any, Protocol

import pyarrow as pa
from pyarrow import ipc

from vgi_rpc.log import Level
from vgi_rpc.rpc import AnnotatedBatch, CallContext, OutputCollector, RpcServer, Stream, StreamState

TOKEN_KEY = b"verif-c16-token-key-0123456789ab"
SERVER_ID = "c16srv"
XCH_IN = pa.schema([pa.field("n", pa.int64()), pa.field("rows", pa.int64()), pa.field("logs", pa.int64())])
OUT = pa.schema([pa.field("p", pa.binary())])
LOGMSG = "c16-log-message"


def payload(n: int) -> bytes:
    return bytes((i * 131 + 7) & 0xFF for i in range(n)) if n < 64 else (bytes(range(256)) * (n // 256 + 1))[:n]


def data_batch(n: int, rows: int = 1) -> pa.RecordBatch:
    """The batch the service emits for (n, rows) -- rebuilt by the driver to take its logical size."""
    return pa.RecordBatch.from_arrays([pa.array([payload(n)] * rows, type=pa.binary())], schema=OUT)


def unary_result_batch(n: int) -> pa.RecordBatch:
    """What _build_result_batch builds for blob(n) (result column is called ``result``)."""
    return pa.RecordBatch.from_arrays([pa.array([payload(n)], type=pa.binary())], names=["result"])


# ------------------------------------------------------------------ storage
class CountingStorage:
    """ExternalStorage keeping uploads in memory and recording how many bytes it RECEIVED, in order."""

    def __init__(self) -> None:
        self.received: list[int] = []
        self.data: dict[str, bytes] = {}

    def upload(self, data: bytes, schema: pa.Schema, *, content_encoding: str | None = None) -> str:
        self.received.append(len(data))
        url = f"https://c16.storage.invalid/{len(self.data):08d}"  # fixed width: pointer batches have a constant size
        self.data[url] = bytes(data)
        return url

    def take(self) -> list[int]:
        r, self.received = self.received, []
        return r


# ------------------------------------------------------------------ service
@dataclass
class XchState(StreamState):
    tag: int = 0

    def process(self, input: AnnotatedBatch, out: OutputCollector, ctx: CallContext) -> None:
        row = input.batch.to_pylist()[0]
        for _ in range(int(row["logs"])):
            out.client_log(Level.INFO, LOGMSG)
        if int(row["n"]) < 0:
            raise ValueError("c16 exchange raises")
        out.emit(data_batch(int(row["n"]), int(row["rows"])))


@dataclass
class ProdState(StreamState):
    sizes: list[int] = field(default_factory=list)
    logs: int = 0
    fin_with_last: bool = False
    i: int = 0

    def process(self, input: AnnotatedBatch, out: OutputCollector, ctx: CallContext) -> None:
        i = self.i
        self.i = i + 1
        if i >= len(self.sizes):
            out.finish()
            return
        for _ in range(self.logs):
            out.client_log(Level.INFO, LOGMSG)
        if self.sizes[i] < 0:
            raise ValueError("c16 producer raises")
        out.emit(data_batch(self.sizes[i]))
        if self.fin_with_last and i == len(self.sizes) - 1:
            out.finish()


class C16P(Protocol):
    def blob(self, n: int, logs: int) -> bytes: ...
    def void(self, logs: int) -> None: ...
    def boom(self, n: int) -> bytes: ...
    def xch(self, tag: int) -> Stream[XchState]: ...
    def prod(self, sizes: list[int], logs: int, fin_with_last: bool, ilogs: int) -> Stream[ProdState]: ...


class C16Impl:
    def blob(self, n: int, logs: int, ctx: CallContext) -> bytes:
        for _ in range(logs):
            ctx.client_log(Level.INFO, LOGMSG)
        return payload(n)

    def void(self, logs: int, ctx: CallContext) -> None:
        for _ in range(logs):
            ctx.client_log(Level.INFO, LOGMSG)

    def boom(self, n: int) -> bytes:
        raise ValueError("c16 unary raises")

    def xch(self, tag: int) -> Stream[XchState]:
        return Stream(output_schema=OUT, state=XchState(tag=tag), input_schema=XCH_IN)

    def prod(self, sizes: list[int], logs: int, fin_with_last: bool, ilogs: int, ctx: CallContext) -> Stream[ProdState]:
        for _ in range(ilogs):
            ctx.client_log(Level.INFO, LOGMSG)
        return Stream(output_schema=OUT, state=ProdState(sizes=list(sizes), logs=logs, fin_with_last=fin_with_last))


# ------------------------------------------------------------------ app
class App:
    """One real Falcon app = one (external shape, threshold, wire cap, external cap) configuration."""

    def __init__(self, ext_shape: str, threshold: int, wire_cap: int | None, ext_cap: int | None, compression: Any = None) -> None:
        # ext_shape: "none" (external_location=None) | "nostorage" (config with storage=None) | "on"
        import falcon.testing

        from vgi_rpc.external import ExternalLocationConfig
        from vgi_rpc.http import make_wsgi_app

        self.storage = CountingStorage()
        cfg = None
        if ext_shape == "nostorage":
            cfg = ExternalLocationConfig(storage=None, externalize_threshold_bytes=threshold, max_retries=0, retry_delay_seconds=0.0)
        elif ext_shape == "on":
            cfg = ExternalLocationConfig(
                storage=self.storage, externalize_threshold_bytes=threshold, max_retries=0, retry_delay_seconds=0.0, compression=compression
            )
        self.server = RpcServer(C16P, C16Impl(), external_location=cfg, server_id=SERVER_ID)
        self.app = make_wsgi_app(
            self.server,
            prefix="",
            token_key=TOKEN_KEY,
            max_response_bytes=wire_cap,
            max_externalized_response_bytes=ext_cap,
            enable_landing_page=False,
            enable_not_found_page=False,
            enable_describe_page=False,
        )
        self.client = falcon.testing.TestClient(self.app)

    def post(self, path: str, body: bytes) -> Any:
        return self.client.simulate_post(path, body=body, headers={"Content-Type": "application/vnd.apache.arrow.stream"})


# ------------------------------------------------------------------ body parsing (independent of vgi_rpc)
def parse_body(data: bytes) -> list[dict[str, Any]]:
    """Messages of (possibly several back-to-back) IPC streams: kind, byte size, rows, metadata.  The
    end-of-stream marker is reported as kind 'eos'.  Sizes add up to len(data)."""
    out: list[dict[str, Any]] = []
    buf = pa.BufferReader(data)
    while buf.tell() < len(data):
        start = buf.tell()
        mr = ipc.MessageReader.open_stream(buf)
        prev = start
        kinds: list[tuple[str, int]] = []
        while True:
            try:
                m = mr.read_next_message()
            except StopIteration:
                break
            kinds.append((m.type, buf.tell() - prev))
            prev = buf.tell()
        eos = buf.tell() - prev
        rd = ipc.open_stream(io.BytesIO(data[start : buf.tell()]))
        batches = []
        while True:
            try:
                b, md = rd.read_next_batch_with_custom_metadata()
            except StopIteration:
                break
            batches.append((b.num_rows, dict(md) if md is not None else {}))
        bi = 0
        for ty, size in kinds:
            if ty == "schema":
                out.append({"kind": "schema", "size": size})
                continue
            rows, md = batches[bi]
            bi += 1
            if md.get(b"vgi_rpc.log_level") == b"EXCEPTION":
                kind = "error"
            elif b"vgi_rpc.log_level" in md:
                kind = "log"
            elif b"vgi_rpc.location" in md:
                kind = "pointer"
            elif rows == 0 and b"vgi_rpc.stream_state#b64" in md:
                kind = "token"
            else:
                kind = "data"
            out.append({"kind": kind, "size": size, "rows": rows, "md": md})
        out.append({"kind": "eos", "size": eos})
        if buf.tell() == start:
            raise ValueError("no progress parsing body")
    return out


def error_message(msgs: list[dict[str, Any]]) -> tuple[str, str] | None:
    for m in msgs:
        if m["kind"] == "error":
            extra = m["md"].get(b"vgi_rpc.log_extra")
            ty = json.loads(extra).get("exception_type", "") if extra else ""
            return ty, m["md"].get(b"vgi_rpc.log_message", b"").decode("utf-8", "replace")
    return None


def classify_error(err: tuple[str, str] | None) -> str:
    if err is None:
        return "ok"
    ty, msg = err
    if "HTTP body exceeds max_response_bytes" in msg:
        return "wire"
    if "Externalised payload exceeds max_externalized_response_bytes" in msg:
        return "ext"
    if ty == "ValueError" and "c16 " in msg and msg.endswith(" raises"):
        return "user"
    return "other:" + ty + ":" + msg[:80]


def token_of(msgs: list[dict[str, Any]]) -> dict[bytes, bytes] | None:
    for m in msgs:
        if m["kind"] in ("token", "data", "pointer") and any(k.startswith(b"vgi_rpc.stream_state") for k in m.get("md", {})):
            return {k: v for k, v in m["md"].items() if k.startswith(b"vgi_rpc.stream_state")}
    return None


# ------------------------------------------------------------------ drivers (raw wire bytes against the real app)
def _req(app: App, method: str, row: dict[str, Any]) -> bytes:
    from harness.rawrpc import request_bytes

    return request_bytes(method, app.server._methods[method].params_schema, row)


def _observe(app: App, r: Any) -> dict[str, Any]:
    msgs = parse_body(r.content)
    return {
        "status": r.status_code,
        "errhdr": r.headers.get("X-VGI-RPC-Error"),
        "body_len": len(r.content),
        "msgs": msgs,
        "kind": classify_error(error_message(msgs)),
        "uploads": app.storage.take(),
    }


def run_unary(app: App, method: str, n: int, logs: int) -> dict[str, Any]:
    app.storage.take()
    row = {"n": n, "logs": logs} if method == "blob" else ({"logs": logs} if method == "void" else {"n": n})
    return _observe(app, app.post("/" + method, _req(app, method, row)))


def exchange_input(n: int, rows: int, logs: int, md: dict[bytes, bytes]) -> bytes:
    b = pa.RecordBatch.from_arrays([pa.array([n], pa.int64()), pa.array([rows], pa.int64()), pa.array([logs], pa.int64())], schema=XCH_IN)
    sink = io.BytesIO()
    with ipc.new_stream(sink, XCH_IN) as w:
        w.write_batch(b, custom_metadata=pa.KeyValueMetadata(md))
    return sink.getvalue()


def run_exchange(app: App, turns: list[tuple[int, int, int]]) -> list[dict[str, Any]]:
    """init + one /exchange per (n, rows, logs); stops after the first error response."""
    app.storage.take()
    r0 = _observe(app, app.post("/xch/init", _req(app, "xch", {"tag": 1})))
    out = [r0]
    tok = token_of(r0["msgs"])
    for n, rows, logs in turns:
        if tok is None:
            break
        r = _observe(app, app.post("/xch/exchange", exchange_input(n, rows, logs, tok)))
        out.append(r)
        if r["kind"] != "ok":
            break
        nt = token_of(r["msgs"])  # an externalised turn carries the refreshed cursor inside the upload: keep the old one
        if nt is not None:
            tok = {**tok, **nt}
    return out


def run_producer(app: App, sizes: list[int], logs: int, fin_with_last: bool, ilogs: int, max_turns: int = 40) -> list[dict[str, Any]]:
    """init turn + continuation turns until the stream finishes, errors, or max_turns is hit."""
    from harness.rawrpc import tick_stream_bytes

    app.storage.take()
    r = _observe(app, app.post("/prod/init", _req(app, "prod", {"sizes": sizes, "logs": logs, "fin_with_last": fin_with_last, "ilogs": ilogs})))
    out = [r]
    tok: dict[bytes, bytes] = {}
    while len(out) < max_turns and r["kind"] == "ok":
        nt = None
        for m in r["msgs"]:
            if m["kind"] == "token":
                nt = {k: v for k, v in m["md"].items() if k.startswith(b"vgi_rpc.")}
        if nt is None:
            break
        tok = {**tok, **{k: v for k, v in nt.items() if k in (b"vgi_rpc.stream_state#b64", b"vgi_rpc.call_state#b64")}}
        r = _observe(app, app.post("/prod/exchange", tick_stream_bytes(1, metadata=[tok])))
        out.append(r)
    return out


# ------------------------------------------------------------------ pinned entropy
import contextlib
import hashlib
import os
import time as _time


@contextlib.contextmanager
def pinned_entropy(label: str = "c16") -> Any:
    """Sealed state tokens are zstd-packed before encryption, so their LENGTH depends on the random call id and on
    the clock; token bytes ride in exchange data batches and therefore move batch sizes by a few multiples of 8.
    To place caps exactly at cap-1 / cap / cap+1 of such a batch, ``os.urandom`` and ``time.time`` are replaced by
    a deterministic stream / a constant for the duration of one driver run (environment control only: no code of
    vgi_rpc is touched; every run restarts the same stream, so equal requests give equal sizes)."""
    real_urandom, real_time = os.urandom, _time.time
    counter = [0]

    def urandom(n: int) -> bytes:
        out = b""
        while len(out) < n:
            counter[0] += 1
            out += hashlib.sha256(f"{label}:{counter[0]}".encode()).digest()
        return out[:n]

    os.urandom = urandom  # type: ignore[assignment]
    _time.time = lambda: 1_800_000_000.0  # type: ignore[assignment]
    try:
        yield
    finally:
        os.urandom = real_urandom  # type: ignore[assignment]
        _time.time = real_time  # type: ignore[assignment]
