"""Deterministic cooperative scheduler for the real ``vgi_rpc.pool.WorkerPool`` (property C32).

Scenario threads are real ``threading.Thread``s; exactly one of {scheduler, one scenario thread} runs at any
time (the *baton*).  A scenario thread hands the baton back at a *scheduling point*, i.e. just BEFORE it would

  * acquire the interposed pool lock (``pool._lock`` is a :class:`SchedLock`; labelled with the source
    position of the ``with self._lock`` statement, so the observer knows which critical section is next),
  * call ``Popen.poll()`` outside the lock (``_return_worker``),
  * spawn a worker (constructor of the fake ``SubprocessTransport``),
  * return from ``Event.wait`` (reaper) or ``Thread.join`` (``close()``),
  * run the next operation of its own borrower script / leave the ``with pool.connect()`` block.

Interposition is by rebinding module attributes of ``vgi_rpc.pool`` for the duration of one scenario
(``threading``, ``time``, ``SubprocessTransport``); no source change is needed.

Workers are *fake processes*: an in-process thread running the real ``RpcServer`` for harness/c32_worker.py over
an in-memory pipe pair, behind an object with the ``SubprocessTransport`` interface (``proc.poll()``, ``proc.pid``,
``proc.args``, ``reader``, ``writer``, ``close()``).  The client side (``_RpcProxy``, ``StreamSession``,
``_PooledTransport``) is the real code.  Because the pipes are ours we can read off the *ground truth* about a
connection: it is at a message boundary iff no byte is unread in either direction and the server waits for the
first byte of a request.

A schedule is a list of items ``("tick",)``, ``("kill", pid)``, ``("thr", i)`` -- the same convention as
coq/model/M_Pool.v (``Tick | Kill p | Thr i``); items naming no thread / a finished thread stutter.

Atomicity assumption (trusted): code between two scheduling points is atomic with respect to the other
scenario threads.  Under this harness it holds by construction (only the baton holder runs; fake servers only
react to bytes the baton holder writes and are waited for until quiescent).  Under CPython it holds for
WorkerPool as far as the pool state is concerned because every access to ``_idle``/``_active`` happens while
``_lock`` is held; ``_closed`` is read without the lock, which is why that read is a step of its own.
"""
from __future__ import annotations

import ast
import contextlib
import io
import sys
import threading
import time as _real_time
from pathlib import Path
from typing import Any

WATCHDOG_S = 20.0


class HarnessError(Exception):
    """The harness itself could not drive the scenario (never a property violation)."""


class Boom(Exception):
    """Raised by the borrower's on_log callback."""


def raise_dict(raise_at: Any) -> dict[int, str]:
    """raise_at entries are (callback invocation number, class letter) pairs; a bare int means "V"."""
    out: dict[int, str] = {}
    for e in raise_at:
        i, c = (e, "V") if isinstance(e, int) else e
        out.setdefault(int(i), str(c))
    return out


def make_exc(cls: str, n: int) -> BaseException:
    """Class letters: V ValueError, T RuntimeError (neither is caught anywhere in the client: model class XPlain),
    O plain OSError (XOs), R RpcError (XRpc), A pa.ArrowInvalid (XArrow)."""
    msg = f"on_log callback invocation {n}"
    if cls == "V":
        return ValueError(msg)
    if cls == "T":
        return RuntimeError(msg)
    if cls == "O":
        return OSError(msg)
    if cls == "R":
        from vgi_rpc.rpc import RpcError

        return RpcError("CallbackError", msg, "")
    if cls == "A":
        import pyarrow as pa

        return pa.ArrowInvalid(msg)
    raise HarnessError(f"unknown exception class letter {cls!r}")


class ScriptError(Exception):
    """The borrower script asked for an operation its own state does not allow (wire untouched)."""


# --------------------------------------------------------------------------------------------------
# in-memory pipes with inspectable state
# --------------------------------------------------------------------------------------------------
class MemPipe:
    def __init__(self) -> None:
        self.buf = bytearray()
        self.cv = threading.Condition()
        self.closed_w = False  # writer closed: reader sees EOF after the buffer drains
        self.closed_r = False  # reader closed: writes raise BrokenPipeError
        self.blocked = False  # a reader waits for bytes
        self.delivered = 0  # bytes handed to the reader so far
        self.on_deliver: Any = None

    def pending(self) -> int:
        with self.cv:
            return len(self.buf)


class PipeReader(io.RawIOBase):
    def __init__(self, p: MemPipe):
        super().__init__()
        self.p = p

    def readable(self) -> bool:
        return True

    def read(self, n: int = -1) -> bytes:  # exact read: n bytes, fewer only at EOF
        p = self.p
        with p.cv:
            deadline = _real_time.monotonic() + 600
            while True:
                if p.closed_r:
                    return b""
                if n is not None and n >= 0 and len(p.buf) >= n:
                    break
                if p.closed_w:
                    break
                p.blocked = True
                p.cv.notify_all()
                if not p.cv.wait(1.0) and _real_time.monotonic() > deadline:
                    raise HarnessError("pipe read starved")
            p.blocked = False
            k = len(p.buf) if n is None or n < 0 else min(n, len(p.buf))
            out = bytes(p.buf[:k])
            del p.buf[:k]
            if k:
                p.delivered += k
                if p.on_deliver is not None:
                    p.on_deliver()
            p.cv.notify_all()
            return out

    def readinto(self, b: Any) -> int:
        data = self.read(len(b))
        b[: len(data)] = data
        return len(data)

    def close(self) -> None:
        with self.p.cv:
            self.p.closed_r = True
            self.p.buf.clear()
            self.p.cv.notify_all()
        super().close()


class PipeWriter(io.RawIOBase):
    def __init__(self, p: MemPipe):
        super().__init__()
        self.p = p

    def writable(self) -> bool:
        return True

    def write(self, b: Any) -> int:
        data = bytes(b)
        with self.p.cv:
            if self.p.closed_r or self.p.closed_w:
                raise BrokenPipeError(32, "Broken pipe")
            self.p.buf += data
            self.p.blocked = False
            self.p.cv.notify_all()
        return len(data)

    def close(self) -> None:
        with self.p.cv:
            self.p.closed_w = True
            self.p.cv.notify_all()
        super().close()


# --------------------------------------------------------------------------------------------------
# fake worker process
# --------------------------------------------------------------------------------------------------
class FakeProc:
    def __init__(self, worker: "FakeWorker", args: list[str]):
        self._w = worker
        self.pid = worker.pid
        self.args = list(args)
        self.returncode: int | None = None

    def poll(self) -> int | None:
        self._w.sched.sp_poll()
        return self.returncode

    def wait(self, timeout: float | None = None) -> int | None:
        return self.returncode


class FakeWorker:
    """One fake subprocess: server thread + pipe pair.  Has the SubprocessTransport interface."""

    def __init__(self, sched: "Scheduler", pid: int, key: int, cmd: list[str]):
        from vgi_rpc.rpc import RpcServer
        from vgi_rpc.rpc._transport import PipeTransport

        from harness.c32_worker import C32Impl, C32Service

        self.sched = sched
        self.pid = pid
        self.key = key
        self.c2s = MemPipe()
        self.s2c = MemPipe()
        self._reader = PipeReader(self.s2c)
        self._writer = PipeWriter(self.c2s)
        self._srv_reader = PipeReader(self.c2s)
        self._srv_writer = PipeWriter(self.s2c)
        self.proc = FakeProc(self, cmd)
        self._closed = False
        self.terminated = False
        self.at_boundary = False
        self.server_done = False
        self.c2s.on_deliver = self._request_started
        server = RpcServer(C32Service, C32Impl())
        transport = PipeTransport(self._srv_reader, self._srv_writer)

        def loop() -> None:
            import pyarrow as pa

            try:
                while True:
                    with self.c2s.cv:
                        self.at_boundary = True
                    try:
                        server.serve_one(transport)
                    except (EOFError, StopIteration, BrokenPipeError, ConnectionError, pa.ArrowInvalid, OSError):
                        break
            finally:
                with self.c2s.cv:
                    self.at_boundary = False
                    self.server_done = True
                    self.c2s.cv.notify_all()

        self.thread = threading.Thread(target=loop, daemon=True, name=f"c32-fakeworker-{pid}")
        self.thread.start()

    def _request_started(self) -> None:  # called with c2s.cv held
        self.at_boundary = False

    # SubprocessTransport interface ------------------------------------------------------------
    @property
    def reader(self) -> Any:
        return self._reader

    @property
    def writer(self) -> Any:
        return self._writer

    def close(self) -> None:
        if self._closed:
            return
        self._closed = True
        self.terminated = True
        self._die(0)

    # environment ------------------------------------------------------------------------------
    def kill(self) -> None:
        self._die(-9)

    def _die(self, code: int) -> None:
        if self.proc.returncode is None:
            self.proc.returncode = code
        for p in (self.c2s, self.s2c):
            with p.cv:
                p.closed_w = True
                p.closed_r = True
                p.buf.clear()
                p.cv.notify_all()
        self.thread.join(WATCHDOG_S)

    def alive(self) -> bool:
        return self.proc.returncode is None

    def quiesce(self) -> None:
        """Wait until the server thread cannot move without new input."""
        if not self.alive():
            return
        deadline = _real_time.monotonic() + WATCHDOG_S
        with self.c2s.cv:
            while not (self.server_done or (self.c2s.blocked and not self.c2s.buf)):
                if not self.c2s.cv.wait(0.5) and _real_time.monotonic() > deadline:
                    raise HarnessError(f"fake worker {self.pid} did not become quiescent")

    def clean(self) -> bool:
        """Ground truth: the connection is at a message boundary."""
        if not self.alive():
            return False
        with self.c2s.cv:
            srv = self.at_boundary and self.c2s.blocked and not self.c2s.buf
        return srv and self.s2c.pending() == 0


# --------------------------------------------------------------------------------------------------
# interposed primitives
# --------------------------------------------------------------------------------------------------
def lock_sites(pool_source: str) -> dict[int, tuple[str, int]]:
    """line of every ``with self._lock`` statement -> (function name, ordinal within the function)."""
    tree = ast.parse(pool_source)
    out: dict[int, tuple[str, int]] = {}
    for cls in [n for n in tree.body if isinstance(n, ast.ClassDef) and n.name == "WorkerPool"]:
        for fn in [n for n in cls.body if isinstance(n, ast.FunctionDef)]:
            k = 0
            for node in sorted((n for n in ast.walk(fn) if isinstance(n, ast.With)), key=lambda n: n.lineno):
                for item in node.items:
                    e = item.context_expr
                    if isinstance(e, ast.Attribute) and e.attr == "_lock" and isinstance(e.value, ast.Name) and e.value.id == "self":
                        out[node.lineno] = (fn.name, k)
                        k += 1
    return out


class SchedLock:
    def __init__(self, sched: "Scheduler"):
        self._real = threading.Lock()
        self._sched = sched

    def acquire(self, blocking: bool = True, timeout: float = -1) -> bool:
        t = self._sched.current()
        if t is not None:
            fr = sys._getframe(1)
            if fr.f_code.co_name == "__enter__":
                fr = fr.f_back  # type: ignore[assignment]
            site = self._sched.sites.get(fr.f_lineno)
            if site is None:
                raise HarnessError(f"pool lock taken at an unknown site {fr.f_code.co_name}:{fr.f_lineno}")
            self._sched.park(t, ("lock",) + site)
        if not self._real.acquire(timeout=WATCHDOG_S):
            raise HarnessError("pool lock is held by a parked thread")
        if t is not None:
            t.holds_lock = True
        return True

    def release(self) -> None:
        t = self._sched.current()
        if t is not None:
            t.holds_lock = False
        self._real.release()

    def __enter__(self) -> bool:
        return self.acquire()

    def __exit__(self, *a: Any) -> None:
        self.release()


class ShimEvent:
    def __init__(self, sched: "Scheduler"):
        self._sched = sched
        self._flag = False

    def set(self) -> None:
        self._flag = True

    def is_set(self) -> bool:
        return self._flag

    def wait(self, timeout: float | None = None) -> bool:
        t = self._sched.current()
        if t is not None:
            self._sched.park(t, ("wait",))
        return self._flag


class ShimThread:
    """threading.Thread as seen by vgi_rpc.pool: the reaper becomes a scenario thread."""

    def __init__(self, sched: "Scheduler", target: Any = None, daemon: bool | None = None, name: str | None = None, args: tuple[Any, ...] = ()):
        self._sched = sched
        self._target = target
        self._args = args
        self.name = name

    def start(self) -> None:
        self._sched.adopt_reaper(self._target, self._args)

    def join(self, timeout: float | None = None) -> None:
        t = self._sched.current()
        if t is not None:
            self._sched.park(t, ("join",))

    def is_alive(self) -> bool:
        return True


class ShimThreading:
    def __init__(self, sched: "Scheduler"):
        self._s = sched

    def Lock(self) -> SchedLock:  # noqa: N802
        return SchedLock(self._s)

    def Event(self) -> ShimEvent:  # noqa: N802
        return ShimEvent(self._s)

    def Thread(self, *a: Any, **kw: Any) -> ShimThread:  # noqa: N802
        return ShimThread(self._s, *a, **kw)

    def __getattr__(self, name: str) -> Any:
        return getattr(threading, name)


class ShimTime:
    def __init__(self, sched: "Scheduler"):
        self._s = sched

    def monotonic(self) -> float:
        t = self._s.current()
        if t is not None:
            t.last_now = self._s.now
        return float(self._s.now)

    def __getattr__(self, name: str) -> Any:
        return getattr(_real_time, name)


# --------------------------------------------------------------------------------------------------
# scenario threads
# --------------------------------------------------------------------------------------------------
class _T:
    def __init__(self, tid: int, kind: str, spec: Any):
        self.tid = tid
        self.kind = kind  # "B" | "R" | "C"
        self.spec = spec
        self.go = threading.Event()
        self.at: tuple[Any, ...] = ("new",)
        self.holds_lock = False
        self.thread: threading.Thread | None = None
        self.error: BaseException | None = None
        self.last_now: int | None = None
        # borrower bookkeeping (observations, not inputs of the pool)
        self.owned: FakeWorker | None = None
        self.ab: bool | None = None
        self.ops_left = 0
        self.spawn_failed = False
        self.outcome: list[Any] = []
        self.cb_calls = 0
        self.last_raise_op: str | None = None


class Scheduler:
    """One scenario: ``specs`` as in M_Pool.spec: ("B", key, spawn_ok, ops, raise_at) | ("R",) | ("C",)."""

    def __init__(self, max_idle: int, timeout: int, specs: list[tuple[Any, ...]]):
        import vgi_rpc.pool as pool_mod

        self.pool_mod = pool_mod
        self.now = 0
        self.parked = threading.Event()
        self.threads: list[_T] = [_T(i, s[0], s) for i, s in enumerate(specs)]
        self._by_ident: dict[int, _T] = {}
        self.workers: list[FakeWorker] = []
        self.handouts: list[tuple[int, int, bool]] = []  # (thread, pid, reused)
        self.violations: list[tuple[str, str, dict[str, Any]]] = []
        self.token = 1000
        self.sites = lock_sites(Path(pool_mod.__file__).read_text())
        self._saved = (pool_mod.threading, pool_mod.time, pool_mod.SubprocessTransport)
        self._reaper_t: _T | None = next((t for t in self.threads if t.kind == "R"), None)
        self._reaper_fn: Any = None
        pool_mod.threading = ShimThreading(self)  # type: ignore[assignment]
        pool_mod.time = ShimTime(self)  # type: ignore[assignment]
        pool_mod.SubprocessTransport = self._spawn  # type: ignore[assignment,misc]
        try:
            self.pool = pool_mod.WorkerPool(max_idle=max_idle, idle_timeout=float(timeout))
        except BaseException:
            self.restore()
            raise
        self._wrap_pool()
        for t in self.threads:
            if t.kind == "B":
                t.ops_left = len(t.spec[3])
                self._start(t, self._borrower_body)
            elif t.kind == "C":
                self._start(t, self._closer_body)

    def restore(self) -> None:
        self.pool_mod.threading, self.pool_mod.time, self.pool_mod.SubprocessTransport = self._saved  # type: ignore[assignment,misc]

    # ---- instrumentation of the pool instance (observation only) -----------------------------
    def _wrap_pool(self) -> None:
        pool = self.pool
        orig_borrow = pool._borrow
        orig_return = pool._return_worker

        def borrow(key: tuple[str, ...]) -> Any:
            tr = orig_borrow(key)
            t = self.current()
            if t is not None and t.owned is None:
                # a worker taken from the idle list: this is the hand-out the property talks about
                t.owned = tr
                self.handouts.append((t.tid, tr.pid, True))
                self._check_reuse(t, tr)
            return tr

        def return_worker(transport: Any, stream_opened: bool) -> None:
            t = self.current()
            if t is not None:
                t.ab = bool(stream_opened) if transport.alive() else True
            try:
                orig_return(transport, stream_opened)
            finally:
                if t is not None:
                    t.owned = None

        pool._borrow = borrow  # type: ignore[method-assign]
        pool._return_worker = return_worker  # type: ignore[method-assign]

    def _check_reuse(self, t: _T, w: FakeWorker) -> None:
        w.quiesce()
        alive, clean = w.alive(), w.clean()
        if not (alive and clean):
            prev = getattr(w, "last_holder", None)
            cause = getattr(w, "last_cause", None) or "other"
            w.keep_cause = True  # type: ignore[attr-defined]  # later reuses of this worker are the same defect
            self.violations.append(
                (
                    ("dead-worker-reused" if not alive else f"dirty-reuse-after-{cause}"),
                    f"worker pid={w.pid} handed to borrower {t.tid} for reuse while alive={alive}, at-message-boundary={clean} "
                    f"(previous holder: borrower {prev})",
                    {"pid": w.pid, "borrower": t.tid, "previous_borrower": prev, "alive": alive, "clean": clean, "cause": cause},
                )
            )

    # ---- called on scenario threads -----------------------------------------------------------
    def current(self) -> _T | None:
        return self._by_ident.get(threading.get_ident())

    def park(self, t: _T, at: tuple[Any, ...]) -> None:
        if t.holds_lock:
            raise HarnessError(f"thread {t.tid} reached scheduling point {at} inside the pool lock")
        t.at = at
        t.go.clear()
        self.parked.set()
        if not t.go.wait(WATCHDOG_S * 30):
            raise HarnessError("scenario thread abandoned")

    def sp_poll(self) -> None:
        t = self.current()
        if t is not None and not t.holds_lock:
            self.park(t, ("poll",))

    def _spawn(self, cmd: list[str], **kw: Any) -> FakeWorker:
        t = self.current()
        key = int(cmd[-1])
        if t is not None:
            self.park(t, ("spawn",))
            if not t.spec[2]:
                t.spawn_failed = True
                raise OSError(2, "No such file or directory (spawn_ok = false)")
        w = FakeWorker(self, len(self.workers), key, cmd)
        self.workers.append(w)
        if t is not None:
            t.owned = w
            self.handouts.append((t.tid, w.pid, False))
        return w

    def adopt_reaper(self, target: Any, args: tuple[Any, ...]) -> None:
        self._reaper_fn = (target, args)
        t = self._reaper_t
        if t is None:
            return  # no reaper in this scenario: the loop never runs (= it is never scheduled)
        self._start(t, lambda tt: target(*args))

    def _run(self, t: _T, body: Any) -> None:
        self._by_ident[threading.get_ident()] = t
        try:
            body(t)
            t.at = ("done",)
        except HarnessError as e:
            t.error = e
            t.at = ("crashed",)
        except BaseException as e:  # noqa: BLE001 - outcome of the scenario thread, recorded
            t.outcome.append(("escaped", type(e).__name__))
            t.at = ("done",)
        finally:
            self.parked.set()

    def _start(self, t: _T, body: Any) -> None:
        self.parked.clear()
        th = threading.Thread(target=self._run, args=(t, body), daemon=True, name=f"c32-t{t.tid}")
        t.thread = th
        th.start()
        if not self.parked.wait(WATCHDOG_S):
            raise HarnessError(f"thread {t.tid} did not reach its first scheduling point")
        self._check(t)

    def _closer_body(self, t: _T) -> None:
        self.park(t, ("start",))
        self.pool.close()

    def _borrower_body(self, t: _T) -> None:
        from harness.c32_worker import C32Service

        _, key, _spawn_ok, ops, raise_at = t.spec
        raise_map = raise_dict(raise_at)
        st: dict[str, Any] = {"cur": "none", "sess": None, "ending": "C", "w": None}
        causes = {"U": "unary-callback-raise", "O": "stream-init-callback-raise", "O2": "second-stream-init-callback-raise", "T": "tick-callback-raise", "C": "stream-close-callback-raise", "X": "cancel-drain-callback-raise"}

        def cb(msg: Any) -> None:
            n = t.cb_calls
            t.cb_calls += 1
            if n in raise_map:
                w = st["w"]
                if w is not None and not getattr(w, "keep_cause", False):
                    s0 = st["sess"]
                    in_drain = s0 is not None and getattr(s0, "_closed", False)  # close()/cancel() set _closed first
                    w.last_cause = causes[st["ending"]] if in_drain else causes.get(st["cur"], "other")
                    if raise_map[n] in "ORA":  # a class some except / suppress clause of the client names
                        w.last_cause += "-suppressed-class"
                raise make_exc(raise_map[n], n)

        def fresh() -> int:
            self.token += 1
            return self.token

        self.park(t, ("start",))
        cmd = ["fake-worker", str(key)]

        def managed_close(s: Any) -> None:
            st["sess"], st["ending"] = s, "C"
            s.close()

        with self.pool.connect(C32Service, cmd, on_log=cb) as svc, contextlib.ExitStack() as stack:
            w = t.owned
            st["w"] = w
            if w is not None:
                w.last_holder = t.tid  # type: ignore[attr-defined]
                if not getattr(w, "keep_cause", False):
                    w.last_cause = None  # type: ignore[attr-defined]
            sess: Any = None
            stream_token = 0
            streams = 0
            cur = "none"
            try:
                for o in ops:
                    self.park(t, ("use",))
                    t.ops_left -= 1
                    cur = st["cur"] = o[0]
                    if o[0] == "U":
                        if sess is not None:
                            raise ScriptError("unary while a stream is open")
                        tok = fresh()
                        got = svc.echo(token=tok)
                        self._expect(t, "echo", tok, got)
                    elif o[0] == "O":
                        if sess is not None:
                            raise ScriptError("second stream while one is open")
                        tok = fresh()
                        cur = st["cur"] = "O2" if streams else "O"
                        streams += 1
                        st["sess"] = None
                        s = svc.gen(token=tok)
                        sess, stream_token = s, tok
                        st["sess"], st["ending"] = s, "C"
                        if o[1]:
                            stack.callback(managed_close, s)
                        self._expect(t, "gen-header", tok, s.header.token)
                    elif o[0] == "T":
                        if sess is None:
                            raise ScriptError("tick without a stream")
                        try:
                            ab = sess.tick()
                        finally:
                            if sess._closed:  # tick() closed the session itself (RpcError / transport error)
                                sess = None
                        self._expect(t, "tick", stream_token, ab.batch.column("token")[0].as_py())
                    elif o[0] == "C":
                        if sess is None:
                            raise ScriptError("close without a stream")
                        s, sess = sess, None
                        st["ending"] = "C"
                        s.close()
                    elif o[0] == "X":
                        if sess is None:
                            raise ScriptError("cancel without a stream")
                        s, sess = sess, None
                        st["ending"] = "X"
                        s.cancel()
                    else:
                        raise HarnessError(f"unknown op {o!r}")
                    t.outcome.append((o[0], "ok"))
                self.park(t, ("use",))
            except BaseException as e:  # noqa: BLE001
                t.outcome.append((cur, type(e).__name__))
                if w is not None and not getattr(w, "keep_cause", False) and getattr(w, "last_cause", None) is None:
                    w.last_cause = "other"  # type: ignore[attr-defined]
                t.ops_left = 0
                raise

    def _expect(self, t: _T, what: str, want: int, got: Any) -> None:
        if got != want:
            self.violations.append(
                ("foreign-response-read", f"borrower {t.tid}: {what} returned {got!r}, its own request carried {want}", {"borrower": t.tid, "what": what, "want": want, "got": repr(got)})
            )

    # ---- called on the scheduler thread -------------------------------------------------------
    def _check(self, t: _T) -> None:
        if t.at == ("crashed",):
            raise HarnessError(f"thread {t.tid} crashed: {type(t.error).__name__}: {t.error}") from t.error

    def step(self, item: tuple[Any, ...]) -> None:
        if item[0] == "tick":
            self.now += 1
            return
        if item[0] == "kill":
            if item[1] < len(self.workers):
                self.workers[item[1]].kill()
            return
        i = item[1]
        if i >= len(self.threads):
            return
        t = self.threads[i]
        if t.at in (("done",), ("crashed",), ("new",)):
            return
        self.parked.clear()
        t.go.set()
        if not self.parked.wait(WATCHDOG_S):
            raise HarnessError(f"thread {t.tid} did not come back to a scheduling point (was at {t.at})")
        self._check(t)
        for w in self.workers:
            w.quiesce()

    # ---- observation (same shape as M_Pool.obs / clean_obs) ----------------------------------
    _B_LOCK = {("_borrow", 0): 1, ("_borrow", 1): 3, ("_borrow", 2): 4, ("_return_worker", 0): 7, ("_return_worker", 1): 8, ("_return_worker", 2): 9}

    def _thread_obs(self, t: _T) -> list[int]:
        at = t.at
        if t.kind == "B":
            own = 0 if t.owned is None else t.owned.pid + 1
            if at == ("start",):
                pc = [0, 0]
            elif at[0] == "lock":
                code = self._B_LOCK.get((at[1], at[2]))
                if code is None:
                    raise HarnessError(f"borrower parked at unexpected lock site {at}")
                pc = [code, 0]
            elif at == ("spawn",):
                pc = [2, 0]
            elif at == ("use",):
                pc = [5, 0]
            elif at == ("poll",):
                pc = [6, 1 if t.ab else 0]
            elif at == ("done",):
                pc = [10, 0]
            else:
                raise HarnessError(f"borrower parked at {at}")
            return pc + [own, max(t.ops_left, 0)]
        if t.kind == "R":
            if at == ("wait",):
                return [20]
            if at[0] == "lock" and at[1] == "_reap_expired":
                return [21, int(t.last_now or 0)]
            if at == ("done",):
                return [22]
            if at == ("new",):
                return [20]
            raise HarnessError(f"reaper parked at {at}")
        if at == ("start",):
            return [30]
        if at == ("join",):
            return [31]
        if at[0] == "lock" and at[1] == "close":
            return [32]
        if at == ("done",):
            return [33]
        raise HarnessError(f"closer parked at {at}")

    def snapshot(self, keymap: dict[tuple[str, ...], int]) -> tuple[list[list[int]], list[bool]]:
        p = self.pool
        cnt = [p._borrows, p._spawns, p._reuses, p._returns, p._discards, p._evictions_idle, p._evictions_max]
        workers: list[int] = []
        for w in self.workers:
            workers += [w.key, 1 if w.alive() else 0, 1 if w.terminated else 0]
        hand: list[int] = []
        for tid, pid, reused in self.handouts:
            hand += [tid, pid, 1 if reused else 0]
        idle = []
        for key, dq in p._idle.items():
            row = [keymap[key]]
            for e in dq:
                row += [e.transport.pid, int(e.returned_at)]
            idle.append(row)
        exact = [[self.now, 1 if p._closed else 0, 1 if p._stop_event.is_set() else 0, p._active], cnt, workers, hand]
        exact += [self._thread_obs(t) for t in self.threads] + [[99]] + idle
        return exact, [w.clean() for w in self.workers]

    def oracle(self, max_idle: int) -> None:
        """The property's own predicates on the real pool, independent of the model."""
        p = self.pool
        owners = [(t.tid, t.owned.pid) for t in self.threads if t.kind == "B" and t.owned is not None]
        pids = [pid for _, pid in owners]
        idle_pids = [e.transport.pid for dq in p._idle.values() for e in dq]
        if len(set(pids)) != len(pids):
            self.violations.append(("worker-owned-twice", f"owners {owners}", {"owners": owners}))
        if set(pids) & set(idle_pids) or len(set(idle_pids)) != len(idle_pids):
            self.violations.append(("idle-worker-also-owned", f"owners {owners}, idle {idle_pids}", {"owners": owners, "idle": idle_pids}))
        n = p.idle_count
        if n != len(idle_pids):
            raise HarnessError("idle_count disagrees with _idle")
        if n > max_idle:
            key = "max-idle-zero-keeps-one" if max_idle == 0 else "idle-exceeds-max-idle"
            self.violations.append((key, f"idle_count = {n} > max_idle = {max_idle}", {"idle_count": n, "max_idle": max_idle}))

    def close(self) -> None:
        """Let every unfinished thread run to completion, close the pool, restore the module."""
        try:
            for _ in range(2000):
                live = [t for t in self.threads if t.at not in (("done",), ("crashed",), ("new",))]
                if not live:
                    break
                if self._reaper_t is not None and live == [self._reaper_t]:
                    self.pool._stop_event.set()
                for t in live:
                    self.parked.clear()
                    t.go.set()
                    self.parked.wait(WATCHDOG_S)
            with contextlib.suppress(Exception):
                self.pool._stop_event.set()
                self.pool.close()
            for w in self.workers:
                with contextlib.suppress(Exception):
                    w.close()
            for t in self.threads:
                if t.thread is not None:
                    t.thread.join(WATCHDOG_S)
        finally:
            self.restore()


def run_schedule(max_idle: int, timeout: int, specs: list[tuple[Any, ...]], schedule: list[tuple[Any, ...]]) -> dict[str, Any]:
    """Replay one schedule against the real pool; per-step snapshots, oracle verdicts, outcomes."""
    s = Scheduler(max_idle, timeout, specs)
    keymap: dict[tuple[str, ...], int] = {}
    for sp in specs:
        if sp[0] == "B":
            keymap[("fake-worker", str(sp[1]))] = sp[1]
    snaps = []
    try:
        for item in schedule:
            s.step(item)
            s.oracle(max_idle)
            snaps.append(s.snapshot(keymap))
        return {"snaps": snaps, "violations": list(s.violations), "outcomes": [list(t.outcome) for t in s.threads], "handouts": list(s.handouts)}
    finally:
        s.close()
