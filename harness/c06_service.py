"""C06 driver: generated service signatures, perturbed requests, the real server on both dispatch paths.

A *signature* is a list of parameters ``(name, kind, optional, has_default)``; a service is a Protocol with a few
methods (unary and producer-stream) built by ``exec`` inside this module's namespace, so that
``typing.get_type_hints`` resolves ``Stream``, ``C06State``, ``Color``, ``DC`` … when the HTTP app introspects it.

The implementation records every invocation in ``LOG`` (method name + the kwargs it received, ``ctx`` excluded) and
then behaves as ``BEHAVIOUR[0]`` says: return normally or raise an exception built by a factory.
"""
from __future__ import annotations

import io
import struct
from decimal import Decimal
from dataclasses import dataclass
from enum import Enum
from typing import Annotated, Any, Protocol  # noqa: F401 - names used by exec'd source

import pyarrow as pa
from pyarrow import ipc

from vgi_rpc.rpc import AnnotatedBatch, CallContext, OutputCollector, RpcError, RpcServer, Stream, StreamState, VersionError
from vgi_rpc.utils import ArrowSerializableDataclass, ArrowType

LOG: list[tuple[str, dict[str, Any]]] = []
BEHAVIOUR: list[Any] = [None]  # None = return normally; else a zero-argument callable returning the exception to raise


class Color(Enum):
    RED = 1
    GREEN = 2


@dataclass(frozen=True)
class DC(ArrowSerializableDataclass):
    x: int
    y: str


class C06Boom(Exception):
    """An application exception unrelated to any class the dispatch paths name."""


@dataclass
class C06State(StreamState):
    n: int = 0

    def process(self, input: AnnotatedBatch, out: OutputCollector, ctx: CallContext) -> None:
        out.finish()


def _behave(name: str, kwargs: dict[str, Any]) -> None:
    LOG.append((name, {k: v for k, v in kwargs.items() if k != "ctx"}))
    b = BEHAVIOUR[0]
    if b is not None:
        raise b()


DC_GOOD = DC(1, "q").serialize_to_bytes()


def _blob(schema: pa.Schema, cols: list[Any], nb: int = 1) -> bytes:
    sink = io.BytesIO()
    with ipc.new_stream(sink, schema) as w:
        for _ in range(nb):
            w.write_batch(pa.RecordBatch.from_arrays(cols, schema=schema))
    return sink.getvalue()


_DCS = pa.schema([("x", pa.int64()), ("y", pa.utf8())])
DC_BAD = {
    "garbage": b"\x00\x01garbage",
    "nobatch": _blob(_DCS, [], nb=0),
    "zerorows": _blob(_DCS, [pa.array([], pa.int64()), pa.array([], pa.utf8())]),
    "missingfield": _blob(pa.schema([("x", pa.int64())]), [pa.array([1], pa.int64())]),
    "truncated-body": DC_GOOD[:-9],
    "invalid-utf8": _blob(_DCS, [pa.array([1], pa.int64()), pa.StringArray.from_buffers(1, pa.py_buffer(struct.pack("<ii", 0, 1)), pa.py_buffer(b"\xff"))]),
}

ENUM_T = pa.dictionary(pa.int16(), pa.utf8())
MAP_T = pa.map_(pa.utf8(), pa.int64())

# kind -> (annotation source, declared arrow type, model kind, a valid wire value,
#          [(alternative arrow type, wire value)] used by the retype perturbation)
KINDS: dict[str, tuple[str, pa.DataType, str, Any, list[tuple[pa.DataType, Any]]]] = {
    "int": ("int", pa.int64(), "KPlain", 7, [(pa.int32(), 7), (pa.float64(), 7.0), (pa.uint64(), 7), (pa.utf8(), "7")]),
    "float": ("float", pa.float64(), "KPlain", 1.5, [(pa.float32(), 1.5), (pa.int64(), 1), (pa.decimal128(5, 2), Decimal("1.50"))]),
    "str": ("str", pa.utf8(), "KPlain", "s", [(pa.large_utf8(), "s"), (pa.binary(), b"s"), (ENUM_T, "s")]),
    "bool": ("bool", pa.bool_(), "KPlain", True, [(pa.int8(), 1)]),
    "bytes": ("bytes", pa.binary(), "KPlain", b"b", [(pa.large_binary(), b"b"), (pa.utf8(), "b")]),
    "enum": ("Color", ENUM_T, "KEnum", "RED", [(pa.utf8(), "RED"), (pa.dictionary(pa.int32(), pa.utf8()), "RED"), (pa.int64(), 1), (pa.binary(), b"RED")]),
    "dc": ("DC", pa.binary(), "KDataclass", DC_GOOD, [(pa.large_binary(), DC_GOOD), (pa.utf8(), "x")]),
    "list": ("list[int]", pa.list_(pa.int64()), "KPlain", [1, 2], [(pa.large_list(pa.int64()), [1, 2]), (pa.list_(pa.int32()), [1, 2]), (pa.list_(pa.field("item", pa.int64(), nullable=False)), [1, 2])]),
    "dict": ("dict[str, int]", MAP_T, "KDict", [("a", 1)], [(pa.list_(pa.int64()), [1, 2, 3]), (pa.list_(pa.list_(pa.int64())), [[1, 2, 3]]), (pa.list_(pa.list_(pa.int64())), [[1, 2]]), (pa.map_(pa.utf8(), pa.int32()), [("a", 1)])]),
    "fset": ("frozenset[int]", pa.list_(pa.int64()), "KFrozenset", [1], [(pa.list_(pa.list_(pa.int64())), [[1]]), (pa.large_list(pa.int64()), [1]), (pa.int64(), 1)]),
    "i32": ("Annotated[int, ArrowType(pa.int32())]", pa.int32(), "KPlain", 5, [(pa.int64(), 5), (pa.int16(), 5), (pa.uint32(), 5)]),
}

DEFAULT_SRC = {"int": "3", "float": "0.5", "str": "'d'", "bool": "False", "bytes": "b'd'", "enum": "Color.GREEN", "dc": "DC(2, 'd')", "list": "None", "dict": "None", "fset": "None", "i32": "4"}

Param = tuple[str, str, bool, bool]  # name, kind, optional, has_default


def build_service(methods: list[tuple[str, bool, list[Param]]]) -> RpcServer:
    """methods: [(name, is_stream, params)] -> a real RpcServer over a generated Protocol + implementation."""
    proto = ["class P(Protocol):"]
    impl = ["class Impl:"]
    for name, is_stream, params in methods:
        sig = []
        isig = []
        for pname, kind, optional, has_default in params:
            ann = KINDS[kind][0] + (" | None" if optional else "")
            default = ""
            if has_default:
                d = DEFAULT_SRC[kind]
                if d == "None" and not optional:
                    raise ValueError("a None default needs an optional parameter")
                default = " = " + d
            sig.append(f"{pname}: {ann}{default}")
            isig.append(pname + ("=None" if has_default else ""))
        ret = "Stream[C06State]" if is_stream else "int"
        proto.append(f"    def {name}(self, {', '.join(sig)}) -> {ret}: ..." if sig else f"    def {name}(self) -> {ret}: ...")
        body = f"_behave({name!r}, dict({', '.join(p[0] + '=' + p[0] for p in params)}))"
        tail = "return Stream(output_schema=pa.schema([]), state=C06State())" if is_stream else "return 1"
        iret = " -> Stream[C06State]" if is_stream else ""
        impl.append(f"    def {name}(self{''.join(', ' + s for s in isig)}){iret}:\n        {body}\n        {tail}")
    ns = dict(globals())
    exec("\n".join(proto) + "\n" + "\n".join(impl) + "\n", ns)  # noqa: S102 - generated Protocol / implementation
    return RpcServer(ns["P"], ns["Impl"](), enable_describe=False)


# exception factories a method may raise; name -> (factory, class name on the wire)
def behaviours() -> dict[str, Any]:
    return {
        "ok": None,
        "TypeError": lambda: TypeError("method's own TypeError"),
        "ArrowInvalid": lambda: pa.ArrowInvalid("method's own ArrowInvalid"),
        "KeyError": lambda: KeyError("method's own KeyError"),
        "ValueError": lambda: ValueError("method's own ValueError"),
        "StopIteration": lambda: StopIteration("method's own StopIteration"),
        "RpcError": lambda: RpcError("Inner", "method's own RpcError", ""),
        "VersionError": lambda: VersionError("method's own VersionError"),
        "OSError": lambda: OSError("method's own OSError"),
        "ArrowTypeError": lambda: pa.ArrowTypeError("method's own ArrowTypeError"),
        "C06Boom": lambda: C06Boom("method's own application error"),
    }
