"""C15 driver: the REAL Falcon app of vgi_rpc.http, driven on hand-built requests over the request grid of the property.

Everything is module level because the HTTP app resolves the type hints of the service methods.

Service
  u(a, s) -> int                unary; raises ValueError when a == 999
  p(a, s) -> Stream[PState]     producer stream (no input schema); init raises when a == 999, process raises when a == 998
                                (and, when a == 997, from the second turn on: that is how a continuation whose process
                                raises is reached through tokens the real /init minted)
  e(a, s) -> Stream[EState]     exchange stream (input x:int64);   init raises when a == 999, process raises when a == 998
  __describe__                  the framework's own unary method (never fails)

A request *descriptor* is the 9-tuple of small integers documented in ``DIMS``; ``build`` turns a descriptor (plus a
variant number selecting among several concrete realisations of the same class) into (app key, path, headers, body);
``observe`` runs it and classifies the response.  Nothing here decides anything about the property.
"""
from __future__ import annotations

import base64
import gzip
import io
import itertools
import json
from dataclasses import dataclass
from typing import Any, Protocol

import falcon.testing
import pyarrow as pa
import zstandard
from pyarrow import ipc

from vgi_rpc.metadata import CALL_STATE_KEY, CANCEL_KEY, REQUEST_VERSION, REQUEST_VERSION_KEY, RPC_METHOD_KEY, STATE_KEY
from vgi_rpc.rpc import AnnotatedBatch, AuthContext, CallContext, OutputCollector, RpcServer, Stream, StreamState

ARROW_CT = "application/vnd.apache.arrow.stream"
MARKER = "X-VGI-RPC-Error"
CAP = 4096  # max_request_bytes of the capped apps
BIG = 6000  # length of the string parameter of an oversize body
P_OUT = pa.schema([("y", pa.int64())])
E_IN = pa.schema([("x", pa.int64())])
E_OUT = pa.schema([("y", pa.int64())])
PARAMS = pa.schema([pa.field("a", pa.int64(), nullable=False), pa.field("s", pa.utf8(), nullable=False)])

CALLS: list[str] = []  # what the implementation actually ran ("u", "p.init", "p.process", ...; "<name>!" = it raised)


@dataclass
class PState(StreamState):
    a: int = 0
    n: int = 0

    def process(self, input: AnnotatedBatch, out: OutputCollector, ctx: CallContext) -> None:
        CALLS.append("p.process")
        if self.a == 998 or (self.a == 997 and self.n >= 1):
            CALLS.append("p.process!")
            raise ValueError("producer process refused")
        self.n += 1
        out.emit_pydict({"y": [self.n]})


@dataclass
class EState(StreamState):
    a: int = 0
    n: int = 0

    def process(self, input: AnnotatedBatch, out: OutputCollector, ctx: CallContext) -> None:
        CALLS.append("e.process")
        if self.a == 998:
            CALLS.append("e.process!")
            raise ValueError("exchange process refused")
        self.n += 1
        out.emit_pydict({"y": [self.n]})


class C15Protocol(Protocol):
    def u(self, a: int, s: str) -> int: ...
    def p(self, a: int, s: str) -> Stream[PState]: ...
    def e(self, a: int, s: str) -> Stream[EState]: ...


class C15Impl:
    def u(self, a: int, s: str) -> int:
        CALLS.append("u")
        if a >= 998:
            CALLS.append("u!")
            raise ValueError("unary refused")
        return a + len(s)

    def p(self, a: int, s: str) -> Stream[PState]:
        CALLS.append("p.init")
        if a == 999:
            CALLS.append("p.init!")
            raise ValueError("producer init refused")
        return Stream(output_schema=P_OUT, state=PState(a=a))

    def e(self, a: int, s: str) -> Stream[EState]:
        CALLS.append("e.init")
        if a == 999:
            CALLS.append("e.init!")
            raise ValueError("exchange init refused")
        return Stream(output_schema=E_OUT, state=EState(a=a), input_schema=E_IN)


GOOD_CRED = "Bearer good"


def authenticate(req: Any) -> AuthContext:
    h = req.get_header("Authorization")
    if h is None:
        raise ValueError("no credentials")
    if h != GOOD_CRED:
        raise ValueError("bad credentials")
    return AuthContext(domain="c15", authenticated=True, principal="alice")


# ---------------------------------------------------------------------------------------------- the descriptor space
ROUTES = ["unary", "init", "exchange"]
METHODS = ["known", "known_alt", "unknown", "mismatch"]
BODIES = ["valid", "corrupt", "corrupt_io", "truncated", "empty", "no_batch", "no_method", "method_mismatch", "no_reqversion",
          "bad_reqversion", "bad_traceparent", "bad_params", "oversize"]
CTYPES = ["ok", "wrong", "missing"]
CENCS = ["none", "zstd", "gzip", "unknown", "corrupt"]
TOKENS = ["valid", "tampered", "missing"]
AUTHS = ["off", "good", "bad", "missing"]
CAPS = ["off", "on"]
OUTCOMES = ["ok", "fail_init", "fail_process"]
DIMS = [ROUTES, METHODS, BODIES, CTYPES, CENCS, TOKENS, AUTHS, CAPS, OUTCOMES]
DIM_NAMES = ["route", "method", "body", "ctype", "cenc", "token", "auth", "cap", "outcome"]


def all_descriptors() -> Any:
    return itertools.product(*[range(len(d)) for d in DIMS])


def describe(d: tuple[int, ...]) -> dict[str, str]:
    return {n: dim[i] for n, dim, i in zip(DIM_NAMES, DIMS, d)}


N_VARIANTS = 4

WRONG_CTYPES = ["application/json", ARROW_CT + "; charset=utf-8", "application/octet-stream", "text/plain"]
UNKNOWN_CENCS = ["br", "deflate", "bzip2", "zstd, gzip"]
# every unsupported token the coding cross of props/C15.py sends with every body class
ALL_UNKNOWN_CENCS = ["br", "deflate", "bzip2", "compress", "zstd, gzip", "x-gzip", "lz4", "snappy"]


def _ipc(schema: pa.Schema, cols: dict[str, Any], md: dict[bytes, bytes], bounds: list[int] | None = None) -> bytes:
    """One request IPC stream (schema, one 1-row batch, EOS).  ``bounds`` receives [end of schema message, end of batch]."""
    arrays = [pa.array([cols[f.name]], type=f.type) for f in schema]
    batch = pa.RecordBatch.from_arrays(arrays, schema=schema)
    sink = io.BytesIO()
    with ipc.new_stream(sink, schema) as w:
        if bounds is not None:
            bounds.append(sink.tell())
        w.write_batch(batch, custom_metadata=pa.KeyValueMetadata(md) if md else None)
        if bounds is not None:
            bounds.append(sink.tell())
    return sink.getvalue()


def exchange_body(name: str, cur: bytes | None, call: bytes | None, cancel: bool = False) -> bytes:
    """An /exchange request of stream ``name`` ("e": one input row, "p": a tick) carrying exactly the given tokens."""
    md: dict[bytes, bytes] = {}
    if cur is not None:
        md[STATE_KEY] = cur
    if call is not None:
        md[CALL_STATE_KEY] = call
    if cancel:
        md[CANCEL_KEY] = b"1"
    if name == "p":
        return _ipc(pa.schema([]), {}, md)
    return _ipc(E_IN, {"x": 7}, md)


def _flip_unused_bits(tok: bytes) -> bytes | None:
    """The same bytes in a NON-canonical base64 text: only the unused low bits of the last data character differ."""
    alphabet = b"ABCDEFGHIJKLMNOPQRSTUVWXYZabcdefghijklmnopqrstuvwxyz0123456789+/"
    pad = len(tok) - len(tok.rstrip(b"="))
    if pad == 0:
        return None
    i = len(tok) - pad - 1
    v = alphabet.index(tok[i : i + 1])
    out = tok[:i] + alphabet[v ^ 1 : (v ^ 1) + 1] + tok[i + 1 :]
    assert base64.b64decode(out, validate=True) == base64.b64decode(tok, validate=True) and out != tok
    return out


def token_mutations(tok: bytes, other_key_tok: bytes) -> dict[str, bytes | None]:
    """Named ways a client can present a token that the server did not mint in this form (None = the key is absent)."""
    raw = base64.b64decode(tok)
    flipped = bytearray(raw)
    flipped[len(flipped) // 2] ^= 0x01
    # the same envelope re-armoured so that its text has padding, then de-canonicalised: covers tokens whose own length
    # leaves no unused bits
    m: dict[str, bytes | None] = {
        "noncanonical-forged-short": b"QR==",
        "noncanonical-forged-long": base64.b64encode(b"\x00" * 40 + b"x")[:-3] + b"1==",
        "garbage-valid-base64": base64.b64encode(b"garbage bytes " * 5),
        "garbage-short-valid-base64": b"QQ==",
        "bit-flip": base64.b64encode(bytes(flipped)),
        "truncated": tok[: len(tok) // 2 // 4 * 4],
        "truncated-envelope": base64.b64encode(raw[:-5]),
        "extended-envelope": base64.b64encode(raw + b"\x00"),
        "wrong-padding-extra": tok + b"=",
        "wrong-padding-stripped": tok.rstrip(b"=") if tok.endswith(b"=") else tok[:-1],
        "non-base64-characters": b"!!not base64!!",
        "non-base64-character-inserted": tok[:10] + b"*" + tok[10:],
        "trailing-newline": tok + b"\n",
        "urlsafe-alphabet": base64.urlsafe_b64encode(raw) if base64.urlsafe_b64encode(raw) != tok else tok.replace(b"A", b"-", 1),
        "empty": b"",
        "other-key": other_key_tok,
        "missing": None,
    }
    nc = _flip_unused_bits(tok)
    if nc is not None:
        m["noncanonical-trailing-bits"] = nc
    assert _flip_unused_bits(m["noncanonical-forged-long"] or b"") is not None
    return m


class World:
    """The four real apps (auth off/on x cap off/on) over ONE RpcServer, and the stream tokens minted by each."""

    def __init__(self) -> None:
        from vgi_rpc.http import make_wsgi_app

        self.server = RpcServer(C15Protocol, C15Impl(), enable_describe=True)
        self.apps: dict[tuple[bool, bool], Any] = {}
        self.clients: dict[tuple[bool, bool], Any] = {}
        for auth_on in (False, True):
            for cap_on in (False, True):
                app = make_wsgi_app(
                    self.server, prefix="", token_key=b"k" * 32,
                    authenticate=authenticate if auth_on else None,
                    max_request_bytes=CAP if cap_on else None,
                    enable_landing_page=False, enable_describe_page=False,
                )
                self.apps[(auth_on, cap_on)] = app
                self.clients[(auth_on, cap_on)] = falcon.testing.TestClient(app)
        self._tokens: dict[tuple[bool, bool, str, int], tuple[bytes, bytes]] = {}
        # an app whose call-state cache is disabled: every continuation opens the call token the client presents
        self.cold_client = falcon.testing.TestClient(
            make_wsgi_app(self.server, prefix="", token_key=b"k" * 32, call_state_cache_entries=0, enable_landing_page=False, enable_describe_page=False)
        )
        # a fifth app on which zstd is a KNOWN BUT DISABLED coding (VGI_HTTP_DISABLE_ZSTD is read by make_wsgi_app)
        import os

        prev = os.environ.get("VGI_HTTP_DISABLE_ZSTD")
        os.environ["VGI_HTTP_DISABLE_ZSTD"] = "1"
        try:
            self.zstd_disabled_client = falcon.testing.TestClient(
                make_wsgi_app(self.server, prefix="", token_key=b"k" * 32, enable_landing_page=False, enable_describe_page=False)
            )
        finally:
            if prev is None:
                del os.environ["VGI_HTTP_DISABLE_ZSTD"]
            else:
                os.environ["VGI_HTTP_DISABLE_ZSTD"] = prev
        self._other = falcon.testing.TestClient(make_wsgi_app(RpcServer(C15Protocol, C15Impl()), prefix="", token_key=b"z" * 32))

    # -- tokens ---------------------------------------------------------------------------------------------------
    def tokens(self, auth_on: bool, cap_on: bool, method: str, a: int, client: Any = None) -> tuple[bytes, bytes]:
        """(cursor token, call token) of a stream opened on this app with parameter a (a = 998 makes process raise)."""
        key = (auth_on, cap_on, method, a)
        if client is None and key in self._tokens:
            return self._tokens[key]
        cl = client or self.clients[(auth_on, cap_on)]
        body = _ipc(PARAMS, {"a": a, "s": "x"}, {RPC_METHOD_KEY: method.encode(), REQUEST_VERSION_KEY: REQUEST_VERSION})
        hdr = {"Content-Type": ARROW_CT}
        if auth_on:
            hdr["Authorization"] = GOOD_CRED
        r = cl.simulate_post(f"/{method}/init", body=body, headers=hdr)
        if r.status_code != 200:
            raise RuntimeError(f"token init failed: {r.status_code} {r.content[:200]!r}")
        cur = call = None
        buf = io.BytesIO(r.content)
        while buf.tell() < len(r.content):
            rd = ipc.open_stream(buf)
            while True:
                try:
                    _, md = rd.read_next_batch_with_custom_metadata()
                except StopIteration:
                    break
                if md is not None and md.get(STATE_KEY) is not None:
                    cur, call = md.get(STATE_KEY), md.get(CALL_STATE_KEY)
        if cur is None or call is None:
            raise RuntimeError(f"no tokens in init response of {method} a={a}")
        if client is None:
            self._tokens[key] = (cur, call)
        return cur, call

    # -- request construction -----------------------------------------------------------------------------------------
    def build(self, d: tuple[int, ...], variant: int = 0) -> dict[str, Any]:
        route, method, body, ctype, cenc, token, auth, cap, outcome = (dim[i] for dim, i in zip(DIMS, d))
        auth_on, cap_on = auth != "off", cap == "on"
        stream_route = route != "unary"
        if method == "known":
            name = "e" if stream_route else "u"
        elif method == "known_alt":
            name = "p" if stream_route else "__describe__"
        elif method == "unknown":
            name = ["nosuch", "U", "u ", "__describe"][variant % 4]
        else:
            name = (["u", "__describe__"] if stream_route else ["e", "p"])[variant % 2]
        path = f"/{name}" + {"unary": "", "init": "/init", "exchange": "/exchange"}[route]
        from urllib.parse import quote

        path = quote(path)
        a = {"ok": 1, "fail_init": 999, "fail_process": 998}[outcome]

        md: dict[bytes, bytes] = {RPC_METHOD_KEY: name.encode(), REQUEST_VERSION_KEY: REQUEST_VERSION}
        if body == "no_method":
            del md[RPC_METHOD_KEY]
        elif body == "method_mismatch":
            md[RPC_METHOD_KEY] = [b"other", b"u2", name.encode() + b" ", b"\xff\xfe"][variant % 4]
        elif body == "no_reqversion":
            del md[REQUEST_VERSION_KEY]
        elif body == "bad_reqversion":
            md[REQUEST_VERSION_KEY] = [b"0", REQUEST_VERSION + b"0", b"", b"\xff"][variant % 4]
        elif body == "bad_traceparent":
            md[b"traceparent"] = [b"\xff\xfe", b"00-\xc3\x28-01", b"\x80", b"\xed\xa0\x80"][variant % 4]

        # tokens: always derived for the stream method the path names when there is one, else for "e"
        tok_method = name if name in ("e", "p") else "e"
        # the process-failing state is only reachable through a cursor whose state has a == 998
        tok_a = (997 if tok_method == "p" else 998) if outcome == "fail_process" else 1
        if token != "missing":
            cur, call = self.tokens(auth_on, cap_on, tok_method, tok_a)
            if token == "tampered":
                v = variant % 4
                if v == 0:
                    raw = bytearray(base64.b64decode(cur))
                    raw[len(raw) // 2] ^= 0x01
                    cur = base64.b64encode(bytes(raw))
                elif v == 1:
                    cur = b"!!not base64!!"
                elif v == 2:
                    cur = cur[: len(cur) // 2 // 4 * 4]
                else:
                    cur = self.tokens(False, False, tok_method, tok_a, client=self._other)[0]
            md[STATE_KEY] = cur
            md[CALL_STATE_KEY] = call

        s_val = "A" * BIG if body == "oversize" else "x"
        if body == "oversize" and (route == "exchange" or name == "__describe__"):
            md[b"c15.pad"] = b"A" * BIG  # the batch keeps its schema; the padding rides in the metadata
        if route == "exchange":
            if name == "p":
                schema, cols = pa.schema([]), {}
                if body == "bad_params":
                    schema, cols = pa.schema([("z", pa.utf8())]), {"z": "q"}
            else:
                schema, cols = E_IN, {"x": 7}
                if body == "bad_params":
                    schema, cols = [(pa.schema([("z", pa.utf8())]), {"z": "q"}), (pa.schema([("x", pa.utf8())]), {"x": "q"}),
                                    (pa.schema([]), {}), (pa.schema([("x", pa.int64()), ("w", pa.int64())]), {"x": 1, "w": 2})][variant % 4]
        else:
            schema, cols = PARAMS, {"a": a, "s": s_val}
            if name == "__describe__":
                schema, cols = pa.schema([]), {}
            if body == "bad_params":
                schema, cols = [
                    (pa.schema([("a", pa.utf8()), ("s", pa.utf8())]), {"a": "1", "s": "x"}),
                    (pa.schema([("a", pa.int64())]), {"a": a}),
                    (pa.schema([("a", pa.int64()), ("s", pa.utf8()), ("t", pa.int64())]), {"a": a, "s": "x", "t": 3}),
                    (pa.schema([("a", pa.int64()), ("s", pa.utf8())]), {"a": None, "s": "x"}),
                ][variant % 4]
        bounds: list[int] = []
        plain = _ipc(schema, cols, md, bounds)
        # the writer may not have flushed the schema message when bounds[0] was taken: read its end off the bytes
        # (8-byte prefix + padded flatbuffer length; a schema message has no body)
        bounds[0] = 8 + int.from_bytes(plain[4:8], "little")
        if body == "corrupt":
            v = variant % 4
            if v == 0:
                plain = bytes((b * 37 + 11) % 256 for b in range(200))
            elif v == 1:
                plain = b"\xff\xff\xff\xff\xf0\xff\xff\x7f" + plain[8:]  # absurd metadata length
            elif v == 2:
                plain = b"ARROW1\x00\x00" + plain  # the *file* format magic in front of a stream
            else:
                plain = b"\x00\x01\x02\x03" + plain
        elif body == "corrupt_io":
            bb = bytearray(plain)  # the flatbuffer of the schema message (v 0/1) or of the batch message (v 2/3) is overwritten
            v = variant % 4
            if v == 0:
                bb[8:40] = b"\xde\xad\xbe\xef" * 8
            elif v == 1:
                bb[8:24] = b"\x00" * 16
            elif v == 2:
                bb[bounds[0] + 8:bounds[0] + 40] = b"\xde\xad\xbe\xef" * 8
            else:
                bb[8:12] = b"\xff\xff\xff\x7f"
            plain = bytes(bb)
        elif body == "no_batch":
            sink = io.BytesIO()
            with ipc.new_stream(sink, [schema, pa.schema([]), PARAMS, E_IN][variant % 4]):
                pass
            plain = sink.getvalue()
        elif body == "truncated":
            # inside the schema message | inside the batch message's length prefix | inside the batch message | inside the
            # first prefix   (a cut exactly after the schema message is the class no_batch: pyarrow sees a clean end of stream)
            v = variant % 4
            cut = [bounds[0] // 2, bounds[0] + 4, (bounds[0] + bounds[1]) // 2, 6][v]
            plain = plain[:cut]
        elif body == "empty":
            plain = b""

        wire = plain
        headers: dict[str, str] = {}
        if cenc == "zstd":
            wire = zstandard.ZstdCompressor().compress(plain)
            headers["Content-Encoding"] = ["zstd", "ZSTD", " zstd "][variant % 3]
        elif cenc == "gzip":
            wire = gzip.compress(plain)
            headers["Content-Encoding"] = "gzip"
        elif cenc == "unknown":
            headers["Content-Encoding"] = UNKNOWN_CENCS[variant % 4]
        elif cenc == "corrupt":
            v = variant % 2 if body == "oversize" else variant % 4
            if v < 2 and len(plain) < 64:
                wire = plain + b"\x00this is not a compressed frame" * 3
            if v == 0:
                headers["Content-Encoding"] = "zstd"  # body is not a zstd frame at all
            elif v == 1:
                headers["Content-Encoding"] = "gzip"
            elif v == 2:
                headers["Content-Encoding"] = "zstd"
                z = zstandard.ZstdCompressor().compress(plain + b"pad" * 50)
                wire = z[: max(5, len(z) - 7)]  # truncated frame
            else:
                headers["Content-Encoding"] = "gzip"
                z = bytearray(gzip.compress(plain + b"pad" * 50))
                z[len(z) // 2] ^= 0xFF
                wire = bytes(z[:-3])
        if ctype == "ok":
            headers["Content-Type"] = ARROW_CT
        elif ctype == "wrong":
            headers["Content-Type"] = WRONG_CTYPES[variant % 4]
        if auth == "good":
            headers["Authorization"] = GOOD_CRED
        elif auth == "bad":
            headers["Authorization"] = ["Bearer evil", "Basic Zm9vOmJhcg==", "good", "bearer good"][variant % 4]
        return {"app": (auth_on, cap_on), "path": path, "headers": headers, "body": wire, "plain_len": len(plain), "name": name}

    # -- running --------------------------------------------------------------------------------------------------------
    def observe(self, req: dict[str, Any], client: Any = None) -> dict[str, Any]:
        del CALLS[:]
        client = client or self.clients[req["app"]]
        r = client.simulate_post(req["path"], body=req["body"], headers=req["headers"], wsgierrors=io.StringIO())
        return classify(r, list(CALLS))


def classify(r: Any, calls: list[str]) -> dict[str, Any]:
    ct = (r.headers.get("content-type") or "").lower()
    if ct == ARROW_CT:
        ctc = "arrow"
    elif ct.startswith("application/json"):
        ctc = "json"
    elif ct.startswith("text/html"):
        ctc = "html"
    elif ct == "":
        ctc = "none"
    else:
        ctc = "other"
    content = r.content
    enc = (r.headers.get("content-encoding") or r.headers.get("x-vgi-content-encoding") or "").lower()
    try:
        if enc == "zstd":
            content = zstandard.ZstdDecompressor().decompressobj().decompress(content)
        elif enc == "gzip":
            content = gzip.decompress(content)
    except Exception:  # noqa: BLE001
        pass
    bodyc, err = decode_arrow(content)
    return {
        "status": r.status_code,
        "marker": r.headers.get(MARKER.lower()) is not None,
        "marker_value": r.headers.get(MARKER.lower()),
        "ctype": ctc,
        "body": bodyc,
        "error": err,
        "calls": calls,
        "raw_head": r.content[:120],
    }


def decode_arrow(content: bytes) -> tuple[str, Any]:
    """("arrow_ok" | "arrow_err" | "empty" | "not_arrow", first error (type, message) | None).

    Decodable = the whole body is one or more back-to-back Arrow IPC streams, each with a schema, every batch readable,
    each ended by an end-of-stream marker (pyarrow raises on anything else), nothing left over.
    """
    if not content:
        return "empty", None
    buf = io.BytesIO(content)
    err = None
    try:
        while buf.tell() < len(content):
            rd = ipc.open_stream(buf)
            while True:
                try:
                    b, md = rd.read_next_batch_with_custom_metadata()
                except StopIteration:
                    break
                b.validate(full=True)
                if md is not None and md.get(b"vgi_rpc.log_level") == b"EXCEPTION" and err is None:
                    ty = ""
                    extra = md.get(b"vgi_rpc.log_extra")
                    if extra:
                        try:
                            ty = json.loads(extra).get("exception_type", "")
                        except Exception:  # noqa: BLE001
                            ty = "?"
                    err = (ty, (md.get(b"vgi_rpc.log_message") or b"").decode("utf-8", "replace")[:160])
    except Exception as e:  # noqa: BLE001
        return "not_arrow", (type(e).__name__, str(e)[:100])
    return ("arrow_err" if err is not None else "arrow_ok"), err
