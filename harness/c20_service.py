"""C20 driver: real Falcon apps (make_wsgi_app) around services whose method names collide with
framework endpoints, a rejecting authenticator that records every call, and an invocation log of
every piece of service code (unary bodies, stream factories, stream-state hooks, upload-URL provider).

Everything the HTTP app resolves through ``typing.get_type_hints`` lives at module level.
"""
from __future__ import annotations

from dataclasses import dataclass
from typing import Any

import pyarrow as pa

from vgi_rpc.rpc import AnnotatedBatch, AuthContext, CallContext, OutputCollector, RpcServer, Stream, StreamState

LOG: list[str] = []          # service code that ran (cleared per request by the caller)
AUTH_CALLS: list[str] = []   # paths the authenticate callback was asked about


@dataclass
class C20State(StreamState):
    name: str = ""

    def process(self, input: AnnotatedBatch, out: OutputCollector, ctx: CallContext) -> None:
        LOG.append(f"process:{self.name}")
        out.finish()


def _unary(name: str) -> Any:
    def f(self: Any, a: int) -> int:
        LOG.append(f"unary:{name}")
        return a + 1

    f.__name__ = name
    return f


def _stream(name: str) -> Any:
    def g(self: Any, a: int) -> Stream[C20State]:
        LOG.append(f"stream:{name}")
        return Stream(output_schema=pa.schema([]), state=C20State(name=name))

    g.__name__ = name
    return g


def make_server(unary: list[str], stream: list[str]) -> RpcServer:
    """A real RpcServer whose Protocol declares the given method names (identifiers)."""
    assert not set(unary) & set(stream)
    ns: dict[str, Any] = {"Stream": Stream, "C20State": C20State}
    body = "from typing import Protocol\nclass C20P(Protocol):\n"
    for n in unary:
        body += f"    def {n}(self, a: int) -> int: ...\n"
    for n in stream:
        body += f"    def {n}(self, a: int) -> Stream[C20State]: ...\n"
    if not unary and not stream:
        body += "    pass\n"
    exec(body, ns)  # noqa: S102 - builds the Protocol class for these names
    impl = type("C20Impl", (), {**{n: _unary(n) for n in unary}, **{n: _stream(n) for n in stream}})()
    return RpcServer(ns["C20P"], impl, enable_describe=True)


class _Reject:
    """authenticate callback that rejects every request it is asked about (and records the ask)."""

    def __init__(self, exc: str) -> None:
        self.exc = exc

    def __call__(self, req: Any) -> AuthContext:
        AUTH_CALLS.append(req.path)
        if self.exc == "ValueError":
            raise ValueError("rejected by C20 harness")
        if self.exc == "PermissionError":
            raise PermissionError("rejected by C20 harness")
        if self.exc == "AuthFailure":
            from vgi_rpc.http import AuthFailure, AuthReason

            raise AuthFailure(AuthReason.INVALID_CREDENTIAL, "rejected by C20 harness")
        raise RuntimeError("unknown rejection kind")


GOOD_TOKEN = "c20-good-token"
BAD_TOKEN = "c20-bad-token"
EDGE_HEADER = "X-Edge-Verified"


class StatefulAuth:
    """Operator callback whose verdict is about the whole request and about *now*.

    Accepts iff the Authorization value it sees is ``Bearer GOOD_TOKEN``, the token is currently live and (when
    ``need_edge``) the request carries the proxy header.  Rejections raise ValueError (``perm`` False) or
    PermissionError (``perm`` True).  The scenario driver flips ``live`` / ``need_edge`` / ``perm`` between requests.
    Every invocation is recorded as (path, Authorization value seen, accepted)."""

    def __init__(self) -> None:
        self.live = True
        self.need_edge = False
        self.perm = False
        self.calls: list[tuple[str, str | None, bool]] = []

    def __call__(self, req: Any) -> AuthContext:
        seen = req.env.get("HTTP_AUTHORIZATION")
        ok = seen == f"Bearer {GOOD_TOKEN}" and self.live and (not self.need_edge or bool(req.get_header(EDGE_HEADER)))
        self.calls.append((req.path, seen, ok))
        AUTH_CALLS.append(req.path)
        if ok:
            return AuthContext(domain="c20", authenticated=True, principal="alice", claims={})
        if self.perm:
            raise PermissionError("rejected by C20 stateful callback")
        raise ValueError("rejected by C20 stateful callback")


def _upload_provider() -> Any:
    class Provider:
        def generate_upload_url(self, *a: Any, **k: Any) -> Any:
            LOG.append("upload_url")
            raise RuntimeError("C20 harness upload provider reached")

        def __getattr__(self, name: str) -> Any:
            def f(*a: Any, **k: Any) -> Any:
                LOG.append(f"upload_url:{name}")
                raise RuntimeError("C20 harness upload provider reached")

            return f

    return Provider()


def make_app(
    server: RpcServer,
    *,
    prefix: str,
    pkce: bool,
    health: bool,
    reject: str | None,
    sticky: bool = False,
    upload: bool = False,
    max_request_bytes: int | None = None,
    authenticate: Any = None,
) -> Any:
    """The real WSGI app.  ``reject`` None = no authenticate callback configured (unless ``authenticate`` is given)."""
    import logging
    import warnings

    from vgi_rpc.http import make_wsgi_app

    logging.getLogger("vgi_rpc").setLevel(logging.CRITICAL)
    logging.getLogger("vgi_rpc.http").setLevel(logging.CRITICAL)
    kw: dict[str, Any] = {}
    if pkce:
        from vgi_rpc.http import OAuthResourceMetadata

        kw["oauth_resource_metadata"] = OAuthResourceMetadata(
            resource=f"http://localhost{prefix}",
            authorization_servers=("http://127.0.0.1:1",),
            client_id="c20-client",
        )
    if upload:
        kw["upload_url_provider"] = _upload_provider()
    if sticky:
        kw["enable_sticky"] = True
    if max_request_bytes is not None:
        kw["max_request_bytes"] = max_request_bytes
    with warnings.catch_warnings():
        warnings.simplefilter("ignore")
        return make_wsgi_app(
            server,
            prefix=prefix,
            token_key=b"k" * 32,
            authenticate=authenticate if authenticate is not None else (None if reject is None else _Reject(reject)),
            enable_health_endpoint=health,
            **kw,
        )


def request_body(server: RpcServer, method: str) -> bytes:
    """A well-formed unary/stream-init request body for ``method`` when it exists, else a generic one."""
    from harness.rawrpc import request_bytes

    info = server._methods.get(method) if hasattr(server, "_methods") else None
    schema = info.params_schema if info is not None else pa.schema([pa.field("a", pa.int64())])
    if method == "__describe__":
        return request_bytes(method, pa.schema([]), None)
    return request_bytes(method, schema, {"a": 1})
