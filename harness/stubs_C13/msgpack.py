"""Minimal pure-Python stand-in for the ``msgpack`` package (not installed in this sandbox), used ONLY by the C13
driver so that the compact state codec of vgi_rpc.utils (serialize_compact / deserialize_compact) executes.

Implements the subset that codec uses: ``packb(obj, use_bin_type=True)`` and ``unpackb(data, raw=False)`` for
nil / bool / int (64-bit) / float64 / str / bin / array / map, in the real msgpack wire format.  Anything else
raises TypeError (packb) or ValueError (unpackb), as the real package does.
"""
from __future__ import annotations

import struct
from typing import Any

version = (1, 0, 0, "c13-stub")


def _pack(o: Any, out: bytearray) -> None:
    if o is None:
        out.append(0xC0)
    elif o is True:
        out.append(0xC3)
    elif o is False:
        out.append(0xC2)
    elif isinstance(o, int):
        if 0 <= o < 128:
            out.append(o)
        elif -32 <= o < 0:
            out.append(o & 0xFF)
        elif -(1 << 63) <= o < 0:
            out.append(0xD3)
            out += struct.pack(">q", o)
        elif o < (1 << 64):
            out.append(0xCF)
            out += struct.pack(">Q", o)
        else:
            raise OverflowError("Integer value out of range")
    elif isinstance(o, float):
        out.append(0xCB)
        out += struct.pack(">d", o)
    elif isinstance(o, str):
        b = o.encode("utf-8")
        n = len(b)
        if n < 32:
            out.append(0xA0 | n)
        elif n < 256:
            out += bytes([0xD9, n])
        elif n < 65536:
            out.append(0xDA)
            out += struct.pack(">H", n)
        else:
            out.append(0xDB)
            out += struct.pack(">I", n)
        out += b
    elif isinstance(o, (bytes, bytearray, memoryview)):
        b = bytes(o)
        n = len(b)
        if n < 256:
            out += bytes([0xC4, n])
        elif n < 65536:
            out.append(0xC5)
            out += struct.pack(">H", n)
        else:
            out.append(0xC6)
            out += struct.pack(">I", n)
        out += b
    elif isinstance(o, (list, tuple)):
        n = len(o)
        if n < 16:
            out.append(0x90 | n)
        elif n < 65536:
            out.append(0xDC)
            out += struct.pack(">H", n)
        else:
            out.append(0xDD)
            out += struct.pack(">I", n)
        for x in o:
            _pack(x, out)
    elif isinstance(o, dict):
        n = len(o)
        if n < 16:
            out.append(0x80 | n)
        elif n < 65536:
            out.append(0xDE)
            out += struct.pack(">H", n)
        else:
            out.append(0xDF)
            out += struct.pack(">I", n)
        for k, v in o.items():
            _pack(k, out)
            _pack(v, out)
    else:
        raise TypeError(f"can not serialize {type(o).__name__!r} object")


def packb(o: Any, use_bin_type: bool = True, **_kw: Any) -> bytes:
    out = bytearray()
    _pack(o, out)
    return bytes(out)


class _R:
    def __init__(self, data: bytes) -> None:
        self.d = data
        self.p = 0

    def take(self, n: int) -> bytes:
        if self.p + n > len(self.d):
            raise ValueError("Unpack failed: incomplete input")
        b = self.d[self.p : self.p + n]
        self.p += n
        return b

    def u(self, fmt: str) -> Any:
        return struct.unpack(fmt, self.take(struct.calcsize(fmt)))[0]


def _unpack(r: _R) -> Any:
    t = r.take(1)[0]
    if t < 0x80:
        return t
    if t >= 0xE0:
        return t - 256
    if 0x80 <= t <= 0x8F:
        return _map(r, t & 0x0F)
    if 0x90 <= t <= 0x9F:
        return [_unpack(r) for _ in range(t & 0x0F)]
    if 0xA0 <= t <= 0xBF:
        return r.take(t & 0x1F).decode("utf-8")
    if t == 0xC0:
        return None
    if t == 0xC2:
        return False
    if t == 0xC3:
        return True
    if t == 0xC4:
        return r.take(r.u(">B"))
    if t == 0xC5:
        return r.take(r.u(">H"))
    if t == 0xC6:
        return r.take(r.u(">I"))
    if t == 0xCA:
        return r.u(">f")
    if t == 0xCB:
        return r.u(">d")
    if t == 0xCC:
        return r.u(">B")
    if t == 0xCD:
        return r.u(">H")
    if t == 0xCE:
        return r.u(">I")
    if t == 0xCF:
        return r.u(">Q")
    if t == 0xD0:
        return r.u(">b")
    if t == 0xD1:
        return r.u(">h")
    if t == 0xD2:
        return r.u(">i")
    if t == 0xD3:
        return r.u(">q")
    if t == 0xD9:
        return r.take(r.u(">B")).decode("utf-8")
    if t == 0xDA:
        return r.take(r.u(">H")).decode("utf-8")
    if t == 0xDB:
        return r.take(r.u(">I")).decode("utf-8")
    if t == 0xDC:
        return [_unpack(r) for _ in range(r.u(">H"))]
    if t == 0xDD:
        return [_unpack(r) for _ in range(r.u(">I"))]
    if t == 0xDE:
        return _map(r, r.u(">H"))
    if t == 0xDF:
        return _map(r, r.u(">I"))
    raise ValueError(f"Unpack failed: unsupported type byte 0x{t:02x}")


def _map(r: _R, n: int) -> dict[Any, Any]:
    out: dict[Any, Any] = {}
    for _ in range(n):
        k = _unpack(r)
        out[k] = _unpack(r)
    return out


def unpackb(data: Any, raw: bool = False, **_kw: Any) -> Any:
    r = _R(bytes(data))
    v = _unpack(r)
    if r.p != len(r.d):
        raise ValueError("unpack(b) received extra data.")
    return v
