"""C12 driver: a small stream service behind the REAL Falcon app, with a hook log, a header-driven
authenticator and a logical clock for the token layer.

Everything is module level because the HTTP app resolves the type hints of the service methods.
"""
from __future__ import annotations

import base64
from dataclasses import dataclass
from typing import Any, ClassVar, Protocol

import pyarrow as pa

from vgi_rpc.rpc import AnnotatedBatch, AuthContext, CallContext, OutputCollector, RpcServer, Stream, StreamState
from vgi_rpc.utils import ArrowSerializableDataclass

LOG: list[str] = []

SECRET = "C12-PLAINTEXT-MARKER-7f3a9c51e2"
ARROW_CT = "application/vnd.apache.arrow.stream"


@dataclass(frozen=True)
class ExCall(ArrowSerializableDataclass):
    """Immutable per-stream call state (travels in the call token)."""

    label: str = ""

    @classmethod
    def deserialize_from_bytes(cls, *a: Any, **k: Any) -> Any:
        LOG.append("deserialize_call")
        return super().deserialize_from_bytes(*a, **k)


@dataclass
class ExState(StreamState):
    """Cursor state of the exchange stream (travels in the cursor token)."""

    CALL_STATE_TYPE: ClassVar[type[ArrowSerializableDataclass] | None] = ExCall
    n: int = 0
    secret: str = ""

    @classmethod
    def deserialize_from_bytes(cls, *a: Any, **k: Any) -> Any:
        LOG.append("deserialize_state")
        return super().deserialize_from_bytes(*a, **k)

    def bind_call_state(self, call_state: Any) -> None:
        LOG.append("bind_call_state")

    def rehydrate(self, implementation: object) -> None:
        LOG.append("rehydrate")

    def on_cancel(self, ctx: CallContext) -> None:
        LOG.append("on_cancel")

    def process(self, input: AnnotatedBatch, out: OutputCollector, ctx: CallContext) -> None:
        LOG.append("process")
        self.n += 1
        out.emit_pydict({"y": [self.n]})


@dataclass
class ProdState(StreamState):
    """Cursor state of the producer stream (no call state)."""

    n: int = 0
    limit: int = 0
    pad: str = ""

    @classmethod
    def deserialize_from_bytes(cls, *a: Any, **k: Any) -> Any:
        LOG.append("deserialize_state")
        return super().deserialize_from_bytes(*a, **k)

    def bind_call_state(self, call_state: Any) -> None:
        LOG.append("bind_call_state")

    def rehydrate(self, implementation: object) -> None:
        LOG.append("rehydrate")

    def on_cancel(self, ctx: CallContext) -> None:
        LOG.append("on_cancel")

    def process(self, input: AnnotatedBatch, out: OutputCollector, ctx: CallContext) -> None:
        LOG.append("process")
        if self.n >= self.limit:
            out.finish()
            return
        self.n += 1
        out.emit_pydict({"y": [self.n]})


class C12Protocol(Protocol):
    def ex(self, a: int, label: str) -> Stream[ExState]: ...
    def prod(self, limit: int, pad: str) -> Stream[ProdState]: ...


OUT_SCHEMA = pa.schema([("y", pa.int64())])
IN_SCHEMA = pa.schema([("x", pa.int64())])


class C12Impl:
    def ex(self, a: int, label: str) -> Stream[ExState]:
        LOG.append("init")
        return Stream(output_schema=OUT_SCHEMA, state=ExState(n=a, secret=SECRET + label), input_schema=IN_SCHEMA, call_state=ExCall(label=label))

    def prod(self, limit: int, pad: str) -> Stream[ProdState]:
        LOG.append("init")
        return Stream(output_schema=OUT_SCHEMA, state=ProdState(n=0, limit=limit, pad=pad))


# ---- identities -------------------------------------------------------------
# None = anonymous; otherwise (domain | None, principal | None) of an authenticated AuthContext
Identity = tuple[str | None, str | None] | None
IDENT_HEADER = "X-C12-Ident"


def ident_header(i: Identity) -> dict[str, str]:
    if i is None:
        return {}
    d, p = i
    enc = lambda s: "-" if s is None else "+" + base64.urlsafe_b64encode(s.encode()).decode()  # noqa: E731
    return {IDENT_HEADER: enc(d) + "," + enc(p)}


def authenticate(req: Any) -> AuthContext:
    h = req.get_header(IDENT_HEADER)
    if h is None:
        return AuthContext.anonymous()
    parts = h.split(",")
    dec = lambda s: None if s == "-" else base64.urlsafe_b64decode(s[1:].encode()).decode()  # noqa: E731
    return AuthContext(domain=dec(parts[0]), authenticated=True, principal=dec(parts[1]))


# ---- logical clock for the token layer --------------------------------------
class Clock:
    """Stands in for the ``time`` module inside vgi_rpc.http.server._state_token."""

    def __init__(self, real: Any) -> None:
        self._real = real
        self.script: list[float] = []  # successive answers; the last one repeats
        self.reads = 0

    def time(self) -> float:
        self.reads += 1
        if not self.script:
            return float(self._real.time())
        return self.script.pop(0) if len(self.script) > 1 else self.script[0]

    def __getattr__(self, name: str) -> Any:
        return getattr(self._real, name)


def install_clock() -> Clock:
    import vgi_rpc.http.server._state_token as st

    if isinstance(st.time, Clock):
        return st.time
    clk = Clock(st.time)
    st.time = clk  # type: ignore[assignment]
    return clk


def install_cache_clock(now: float) -> Clock:
    """Pin ``time.time`` inside vgi_rpc.http.server._app_stream (the call-state cache's clock) to a constant.

    The cache TTL equals token_ttl (100 s in the C12 apps) and is measured on the real clock; a long run would
    otherwise see its warm entries expire in real time.  time.monotonic etc. pass through untouched.
    """
    import vgi_rpc.http.server._app_stream as ap

    if isinstance(ap.time, Clock):
        clk = ap.time
    else:
        clk = Clock(ap.time)
        ap.time = clk  # type: ignore[assignment]
    clk.script = [float(now)]
    return clk


def make_server() -> RpcServer:
    return RpcServer(C12Protocol, C12Impl())


def make_app(server: RpcServer, key: bytes, ttl: int, cache_entries: int, **kw: Any) -> Any:
    from vgi_rpc.http import make_wsgi_app

    return make_wsgi_app(
        server,
        prefix="",
        token_key=key,
        authenticate=authenticate,
        token_ttl=ttl,
        call_state_cache_entries=cache_entries,
        enable_landing_page=False,
        enable_not_found_page=False,
        enable_describe_page=False,
        **kw,
    )
