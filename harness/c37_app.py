"""Drivers for C37: the real OAuth PKCE browser flow in-process, and the Node WHATWG oracle."""
from __future__ import annotations

import contextlib
import json
import subprocess
from pathlib import Path
from typing import Any, Iterator, Protocol
from unittest.mock import patch

TOKEN_KEY = b"c37-token-key-32-bytes-long!!!!!"
AUTH_ENDPOINT = "https://idp.example/authorize"
TOKEN_ENDPOINT = "https://idp.example/token"
OIDC = {"authorization_endpoint": AUTH_ENDPOINT, "token_endpoint": TOKEN_ENDPOINT, "issuer": "https://idp.example"}
GOOD_TOKEN = "good-token"
EXCHANGED = ("tok.en-value", 3600, "refresh/to ken", None)


class C37Service(Protocol):
    def echo(self, message: str) -> str: ...


class C37Impl:
    def echo(self, message: str) -> str:
        return message


def _authenticate(req: Any) -> Any:
    from vgi_rpc.rpc import AuthContext

    h = req.get_header("Authorization") or ""
    if h != f"Bearer {GOOD_TOKEN}":
        raise ValueError("bad credentials")
    return AuthContext(domain="c37", authenticated=True, principal="u", claims={})


class _Quiet:
    """TestClient whose wsgi.errors stream is kept (Falcon prints the traceback of every 500 there)."""

    def __init__(self, client: Any) -> None:
        import io

        self.client = client
        self.errors = io.StringIO()

    def simulate_get(self, *a: Any, **k: Any) -> Any:
        k.setdefault("extras", {})["wsgi.errors"] = self.errors
        return self.client.simulate_get(*a, **k)

    def wsgi_get(self, path: str, query: str = "", headers: dict[str, str] | None = None) -> tuple[int, list[tuple[str, str]]]:
        """GET against the WSGI app itself (no wsgiref validator in between, which refuses some header values).
        `path` is percent-encoded as on the wire; the WSGI layer decodes it."""
        import falcon.testing

        environ = falcon.testing.create_environ(path=path, query_string=query, headers=headers or {})
        environ["wsgi.errors"] = self.errors
        got: dict[str, Any] = {}

        def start_response(status: str, hdrs: list[tuple[str, str]], exc_info: Any = None) -> None:
            got["status"] = int(status.split()[0])
            got["headers"] = hdrs

        for _ in self.client.app(environ, start_response):
            pass
        return got["status"], got["headers"]


def header_values(hdrs: list[tuple[str, str]], name: str) -> list[str]:
    return [v for k, v in hdrs if k.lower() == name.lower()]


@contextlib.contextmanager
def pkce_app(prefix: str, resource: str = "https://svc.example/vgi") -> Iterator[Any]:
    """Falcon TestClient over make_wsgi_app with the PKCE browser flow active; OIDC discovery and the
    token exchange (the only outbound HTTP) are replaced."""
    import logging

    import falcon.testing
    from vgi_rpc.http import OAuthResourceMetadata, make_wsgi_app

    logging.getLogger("falcon").setLevel(logging.CRITICAL)  # a ValueError out of the validator is a 500, observed as such
    from vgi_rpc.rpc import RpcServer

    resp = type("R", (), {"status_code": 200, "raise_for_status": lambda s: None, "json": lambda s: OIDC})()
    client = type("C", (), {"get": lambda s, *a, **k: resp, "__enter__": lambda s: s, "__exit__": lambda *a: None})()
    meta = OAuthResourceMetadata(
        resource=resource,
        authorization_servers=("https://idp.example",),
        client_id="client-id",
        client_secret="client-secret",
        use_id_token_as_bearer=False,
        resource_name="C37",
    )
    with patch("vgi_rpc.http._oauth_pkce.httpx2.Client") as cls, patch("vgi_rpc.http._oauth_pkce._exchange_code_for_token") as ex:
        cls.return_value = client
        ex.return_value = EXCHANGED
        server = RpcServer(C37Service, C37Impl(), enable_describe=True)
        app = make_wsgi_app(server, prefix=prefix, token_key=TOKEN_KEY, authenticate=_authenticate, oauth_resource_metadata=meta, compression_level=None)
        yield _Quiet(falcon.testing.TestClient(app))


def node_origins(pairs: list[tuple[str, str]], timeout: int = 300) -> list[dict[str, Any]]:
    """[(url, base)] -> Node 20 `new URL(url, base)`: {ok, origin, protocol, hostname, port}."""
    js = Path(__file__).with_name("c37_whatwg.js")
    p = subprocess.run(["node", str(js)], input=json.dumps(pairs), capture_output=True, text=True, timeout=timeout)
    if p.returncode != 0:
        raise RuntimeError("node oracle failed: " + p.stderr[-400:])
    out = json.loads(p.stdout)
    assert len(out) == len(pairs)
    return out
