// WHATWG URL oracle for C37: stdin = JSON [[url, base], ...]; stdout = JSON [{ok, origin, protocol, hostname, port}, ...]
let data = '';
process.stdin.setEncoding('utf8');
process.stdin.on('data', (c) => { data += c; });
process.stdin.on('end', () => {
  const cases = JSON.parse(data);
  const out = cases.map(([u, b]) => {
    try {
      const x = new URL(u, b);
      return { ok: true, origin: x.origin, protocol: x.protocol, hostname: x.hostname, port: x.port };
    } catch (e) {
      return { ok: false };
    }
  });
  process.stdout.write(JSON.stringify(out));
});
