"""C08 externalised leg: stream steps that log BEFORE and AFTER their data batch, through every emission channel,
served by the real RpcServer with and without an ExternalLocationConfig (in-memory storage of harness.interp).

Program: {"steps": [{"pre": [log...], "rows": int, "post": [log...]}]},  log = [level, message, {extra: str}, channel]
channel: "out" = out.client_log(...), "ctx" = ctx.client_log(...), "msg" = ctx.emit_client_log(Message(...)),
         "outmsg" = out.emit_client_log_message(Message(...)).
Client: producer iterated to exhaustion / exchange of len(steps) inputs then close().
Trace events: ["log", level, message, extras] ["batch", rows, None, None] ["done"] ["error", type, message]
["client_exc", type, text] ["blocked"].
"""
from __future__ import annotations

import threading
from dataclasses import dataclass
from typing import Any, Protocol

import pyarrow as pa

from vgi_rpc.log import Level, Message
from vgi_rpc.rpc import AnnotatedBatch, CallContext, OutputCollector, RpcError, RpcServer, Stream, StreamState

OUT = pa.schema([pa.field("v", pa.int64())])
INP = pa.schema([pa.field("x", pa.int64())])
PROGRAMS: dict[int, dict[str, Any]] = {}


def _emit(logs: list[Any], out: OutputCollector, ctx: CallContext) -> None:
    for lvl, msg, extra, ch in logs:
        if ch == "out":
            out.client_log(Level(lvl), msg, **extra)
        elif ch == "ctx":
            ctx.client_log(Level(lvl), msg, **extra)
        else:
            m = Message(Level(lvl), msg)
            m.extra = dict(extra) or None
            if ch == "msg":
                ctx.emit_client_log(m)
            else:
                out.emit_client_log_message(m)


def _step(state: Any, out: OutputCollector, ctx: CallContext, producer: bool) -> None:
    steps = PROGRAMS[state.pid]["steps"]
    i = state.i
    state.i = i + 1
    if i >= len(steps):
        if producer:
            out.finish()
        else:
            out.emit_pydict({"v": []})
        return
    st = steps[i]
    _emit(st["pre"], out, ctx)
    out.emit_pydict({"v": [i] * int(st["rows"])})
    _emit(st["post"], out, ctx)


@dataclass
class ExtProd(StreamState):
    """Producer cursor."""

    pid: int
    i: int = 0

    def process(self, input: AnnotatedBatch, out: OutputCollector, ctx: CallContext) -> None:  # noqa: A002
        _step(self, out, ctx, True)


@dataclass
class ExtExch(StreamState):
    """Exchange cursor."""

    pid: int
    i: int = 0

    def process(self, input: AnnotatedBatch, out: OutputCollector, ctx: CallContext) -> None:  # noqa: A002
        _step(self, out, ctx, False)


class ExtSvc(Protocol):
    """Steps with logs on both sides of the data batch."""

    def prod(self, pid: int) -> Stream[ExtProd]: ...

    def exch(self, pid: int) -> Stream[ExtExch]: ...


class ExtImpl:
    def prod(self, pid: int) -> Stream[ExtProd]:
        return Stream(output_schema=OUT, state=ExtProd(pid=pid))

    def exch(self, pid: int) -> Stream[ExtExch]:
        return Stream(output_schema=OUT, state=ExtExch(pid=pid), input_schema=INP)


_HTTP: dict[bool, Any] = {}


def _play(proxy: Any, method: str, pid: int, ev: list[list[Any]]) -> None:
    n = len(PROGRAMS[pid]["steps"])
    try:
        sess = getattr(proxy, method)(pid=pid)
        if method == "prod":
            for ab in sess:
                ev.append(["batch", ab.batch.num_rows, None, None])
            ev.append(["done"])
        else:
            for j in range(n):
                ab = sess.exchange(AnnotatedBatch.from_pydict({"x": [j]}, schema=INP))
                ev.append(["batch", ab.batch.num_rows, None, None])
            sess.close()
    except RpcError as e:
        ev.append(["error", e.error_type, e.error_message])
    except BaseException as e:  # noqa: BLE001 - the observation
        ev.append(["client_exc", type(e).__name__, str(e)[:200]])


def run(transport: str, externalize: bool, method: str, pid: int, timeout: float = 20.0) -> tuple[list[list[Any]], int]:
    """One call on a fresh connection.  Returns (trace, number of uploads made during it)."""
    from harness import interp as I

    cfg = I.external_config(0) if externalize else None
    ev: list[list[Any]] = []

    def on_log(m: Message) -> None:
        ev.append(["log", m.level.value, m.message, {k: v for k, v in (m.extra or {}).items() if k not in ("server_id", "request_id")}])

    before = len(I.MemStorage.data)

    def body() -> None:
        if transport == "pipe":
            from vgi_rpc.rpc import serve_pipe

            with serve_pipe(ExtSvc, ExtImpl(), on_log=on_log, external_location=cfg) as proxy:
                _play(proxy, method, pid, ev)
        else:
            from vgi_rpc.http import http_connect
            from vgi_rpc.http._testing import make_sync_client

            client = _HTTP.get(externalize)
            if client is None:
                client = make_sync_client(RpcServer(ExtSvc, ExtImpl(), external_location=cfg), token_key=b"verif-c08-ext-token-key-0123456789",
                                          enable_landing_page=False, enable_describe_page=False, enable_not_found_page=False)
                _HTTP[externalize] = client
            with http_connect(ExtSvc, client=client, on_log=on_log, external_location=cfg) as proxy:
                _play(proxy, method, pid, ev)

    t = threading.Thread(target=body, daemon=True, name="c08-ext")
    t.start()
    t.join(timeout)
    if t.is_alive():
        return list(ev) + [["blocked"]], len(I.MemStorage.data) - before
    return list(ev), len(I.MemStorage.data) - before
