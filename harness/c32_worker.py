"""Worker service for property C32 (pool).  Runs either as a real subprocess
(``python -m harness.c32_worker`` -> ``vgi_rpc.rpc.run_server`` over stdin/stdout) or in-process behind the
fake SubprocessTransport of harness/c32_sched.py.

Every call carries a *token*; every response echoes it, so a caller that reads somebody else's response is
detected by comparing values.  Every read position of the client has LOGS_PER_READ log batches in front of the
data batch, so that an ``on_log`` callback can raise at every read position:

  echo(token)            unary:   log, log, result
  gen(token)             stream with header: (log, log, header) then per tick: log, log, data(token, i);
                         on cancel: log, log, end of stream
"""
from __future__ import annotations

from dataclasses import dataclass
from typing import Protocol

import pyarrow as pa

from vgi_rpc.log import Level
from vgi_rpc.rpc import AnnotatedBatch, CallContext, OutputCollector, Stream, StreamState, run_server
from vgi_rpc.utils import ArrowSerializableDataclass

LOGS_PER_READ = 2
GEN_SCHEMA = pa.schema([pa.field("token", pa.int64()), pa.field("i", pa.int64())])


@dataclass(frozen=True)
class C32Header(ArrowSerializableDataclass):
    token: int


@dataclass
class C32GenState(StreamState):
    token: int
    i: int = 0

    def process(self, input: AnnotatedBatch, out: OutputCollector, ctx: CallContext) -> None:
        for k in range(LOGS_PER_READ):
            out.client_log(Level.INFO, f"tick-log {self.token} {self.i} {k}")
        out.emit_pydict({"token": [self.token], "i": [self.i]})
        self.i += 1

    def on_cancel(self, ctx: CallContext) -> None:
        # the client meets these while cancel() discards the rest of the output stream
        for k in range(LOGS_PER_READ):
            ctx.client_log(Level.INFO, f"cancel-log {self.token} {k}")


class C32Service(Protocol):
    def echo(self, token: int) -> int: ...

    def gen(self, token: int) -> Stream[C32GenState, C32Header]: ...


class C32Impl:
    def echo(self, token: int, ctx: CallContext | None = None) -> int:
        if ctx:
            for k in range(LOGS_PER_READ):
                ctx.client_log(Level.INFO, f"echo-log {token} {k}")
        return token

    def gen(self, token: int, ctx: CallContext | None = None) -> Stream[C32GenState, C32Header]:
        if ctx:
            for k in range(LOGS_PER_READ):
                ctx.client_log(Level.INFO, f"init-log {token} {k}")
        return Stream(output_schema=GEN_SCHEMA, state=C32GenState(token=token), header=C32Header(token=token))


def main() -> None:
    run_server(C32Service, C32Impl())


if __name__ == "__main__":
    main()
