"""C02 harness: echo services built at run time, real drivers (socket family, pipe threads, HTTP),
value generators, encoders to Coq terms, and the property's own equality.

Type descriptors (plain tuples, mirrored by coq/model/M_Values.v `ty`):
  ("int", signed, bits) ("float", 32|64) ("str",) ("bytes",) ("bool",) ("enum", k) ("data", k) ("date",)
  ("ts", unit, tz) ("time", unit) ("dur", unit) ("dec", p, s) ("opt", t) ("list", t) ("set", t) ("map", k, v)
"""
from __future__ import annotations

import datetime as dt
import enum
import io
import math
import struct
import threading
from dataclasses import dataclass, field
from decimal import Decimal
from typing import Annotated, Any, Optional, Protocol  # noqa: F401  (names used by exec'd sources)

import pyarrow as pa
from pyarrow import ipc

from vgi_rpc.rpc import RpcError, RpcServer
from vgi_rpc.utils import ArrowSerializableDataclass, ArrowType, IpcValidation, ValidatedReader


# ------------------------------------------------------------------ declared classes (module level: get_type_hints)
class Color(enum.Enum):
    RED = "r"           # value differs from name
    GREEN = 2
    BLUE = "BLUE"
    CRIMSON = "r"       # alias of RED


Weird = enum.Enum("Weird", {"é": "N1", "N1": "N2", "N2": "é", "with space": 0})  # a value that is another member's name



class Unit(enum.Enum):
    """One member's VALUE is the NAME of a later member (abbreviation-style codes)."""

    M = "MIN"
    MIN = "MINIMUM"
    MAX = "MAXIMUM"


class Side(enum.Enum):
    """Each member's value is the other member's name."""

    LEFT = "RIGHT"
    RIGHT = "LEFT"


ENUMS = [Color, Weird, Unit, Side]


@dataclass(frozen=True)
class Pt(ArrowSerializableDataclass):
    x: int
    y: float
    tag: str = "t"


@dataclass(frozen=True)
class Box(ArrowSerializableDataclass):
    corner: Pt
    sizes: list[int] = field(default_factory=list)
    label: str | None = None
    hue: Color = Color.GREEN


@dataclass(frozen=True)
class Reading(ArrowSerializableDataclass):
    """Enums with name/value overlap in every field position: direct, Optional, list element, dict value, set element."""

    amount: int
    unit: Unit
    side: Side | None = None
    history: list[Unit] = field(default_factory=list)
    by_key: dict[str, Side] = field(default_factory=dict)
    marks: frozenset[Unit] = frozenset()


@dataclass(frozen=True)
class Log(ArrowSerializableDataclass):
    """Dataclasses carrying such enums, nested directly and as list elements."""

    first: Reading
    rest: list[Reading] = field(default_factory=list)
    last: Reading | None = None


@dataclass(frozen=True)
class Query(ArrowSerializableDataclass):
    """Optional fields whose default is NOT None (default= and default_factory=): an explicit None is a value."""

    text: str = "q"
    limit: int | None = 10
    ratio: float | None = 0.5
    label: str | None = "lbl"
    side: Side | None = Side.RIGHT
    tags: list[str] | None = field(default_factory=lambda: ["a"])
    opts: dict[str, int] | None = field(default_factory=lambda: {"k": 1})
    origin: Pt | None = field(default_factory=lambda: Pt(1, 2.0))
    flag: bool | None = True
    none_default: int | None = None


@dataclass(frozen=True)
class Batch(ArrowSerializableDataclass):
    """Such dataclasses nested, as list elements, and as an Optional field with a non-None default factory."""

    head: Query
    rest: list[Query] = field(default_factory=list)
    fallback: Query | None = field(default_factory=Query)


# Inherited dataclass families (NOT in DATAS: nothing else in the process may serialize them, the ORDER of first
# serializations is the point).  Family A is exercised parent first, family B leaf first.
def _family(suffix: str) -> dict[str, type]:
    ns: dict[str, Any] = {"dataclass": dataclass, "field": field, "ArrowSerializableDataclass": ArrowSerializableDataclass, "Color": Color}
    exec(  # noqa: S102 - two structurally identical, distinct class families (compiled without this module's __future__ flags)
      compile(
        f"""
@dataclass(frozen=True)
class Shape{suffix}(ArrowSerializableDataclass):
    x: int
    y: int = 0

@dataclass(frozen=True)
class Labeled{suffix}(Shape{suffix}):          # child adding defaulted fields
    label: str = ""
    weight: float | None = None
    hue: Color = Color.GREEN

@dataclass(frozen=True, kw_only=True)
class Tagged{suffix}(Shape{suffix}):           # sibling child adding a NON-defaulted field
    tag: str
    n: int = 1

@dataclass(frozen=True)
class Deep{suffix}(Labeled{suffix}):           # grandchild
    extra: list[int] = field(default_factory=list)
    note: str | None = "n"
""", "<c02-family>", "exec", dont_inherit=True),
        ns,
    )
    return {k: v for k, v in ns.items() if isinstance(v, type) and k.endswith(suffix) and k != "Color"}


FAMILY_A = _family("A")
FAMILY_B = _family("B")
_NS_FAMILIES = {**FAMILY_A, **FAMILY_B}


def inheritance_plan() -> list[tuple[str, Any]]:
    """(class name, instance) in the order the echo calls must be made, all in this one process:
    family A  parent, child, parent again, sibling, grandchild, child, parent;  family B  grandchild, child, parent, sibling, child."""
    a, b = FAMILY_A, FAMILY_B
    return [
        ("ShapeA", a["ShapeA"](1, 2)),
        ("LabeledA", a["LabeledA"](3, 4, "café", -0.0, Color.RED)),
        ("ShapeA", a["ShapeA"](5)),
        ("TaggedA", a["TaggedA"](x=6, y=7, tag="t", n=8)),
        ("DeepA", a["DeepA"](9, 10, "lbl", 1.5, Color.BLUE, [1, 2], None)),
        ("LabeledA", a["LabeledA"](11)),
        ("ShapeA", a["ShapeA"](-1, -2)),
        ("DeepB", b["DeepB"](1, 2, "é", 2.5, Color.RED, [3], "note")),
        ("LabeledB", b["LabeledB"](3, 4, "café", -0.0)),
        ("ShapeB", b["ShapeB"](5, 6)),
        ("TaggedB", b["TaggedB"](x=7, tag="")),
        ("LabeledB", b["LabeledB"](8, 9, "x", None, Color.BLUE)),
        ("DeepB", b["DeepB"](0)),
    ]


def build_inheritance_service() -> tuple[type, Any]:
    """def <Class>(self, v: C) -> C  and  def opt_<Class>(self, v: C | None) -> C | None  for every class of both families."""
    ns = dict(_NS)
    ns.update(_NS_FAMILIES)
    ns["SEEN"] = SEEN
    src, imp = ["class P(Protocol):"], ["class Impl:"]
    for name in _NS_FAMILIES:
        for meth, ann in ((name, name), ("opt_" + name, f"{name} | None")):
            src.append(f"    def {meth}(self, v: {ann}) -> {ann}: ...")
            imp.append(f"    def {meth}(self, v: {ann}) -> {ann}:\n        SEEN.append(v)\n        return v")
    exec("\n".join(src) + "\n" + "\n".join(imp) + "\n", ns)  # noqa: S102
    return ns["P"], ns["Impl"]()


ALL_NONE_QUERY = dict(limit=None, ratio=None, label=None, side=None, tags=None, opts=None, origin=None, flag=None)
DATAS = [Pt, Box, Reading, Log, Query, Batch]
UNITS = {"s": 1_000_000, "ms": 1_000, "us": 1, "ns": 1}
EPOCH = dt.datetime(1970, 1, 1)
EPOCH_AWARE = dt.datetime(1970, 1, 1, tzinfo=dt.timezone.utc)
EPOCH_DATE = dt.date(1970, 1, 1)

T = tuple  # a type descriptor


# ------------------------------------------------------------------ annotation source / objects
def ann_src(t: T) -> str:
    k = t[0]
    if k == "int":
        if t[1] and t[2] == 64:
            return "int"
        return f"Annotated[int, ArrowType(pa.{'' if t[1] else 'u'}int{t[2]}())]"
    if k == "float":
        return "float" if t[1] == 64 else "Annotated[float, ArrowType(pa.float32())]"
    if k in ("str", "bytes", "bool"):
        return k
    if k == "enum":
        return ENUMS[t[1]].__name__
    if k == "data":
        return DATAS[t[1]].__name__
    if k == "date":
        return "Annotated[dt.date, ArrowType(pa.date32())]"
    if k == "ts":
        tz = ", tz='UTC'" if t[2] else ""
        return f"Annotated[dt.datetime, ArrowType(pa.timestamp('{t[1]}'{tz}))]"
    if k == "time":
        return f"Annotated[dt.time, ArrowType(pa.time{'32' if t[1] in ('s', 'ms') else '64'}('{t[1]}'))]"
    if k == "dur":
        return f"Annotated[dt.timedelta, ArrowType(pa.duration('{t[1]}'))]"
    if k == "dec":
        return f"Annotated[Decimal, ArrowType(pa.decimal128({t[1]}, {t[2]}))]"
    if k == "opt":  # ("opt", t [, "bar" | "typing"]): the spelling  X | None  or  Optional[X]
        inner = ann_src(t[1])
        how = t[2] if len(t) > 2 else ("typing" if inner.startswith("Annotated") else "bar")
        return f"Optional[{inner}]" if how == "typing" else f"{inner} | None"
    if k == "ann":  # ("ann", t [, "arrow"]): Annotated[T, metadata] / Annotated[plain T, ArrowType(the Arrow type of T)]
        if len(t) > 2 and t[2] == "arrow":
            return f"Annotated[{plain_src(t[1])}, ArrowType({arrow_src(t[1])})]"
        return f"Annotated[{ann_src(t[1])}, 'meta', 42]"
    if k == "list":
        return f"list[{ann_src(t[1])}]"
    if k == "set":
        return f"frozenset[{ann_src(t[1])}]"
    if k == "map":
        return f"dict[{ann_src(t[1])}, {ann_src(t[2])}]"
    raise ValueError(t)


def plain_src(t: T) -> str:
    """The bare Python type of t (no Annotated inside): what an explicit ArrowType override is attached to."""
    k = t[0]
    if k in ("int", "float", "str", "bytes", "bool"):
        return k
    if k == "opt":
        return f"{plain_src(t[1])} | None"
    if k == "ann":
        return plain_src(t[1])
    if k == "list":
        return f"list[{plain_src(t[1])}]"
    if k == "set":
        return f"frozenset[{plain_src(t[1])}]"
    if k == "map":
        return f"dict[{plain_src(t[1])}, {plain_src(t[2])}]"
    raise ValueError(t)


def arrow_src(t: T) -> str:
    """The Arrow type _infer_arrow_type gives t, as source (for ArrowType(...) overrides)."""
    k = t[0]
    if k == "int":
        return f"pa.{'' if t[1] else 'u'}int{t[2]}()"
    if k == "float":
        return f"pa.float{t[1]}()"
    if k in ("str", "bytes", "bool"):
        return {"str": "pa.string()", "bytes": "pa.binary()", "bool": "pa.bool_()"}[k]
    if k in ("opt", "ann"):
        return arrow_src(t[1])
    if k in ("list", "set"):
        return f"pa.list_({arrow_src(t[1])})"
    if k == "map":
        return f"pa.map_({arrow_src(t[1])}, {arrow_src(t[2])})"
    raise ValueError(t)


def norm(t: T) -> T:
    """The annotation without its spelling: Annotated wrappers and Optional spelling tags removed (the property's view:
    Annotated[X | None, m] IS an optional X)."""
    k = t[0]
    if k == "ann":
        return norm(t[1])
    if k == "opt":
        return ("opt", norm(t[1]))
    if k in ("list", "set"):
        return (k, norm(t[1]))
    if k == "map":
        return ("map", norm(t[1]), norm(t[2]))
    return t


_NS: dict[str, Any] = {
    "Annotated": Annotated, "ArrowType": ArrowType, "pa": pa, "dt": dt, "Decimal": Decimal, "Optional": Optional,
    "Protocol": Protocol, "Color": Color, "Weird": Weird, "Unit": Unit, "Side": Side, "Pt": Pt, "Box": Box, "Reading": Reading, "Log": Log, "Query": Query, "Batch": Batch,
}


def ann_obj(t: T) -> Any:
    return eval(ann_src(t), dict(_NS))  # noqa: S307 - our own generated annotation source


SEEN: list[Any] = []


def build_service(sigs: list[tuple[T, bool, Any]]) -> tuple[type, Any, dict[str, Any]]:
    """One Protocol + implementation with an echo method per signature (type, has_default, default)."""
    ns = dict(_NS)
    ns["SEEN"] = SEEN
    defaults: dict[str, Any] = {}
    src = ["class P(Protocol):"]
    imp = ["class Impl:"]
    for i, (t, has_default, default) in enumerate(sigs):
        a = ann_src(t)
        d = ""
        if has_default:
            defaults[f"D{i}"] = default
            d = f" = D{i}"
        src.append(f"    def m{i}(self, v: {a}{d}) -> {a}: ...")
        imp.append(f"    def m{i}(self, v: {a}{d}) -> {a}:\n        SEEN.append(v)\n        return v")
    ns.update(defaults)
    exec("\n".join(src) + "\n" + "\n".join(imp) + "\n", ns)  # noqa: S102 - builds the Protocol for these signatures
    return ns["P"], ns["Impl"](), ns


# ------------------------------------------------------------------ real drivers
class Outcome:
    """What one real call did: ok (result, seen) | reject (where, exception type) ."""

    def __init__(self, ok: bool, result: Any = None, seen: list[Any] | None = None, where: str = "", err: str = "", msg: str = ""):
        self.ok, self.result, self.seen, self.where, self.err, self.msg = ok, result, seen or [], where, err, msg

    def brief(self) -> Any:
        return ["ok", repr(self.result)[:200]] if self.ok else ["reject", self.where, self.err, self.msg[:160]]


def call_socket(server: RpcServer, info: Any, kwargs: dict[str, Any]) -> Outcome:
    """The socket-family byte protocol: real client writer -> RpcServer.serve_one over an in-memory
    PipeTransport -> real client reader (what _make_unary_caller does, minus the OS pipe)."""
    from vgi_rpc.rpc import PipeTransport
    from vgi_rpc.rpc._wire import _read_unary_response, _send_request

    del SEEN[:]
    buf = io.BytesIO()
    try:
        _send_request(buf, info, kwargs)
    except Exception as e:  # noqa: BLE001
        return Outcome(False, where="client-send", err=type(e).__name__, msg=str(e))
    out = io.BytesIO()
    try:
        server.serve_one(PipeTransport(io.BytesIO(buf.getvalue()), out))
    except Exception as e:  # noqa: BLE001
        return Outcome(False, seen=list(SEEN), where="server-escaped", err=type(e).__name__, msg=str(e))
    seen = list(SEEN)
    try:
        reader = ValidatedReader(ipc.open_stream(io.BytesIO(out.getvalue())), IpcValidation.FULL)
        res = _read_unary_response(reader, info, None)
    except RpcError as e:
        return Outcome(False, seen=seen, where="server-error", err=e.error_type, msg=e.error_message)
    except Exception as e:  # noqa: BLE001
        return Outcome(False, seen=seen, where="client-read", err=type(e).__name__, msg=str(e))
    return Outcome(True, res, seen)


def call_proxy(proxy: Any, name: str, kwargs: dict[str, Any], timeout: float = 20.0) -> Outcome:
    """A call through a real proxy (serve_pipe threads or http_connect), guarded by a watchdog."""
    del SEEN[:]
    box: list[Any] = []

    def go() -> None:
        try:
            box.append(("ok", getattr(proxy, name)(**kwargs)))
        except RpcError as e:
            box.append(("rpc", e))
        except BaseException as e:  # noqa: BLE001
            box.append(("exc", e))

    th = threading.Thread(target=go, daemon=True)
    th.start()
    th.join(timeout)
    seen = list(SEEN)
    if not box:
        return Outcome(False, seen=seen, where="hang", err="Timeout", msg=f"no reply within {timeout}s")
    kind, val = box[0]
    if kind == "ok":
        return Outcome(True, val, seen)
    if kind == "rpc":
        return Outcome(False, seen=seen, where="server-error", err=val.error_type, msg=val.error_message)
    return Outcome(False, seen=seen, where="client", err=type(val).__name__, msg=str(val))


# ------------------------------------------------------------------ floats
def f_bits(x: float) -> int:
    return struct.unpack("<Q", struct.pack("<d", x))[0]


def f_of_bits(b: int) -> float:
    return struct.unpack("<d", struct.pack("<Q", b))[0]


def f32_representable(x: float) -> bool:
    try:
        y = struct.unpack("<f", struct.pack("<f", x))[0]
    except OverflowError:
        return False
    return f_bits(y) == f_bits(x)


# ------------------------------------------------------------------ the property's equality (independent of the model)
def exact_eq(a: Any, b: Any) -> bool:
    """`b` is the value `a`: same Python type, floats bit for bit, containers element-wise (sets / dicts
    extensionally), aware datetimes the same instant, decimals numerically."""
    if isinstance(a, float) or isinstance(b, float):
        return type(a) is float and type(b) is float and f_bits(a) == f_bits(b)
    if isinstance(a, dt.datetime) and isinstance(b, dt.datetime):
        return (a.tzinfo is None) == (b.tzinfo is None) and a == b
    if isinstance(a, enum.Enum) or isinstance(b, enum.Enum):
        return a is b
    if isinstance(a, Decimal) and isinstance(b, Decimal):
        return a.is_finite() and b.is_finite() and a == b
    if type(a) is not type(b):
        return False
    if isinstance(a, (list, tuple)):
        return len(a) == len(b) and all(exact_eq(x, y) for x, y in zip(a, b))
    if isinstance(a, frozenset):
        return len(a) == len(b) and all(any(exact_eq(x, y) for y in b) for x in a)
    if isinstance(a, dict):
        return len(a) == len(b) and all(any(exact_eq(k, k2) and exact_eq(v, b[k2]) for k2 in b) for k, v in a.items())
    if isinstance(a, ArrowSerializableDataclass):
        import dataclasses

        return all(exact_eq(getattr(a, f.name), getattr(b, f.name)) for f in dataclasses.fields(a))
    return a == b


def enum_field_differs(a: Any, b: Any) -> bool:
    """a and b are instances of the same dataclass that differ (only) in an Enum-valued position somewhere inside."""
    import dataclasses

    if isinstance(a, enum.Enum) and isinstance(b, enum.Enum):
        return a is not b
    if isinstance(a, ArrowSerializableDataclass) and type(a) is type(b):
        return any(enum_field_differs(getattr(a, f.name), getattr(b, f.name)) for f in dataclasses.fields(a))
    if isinstance(a, (list, tuple)) and isinstance(b, (list, tuple)) and len(a) == len(b):
        return any(enum_field_differs(x, y) for x, y in zip(a, b))
    if isinstance(a, dict) and isinstance(b, dict) and a.keys() == b.keys():
        return any(enum_field_differs(a[k], b[k]) for k in a)
    if isinstance(a, frozenset) and isinstance(b, frozenset):
        return any(isinstance(x, enum.Enum) for x in a | b) and a != b
    return False


def none_field_defaulted(a: Any, b: Any) -> bool:
    """Somewhere inside the dataclass a, a field that is None came back non-None in b."""
    import dataclasses

    if isinstance(a, ArrowSerializableDataclass) and type(a) is type(b):
        for f in dataclasses.fields(a):
            x, y = getattr(a, f.name), getattr(b, f.name)
            if (x is None and y is not None) or none_field_defaulted(x, y):
                return True
        return False
    if isinstance(a, (list, tuple)) and isinstance(b, (list, tuple)) and len(a) == len(b):
        return any(none_field_defaulted(x, y) for x, y in zip(a, b))
    return False


def _num(x: Any) -> Any:
    """Exact rational content of a number (None for NaN / inf / non-numbers)."""
    from fractions import Fraction

    if isinstance(x, bool):
        return Fraction(int(x))
    if isinstance(x, int):
        return Fraction(x)
    if isinstance(x, float):
        return Fraction(x) if math.isfinite(x) else None
    if isinstance(x, Decimal):
        return Fraction(x) if x.is_finite() else None
    return None


def temporal_of_int(t: T, n: int) -> Any:
    """What an int given for a temporal column denotes: n units after the epoch / midnight / zero."""
    try:
        if t[0] == "date":
            return EPOCH_DATE + dt.timedelta(days=n)
        if t[1] == "ns":
            if n % 1000:
                return None  # not a whole microsecond: as_py() refuses it (loudly)
            us = n // 1000
        else:
            us = n * UNITS[t[1]]
        if t[0] == "ts":
            return (EPOCH_AWARE if t[2] else EPOCH) + dt.timedelta(microseconds=us)
        if t[0] == "time":
            return (dt.datetime.min + dt.timedelta(microseconds=us)).time()
        if t[0] == "dur":
            return dt.timedelta(microseconds=us)
    except OverflowError:
        return None
    return None


def _as_items(v: Any) -> list[Any] | None:
    """The elements a value given for a list / frozenset column is iterated into (after _convert_for_arrow)."""
    if isinstance(v, dict):
        return list(v.items())
    if isinstance(v, (list, tuple, set, frozenset, str, bytes, bytearray, range)):
        return list(v)
    return None


def same_value(v: Any, r: Any, t: T) -> bool:
    """`r` denotes the same value as the (possibly ill-typed) `v` passed for annotation t: nothing was lost
    or altered, only the Python representation type may be the declared one."""
    if exact_eq(v, r):
        return True
    k = t[0]
    if k not in ("enum", "data", "opt"):
        # the framework's own wire form (_convert_for_arrow): Enum -> name, dataclass -> bytes
        if isinstance(v, enum.Enum):
            return same_value(v.name, r, t)
        if isinstance(v, ArrowSerializableDataclass):
            return same_value(v.serialize_to_bytes(), r, t)
    if k == "opt":
        return (v is None and r is None) or same_value(v, r, t[1])
    if v is None or r is None:
        return False
    if k in ("int", "float", "dec"):
        if isinstance(v, float) and isinstance(r, float) and v != v and r != r:
            return k == "float"  # NaN stays NaN (float64: bit-exact is demanded by exact_eq for well-typed values)
        a, b = _num(v), _num(r)
        return a is not None and b is not None and a == b
    if k == "str":
        return isinstance(r, str) and isinstance(v, (bytes, bytearray)) and bytes(v) == r.encode("utf-8", "surrogatepass")
    if k == "bytes":
        return isinstance(r, bytes) and (isinstance(v, str) and v.encode() == r or isinstance(v, (bytearray, memoryview)) and bytes(v) == r)
    if k == "enum":
        return isinstance(r, ENUMS[t[1]]) and isinstance(v, str) and v == r.name
    if k == "data":
        return isinstance(r, DATAS[t[1]]) and isinstance(v, bytes) and v == r.serialize_to_bytes()
    if k in ("date", "ts", "time", "dur"):
        n = _num(v)
        if n is not None and n.denominator == 1 and not isinstance(v, bool):
            w = temporal_of_int(t, int(n))
            return w is not None and exact_eq(w, r)
        return False
    if k == "list":
        items = _as_items(v)
        if items is None or not isinstance(r, list) or len(items) != len(r):
            return False
        if isinstance(v, (set, frozenset)):  # unordered source
            return all(any(same_value(x, y, t[1]) for y in r) for x in items) and all(any(same_value(x, y, t[1]) for x in items) for y in r)
        return all(same_value(x, y, t[1]) for x, y in zip(items, r))
    if k == "set":
        items = _as_items(v)
        if not isinstance(r, frozenset) or items is None:
            return False
        return all(any(same_value(x, y, t[1]) for y in r) for x in items) and all(any(same_value(x, y, t[1]) for x in items) for y in r)
    if k == "map":
        if not isinstance(r, dict):
            return False
        try:
            d = dict(v)
        except Exception:  # noqa: BLE001
            return False
        return len(d) == len(r) and all(any(same_value(k1, k2, t[1]) and same_value(v1, r[k2], t[2]) for k2 in r) for k1, v1 in d.items())
    return False


# ------------------------------------------------------------------ Coq encoders
def coq_ty(t: T) -> str:
    k = t[0]
    if k == "int":
        return f"(TInt {'true' if t[1] else 'false'} {t[2]})"
    if k == "float":
        return f"(TFloat F{t[1]})"
    if k in ("str", "bytes", "bool", "date"):
        return {"str": "TStr", "bytes": "TBytes", "bool": "TBool", "date": "TDate"}[k]
    if k == "enum":
        names = sorted(n for n, m in ENUMS[t[1]].__members__.items() if m.name == n)
        return "(TEnum [" + "; ".join(_cps(n) for n in names) + "])"
    if k == "data":
        return "TData"
    u = {"s": "Us", "ms": "Ums", "us": "Uus", "ns": "Uns"}
    if k == "ts":
        return f"(TTimestamp {u[t[1]]} {'true' if t[2] else 'false'})"
    if k == "time":
        return f"(TTime {u[t[1]]})"
    if k == "dur":
        return f"(TDuration {u[t[1]]})"
    if k == "dec":
        return f"(TDecimal {t[1]} ({t[2]}))"
    if k == "opt":
        return f"(TOpt {coq_ty(t[1])})"
    if k == "ann":
        return f"(TAnn {coq_ty(t[1])})"
    if k == "list":
        return f"(TList {coq_ty(t[1])})"
    if k == "set":
        return f"(TSet {coq_ty(t[1])})"
    if k == "map":
        return f"(TMap {coq_ty(t[1])} {coq_ty(t[2])})"
    raise ValueError(t)


def _cps(s: str) -> str:
    return "[" + ";".join(str(ord(c)) for c in s) + "]%N"


def _z(n: int) -> str:
    return f"({n})"


def _td_us(d: dt.timedelta) -> int:
    return (d.days * 86400 + d.seconds) * 1_000_000 + d.microseconds


def sort_key(v: Any) -> Any:
    """A total order on encodable values that monotone numeric changes preserve (for frozenset encodings)."""
    if v is None:
        return (0, 0)
    if isinstance(v, bool):
        return (1, int(v))
    if isinstance(v, (int, float)) and not (isinstance(v, float) and v != v):
        return (2, v, 0 if isinstance(v, int) else 1, f_bits(v) if isinstance(v, float) else 0)
    if isinstance(v, float):
        return (3, f_bits(v))
    if isinstance(v, str):
        return (4, v)
    if isinstance(v, bytes):
        return (5, v)
    return (9, coq_value(v))


def coq_value(v: Any) -> str:
    if v is None:
        return "VNone"
    if isinstance(v, bool):
        return f"(VBool {'true' if v else 'false'})"
    if isinstance(v, int):
        return f"(VInt {_z(v)})"
    if isinstance(v, float):
        return f"(VFloat {f_bits(v)}%N)"
    if isinstance(v, str):
        return f"(VStr {_cps(v)})"
    if isinstance(v, (bytes, bytearray)):
        return "(VBytes [" + ";".join(str(x) for x in bytes(v)) + "]%N)"
    if isinstance(v, enum.Enum):
        return f"(VEnum {_cps(v.name)})"
    if isinstance(v, ArrowSerializableDataclass):
        return "(VData [" + ";".join(str(x) for x in v.serialize_to_bytes()) + "]%N)"
    if isinstance(v, dt.datetime):
        if v.tzinfo is None:
            return f"(VDatetime {_z(_td_us(v - EPOCH))} false)"
        return f"(VDatetime {_z(_td_us(v - EPOCH_AWARE))} true)"
    if isinstance(v, dt.date):
        return f"(VDate {_z((v - EPOCH_DATE).days)})"
    if isinstance(v, dt.time):
        return f"(VTime {_z(((v.hour * 60 + v.minute) * 60 + v.second) * 1_000_000 + v.microsecond)})"
    if isinstance(v, dt.timedelta):
        return f"(VDelta {_z(_td_us(v))})"
    if isinstance(v, Decimal):
        s, digits, e = v.as_tuple()
        c = int("".join(map(str, digits)) or "0")
        return f"(VDecimal {_z(-c if s else c)} {_z(e if isinstance(e, int) else 0)})"
    if isinstance(v, list):
        return "(VList [" + "; ".join(coq_value(x) for x in v) + "])"
    if isinstance(v, tuple):
        return "(VTuple [" + "; ".join(coq_value(x) for x in v) + "])"
    if isinstance(v, frozenset):
        return "(VSet [" + "; ".join(coq_value(x) for x in sorted(v, key=sort_key)) + "])"
    if isinstance(v, dict):
        return "(VDict [" + "; ".join(f"({coq_value(a)}, {coq_value(b)})" for a, b in v.items()) + "])"
    raise TypeError(f"not encodable: {type(v).__name__}")


def encodable(v: Any) -> bool:
    try:
        coq_value(v)
        return True
    except (TypeError, ValueError, OverflowError):
        return False


# ------------------------------------------------------------------ generators
SCALARS: list[T] = (
    [("int", s, b) for s in (True, False) for b in (8, 16, 32, 64)]
    + [("float", 64), ("float", 32), ("str",), ("bytes",), ("bool",)]
    + [("ts", u, tz) for u in ("s", "ms", "us", "ns") for tz in (False, True)]
    + [("time", u) for u in ("s", "ms", "us", "ns")]
    + [("dur", u) for u in ("s", "ms", "us", "ns")]
    + [("date",)]
)
DECIMALS: list[T] = [("dec", 10, 2), ("dec", 38, 0), ("dec", 5, -2), ("dec", 38, 10)]
SPECIAL_FLOATS = [
    0.0, -0.0, 1.0, -1.5, 0.1, 1e308, -1e308, 5e-324, -5e-324, 2.2250738585072014e-308, float("inf"), float("-inf"),
    float("nan"), f_of_bits(0x7FF0000000000001), f_of_bits(0xFFF8000000000000), f_of_bits(0x7FF8DEADBEEF0001), f_of_bits(0x7FF4000000000000),
    3.4028234663852886e38, 3.4028235677973366e38, 3.402823669209385e38, 1.401298464324817e-45, 7.006492321624085e-46, 7.006492321624087e-46, 1e-46,
    1.1754943508222875e-38, 1.1754942106924411e-38, 16777217.0, 16777216.0, 1.0000000596046448, 1.0000001192092896, 0.5, 65504.0,
    9007199254740992.0, 9007199254740993.0, 1e39, -1e39, 2.0**63, -(2.0**63), 2.0**64, 127.9, 128.0, -128.9, 255.5, -0.5, 0.99,
]
STRS = ["", "a", "héllo", "\U0001F600", "a\U0001F600b́", "\x00", "\x00a\x00", "\ud800", "ok\udfff", "￿", "\U0010ffff", "RED", "r", " ", "é", "N1", "with space"]
BYTESS = [b"", b"\x00", b"\xff\xfe", b"abc", bytes(range(256)), b"\x00" * 3, "é".encode()]


def _f32(x: float) -> float:
    return struct.unpack("<f", struct.pack("<f", x))[0]


def gen_value(t: T, rng: Any, depth: int = 0) -> Any:
    """A value OF annotation t that the declared Arrow type can represent (boundaries favoured)."""
    k = t[0]
    if k == "int":
        lo, hi = (-(2 ** (t[2] - 1)), 2 ** (t[2] - 1) - 1) if t[1] else (0, 2 ** t[2] - 1)
        return rng.choice([lo, hi, 0, lo + 1, hi - 1, rng.randint(lo, hi), rng.randint(max(lo, -5), min(hi, 5))])
    if k == "float":
        if t[1] == 64:
            return rng.choice(SPECIAL_FLOATS + [rng.uniform(-1e6, 1e6), f_of_bits(rng.getrandbits(64))])
        for _ in range(50):
            x = rng.choice(SPECIAL_FLOATS + [_f32(rng.uniform(-1e6, 1e6)), struct.unpack("<f", struct.pack("<I", rng.getrandbits(32)))[0]])
            if f32_representable(x):
                return x
        return 0.5
    if k == "str":
        s = rng.choice(STRS + ["".join(chr(rng.choice([rng.randrange(32, 127), rng.randrange(0xA0, 0xD800), rng.randrange(0x10000, 0x110000)])) for _ in range(rng.randrange(0, 6)))])
        return s if not any(0xD800 <= ord(c) <= 0xDFFF for c in s) else "z"
    if k == "bytes":
        return rng.choice(BYTESS + [bytes(rng.getrandbits(8) for _ in range(rng.randrange(0, 9)))])
    if k == "bool":
        return rng.choice([True, False])
    if k == "enum":
        return rng.choice(list(ENUMS[t[1]].__members__.values()))
    if k == "data":
        if t[1] == 0:
            return Pt(rng.choice([0, -1, 2**63 - 1, -(2**63)]), rng.choice([0.0, -0.0, 1.5, float("inf"), 5e-324]), rng.choice(["", "t", "é\U0001F600"]))
        if t[1] == 1:
            return Box(Pt(rng.randint(-9, 9), rng.choice([-0.0, 2.5])), rng.choice([[], [1, 2], [2**63 - 1]]), rng.choice([None, "", "lbl"]), rng.choice(list(Color)))

        def reading() -> Reading:
            units, sides = list(Unit), list(Side)
            return Reading(
                rng.randint(-3, 3), rng.choice(units), rng.choice([None] + sides), [rng.choice(units) for _ in range(rng.choice([0, 1, 3]))],
                {k: rng.choice(sides) for k in rng.sample(["a", "b", "é"], rng.choice([0, 1, 2]))}, frozenset(rng.sample(units, rng.choice([0, 1, 2]))),
            )

        if t[1] == 2:
            return reading()
        if t[1] == 3:
            return Log(reading(), [reading() for _ in range(rng.choice([0, 1, 2]))], rng.choice([None, reading()]))

        def query() -> Query:
            kw: dict[str, Any] = {}
            for name, choices in (
                ("limit", [None, 0, 10, -1]), ("ratio", [None, 0.5, -0.0]), ("label", [None, "", "lbl"]), ("side", [None, Side.LEFT, Side.RIGHT]),
                ("tags", [None, [], ["a"], ["b", ""]]), ("opts", [None, {}, {"k": 1}]), ("origin", [None, Pt(1, 2.0), Pt(0, -0.0, "")]),
                ("flag", [None, True, False]), ("none_default", [None, 7]),
            ):
                if rng.random() < 0.7:
                    kw[name] = rng.choice(choices)
            return Query(rng.choice(["q", "", "é"]), **kw)

        if t[1] == 4:
            return query()
        return Batch(query(), [query() for _ in range(rng.choice([0, 1, 2]))], rng.choice([None, query()]))
    if k == "date":
        return rng.choice([dt.date.min, dt.date.max, EPOCH_DATE, dt.date(1969, 12, 31), dt.date(2024, 2, 29), EPOCH_DATE + dt.timedelta(days=rng.randint(-700000, 2900000))])
    if k == "ts":
        unit = UNITS[t[1]]
        if t[1] == "ns":
            lo, hi = -(2**63) // 1000 + 1, (2**63 - 1) // 1000
        else:
            lo, hi = _td_us(dt.datetime.min - EPOCH), _td_us(dt.datetime.max - EPOCH)
        us = rng.choice([lo, hi, 0, -1, 1, -unit, unit, rng.randint(lo, hi), rng.randint(-10**12, 10**13)])
        us = max(lo, min(hi, us))
        us = (us // unit) * unit if (us // unit) * unit >= lo else ((us // unit) + 1) * unit
        base = EPOCH_AWARE if t[2] else EPOCH
        return base + dt.timedelta(microseconds=us)
    if k == "time":
        unit = UNITS[t[1]]
        us = rng.choice([0, 86_400_000_000 - 1, 1, unit, rng.randrange(86_400_000_000)])
        us = (us // unit) * unit
        return (dt.datetime.min + dt.timedelta(microseconds=us)).time()
    if k == "dur":
        unit = UNITS[t[1]]
        if t[1] == "ns":
            lo, hi = -(2**63) // 1000 + 1, (2**63 - 1) // 1000
        elif t[1] == "us":
            lo, hi = -106751991 * 86_400_000_000, 2**63 - 1  # pyarrow refuses timedeltas below -106751991 days
        else:
            lo, hi = _td_us(dt.timedelta.min), _td_us(dt.timedelta.max)
        us = rng.choice([lo, hi, 0, -1, 1, -unit, unit, rng.randint(-10**13, 10**13), rng.randint(lo, hi)])
        us = max(lo, min(hi, us))
        us = (us // unit) * unit if (us // unit) * unit >= lo else ((us // unit) + 1) * unit
        return dt.timedelta(microseconds=us)
    if k == "dec":
        p, s = t[1], t[2]
        c = rng.choice([0, 1, -1, 10 ** p - 1, -(10 ** p - 1), rng.randint(-(10 ** min(p, 12)), 10 ** min(p, 12))])
        return Decimal((1 if c < 0 else 0, tuple(int(ch) for ch in str(abs(c))), -s))  # exact: no context rounding
    if k == "opt":
        return None if rng.random() < 0.35 else gen_value(t[1], rng, depth)
    if k == "list":
        n = rng.choice([0, 0, 1, 2, 3])
        return [gen_value(t[1], rng, depth + 1) for _ in range(n)]
    if k == "set":
        n = rng.choice([0, 0, 1, 2, 4])
        out: list[Any] = []
        for _ in range(n):
            x = gen_value(t[1], rng, depth + 1)
            if isinstance(x, float) and x != x:
                continue
            try:
                if not any(exact_eq(x, y) or x == y for y in out):
                    out.append(x)
            except TypeError:
                pass
        return frozenset(out)
    if k == "map":
        n = rng.choice([0, 0, 1, 2, 3])
        d: dict[Any, Any] = {}
        for _ in range(n):
            key = gen_value(t[1], rng, depth + 1)
            if key is None or (isinstance(key, float) and key != key) or any(key == k2 for k2 in d):
                continue
            d[key] = gen_value(t[2], rng, depth + 1)
        return d
    raise ValueError(t)


def fixed_wells(t: T) -> list[Any]:
    """Well-typed values that every run must include: the enum members whose NAME is another member's VALUE,
    in every field position of a nested dataclass."""
    if t[0] == "opt":
        return fixed_wells(t[1])
    r = Reading(1, Unit.MIN, Side.RIGHT, [Unit.MIN, Unit.M, Unit.MAX], {"a": Side.RIGHT, "b": Side.LEFT}, frozenset([Unit.MIN, Unit.MAX]))
    if t == ("data", 2):
        return [r, Reading(0, Unit.M, Side.LEFT)]
    if t == ("data", 3):
        return [Log(r, [Reading(2, Unit.MAX), r], r)]
    if t == ("data", 4):  # every Optional-with-default field explicitly None; untouched defaults; all overridden; one at a time
        return [Query(**ALL_NONE_QUERY), Query(), Query("x", 3, 1.5, "", Side.LEFT, [], {}, Pt(0, -0.0), False, 7)] + [Query(**{k: None}) for k in ALL_NONE_QUERY]
    if t == ("data", 5):
        return [Batch(Query(**ALL_NONE_QUERY), [Query(limit=None), Query()], None), Batch(Query(), [], Query(**ALL_NONE_QUERY)), Batch(Query(tags=None))]
    if t == ("enum", 2):
        return [Unit.MIN, Unit.M]
    if t == ("enum", 3):
        return [Side.RIGHT, Side.LEFT]
    return []


ILL_POOL: list[Any] = [
    None, True, False, 0, 1, -1, 255, 256, 2**31, 2**53, 2**53 + 1, 2**63, -(2**63) - 1, 2**64, 16777217, 0.0, -0.0, 1.0, 1.5, -1.5, 0.1, 127.9,
    float("nan"), float("inf"), 1e30, 2.0**63, -(2.0**63), "", "a", "RED", "r", "1", "\ud800", b"", b"abc", b"\xff", [], [1], [1.5], [None], (1, 2),
    [("a", 1)], [("a", 1), ("a", 2)], {"a": 1}, {}, frozenset(), frozenset([1]), Color.RED, Weird["N1"], Pt(1, 2.0), dt.date(2020, 1, 2),
    dt.datetime(2020, 1, 2, 3, 4, 5, 678901), dt.datetime(2020, 1, 2, 3, 4, 5, 678901, tzinfo=dt.timezone.utc), dt.datetime(2020, 1, 2, 3, 4, 5),
    dt.datetime(2020, 1, 2, 3, 4, 5, 678000), dt.datetime(2020, 1, 2, 3, 4, 5, tzinfo=dt.timezone.utc), dt.datetime(1969, 12, 31, 23, 59, 59, 999999),
    dt.time(1, 2, 3, 456789), dt.time(1, 2, 3, 456000), dt.time(1, 2, 3), dt.timedelta(microseconds=-1), dt.timedelta(milliseconds=1500),
    dt.timedelta(days=1, microseconds=1), dt.timedelta.max, dt.timedelta.min, dt.datetime.min, dt.datetime.max, [[1]], [[("a", 1)]], [{"a": 1}], [Color.RED], ["RED"],
    [True], [1, None], ("a",), [("a",)], [(None, 1)], [["a", 1]], [("a", 1.5)], {"a": None}, {1: 2}, {"a": 1.5},
]


def kind_of(t: T) -> str:
    return t[0] if t[0] not in ("int", "float") else f"{t[0]}{t[2] if t[0] == 'int' else t[1]}"
