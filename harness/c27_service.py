"""C27 implementation driver: a real sticky-enabled Falcon app + real client session views.

Service method ``script(acts)`` executes a string of actions inside ONE request:
  'o' ctx.open_session(fresh state)   'c' ctx.close_session()
  'r' read ctx.session / ctx.session_id ("resume": use the bound session)      'n' nothing
Every action appends an event to the module-level LOG (kept even when the method raises and the
response is an error batch):  ("o", session_id_hex, state_serial) | ("c",) | ("r", session_id_hex|None, state_serial|None)
| ("x", exception type name)  -- the action that raised; the method re-raises and the request ends.

``World`` owns the app, the registry handle, the drain handle and K client session views opened with the real
``http_connect(...).with_session_token()``; ``World.raw`` posts a request with hand-chosen headers through the
bare Falcon test client (for header combinations the Python client never produces).
"""
from __future__ import annotations

import contextlib
from typing import Any, Protocol

from vgi_rpc.rpc import CallContext, RpcServer

LOG: list[tuple[Any, ...]] = []
_SERIAL = [0]
TOKEN_KEY = b"k" * 32


class C27State:
    """Session state: a serial number and a close counter (state.close() is invoked by the registry)."""

    def __init__(self) -> None:
        _SERIAL[0] += 1
        self.serial = _SERIAL[0]
        self.closes = 0

    def close(self) -> None:
        self.closes += 1


class C27Proto(Protocol):
    def script(self, acts: str) -> str: ...


class C27Impl:
    def script(self, acts: str, ctx: CallContext) -> str:
        for a in acts:
            try:
                if a == "o":
                    ctx.open_session(C27State())
                    st = ctx.session
                    LOG.append(("o", ctx.session_id, st.serial if isinstance(st, C27State) else None))
                elif a == "c":
                    ctx.close_session()
                    LOG.append(("c",))
                elif a == "r":
                    st = ctx.session
                    LOG.append(("r", ctx.session_id, st.serial if isinstance(st, C27State) else None))
                elif a == "n":
                    pass
                else:
                    raise AssertionError(f"unknown action {a!r}")
            except Exception as e:
                LOG.append(("x", type(e).__name__))
                raise
        return acts


class _Recorder:
    """Delegating wrapper around the in-process test client that remembers the last response headers."""

    def __init__(self, inner: Any, world: Any) -> None:
        self._inner = inner
        self._world = world

    def post(self, url: str, **kw: Any) -> Any:
        r = self._inner.post(url, **kw)
        self._world.last_headers = {str(k).lower(): str(v) for k, v in dict(r.headers).items()}
        return r

    def __getattr__(self, name: str) -> Any:
        return getattr(self._inner, name)


class World:
    def __init__(self, nviews: int) -> None:
        from vgi_rpc.http import http_connect
        from vgi_rpc.http._testing import make_sync_client
        from vgi_rpc.http.server import _sticky

        self._sticky = _sticky
        self.server = RpcServer(C27Proto, C27Impl())
        self.client = make_sync_client(
            self.server, prefix="", token_key=TOKEN_KEY, enable_sticky=True, sticky_default_ttl=100000.0,
            enable_landing_page=False, enable_not_found_page=False, enable_describe_page=False,
        )
        self.app = self.client._client.app
        self.mw = next(
            m.__self__ for grp in self.app._middleware for m in grp if isinstance(getattr(m, "__self__", None), _sticky._StickyMiddleware)
        )
        self.registry = self.mw._registry
        self.handle = _sticky.drain_handle(self.app)
        if self.handle is None:
            raise RuntimeError("drain_handle(app) is None for a sticky app")
        # record the headers of the last response any client object received
        self.last_headers: dict[str, str] = {}
        self.recorder = _Recorder(self.client, self)
        self._stack = contextlib.ExitStack()
        self.proxy = self._stack.enter_context(http_connect(C27Proto, client=self.recorder))
        self.views: list[Any] = []
        self.reset(nviews)

    def reset(self, nviews: int) -> None:
        """Fresh history on the same app: empty registry, not draining, new session views."""
        for v in self.views:
            v.detach()
        self.registry.shutdown()
        self.registry.set_draining(False)
        self.views = [self._stack.enter_context(self.proxy.with_session_token()) for _ in range(nviews)]  # type: ignore[attr-defined]

    # -- observation ---------------------------------------------------------
    def registry_ids(self) -> list[str]:
        return [sid.hex() for sid in self.registry]

    def view_sid(self, k: int) -> tuple[str | None, str | None]:
        """(token, session id hex sealed in the token) currently held by view k."""
        tok = self.views[k].current_session_token()
        if tok is None:
            return None, None
        return tok, self.sid_of_token(tok)

    def sid_of_token(self, tok: str) -> str | None:
        from vgi_rpc.http.server._state_token import _compute_aad

        try:
            _server_id, sid, _exp = self._sticky._open_session_token(tok, TOKEN_KEY, _compute_aad(None))
        except Exception:  # noqa: BLE001
            return None
        return sid.hex()

    # -- stimuli -------------------------------------------------------------
    def set_drain(self, on: bool) -> None:
        if on:
            self.handle.drain()
        else:
            self.registry.set_draining(False)

    def call_view(self, k: int, acts: str) -> tuple[str | None, str | None, list[tuple[Any, ...]]]:
        """One request through view k.  Returns (error type name | None, error_kind | None, server log)."""
        del LOG[:]
        etype = ekind = None
        try:
            self.views[k].script(acts=acts)
        except Exception as e:  # noqa: BLE001
            etype, ekind = _err_of(e)
        return etype, ekind, list(LOG)

    def call_plain(self, acts: str) -> tuple[str | None, str | None, list[tuple[Any, ...]]]:
        """One request outside any session view (no VGI-Session-Accept, no token)."""
        del LOG[:]
        etype = ekind = None
        try:
            self.proxy.script(acts=acts)  # type: ignore[attr-defined]
        except Exception as e:  # noqa: BLE001
            etype, ekind = _err_of(e)
        return etype, ekind, list(LOG)

    def raw(self, acts: str, accept: str | None, token: str | None) -> tuple[str | None, str | None, list[tuple[Any, ...]], str | None, str | None, int]:
        """One request with hand-chosen headers through the bare Falcon test client.
        Returns (error type, error kind, server log, VGI-Session response header, VGI-Session-Close header, status)."""
        from harness.rawrpc import error_of, read_streams, request_bytes
        from vgi_rpc.http._common import SESSION_ACCEPT_HEADER, SESSION_CLOSE_HEADER, SESSION_HEADER

        del LOG[:]
        schema = self.server._methods["script"].params_schema
        body = request_bytes("script", schema, {"acts": acts}, {})
        hdrs = {"Content-Type": "application/vnd.apache.arrow.stream"}
        if accept is not None:
            hdrs[SESSION_ACCEPT_HEADER] = accept
        if token is not None:
            hdrs[SESSION_HEADER] = token
        r = self.client._client.simulate_post("/script", body=body, headers=hdrs)
        etype = ekind = None
        try:
            st = read_streams(r.content)
            err = error_of(st[0]) if st else None
            if err is not None:
                etype, ekind = err[0], (err[2] or None)
        except Exception as e:  # noqa: BLE001
            etype, ekind = "unparseable:" + type(e).__name__, None
        self.last_headers = {str(k).lower(): str(v) for k, v in dict(r.headers).items()}
        return etype, ekind, list(LOG), r.headers.get(SESSION_HEADER), r.headers.get(SESSION_CLOSE_HEADER), r.status_code

    def shutdown(self) -> None:
        # leave the views without firing the best-effort DELETE bookkeeping into our observations
        with contextlib.suppress(Exception):
            self._stack.close()
        with contextlib.suppress(Exception):
            self.mw.stop_reaper()
        with contextlib.suppress(Exception):
            self.registry.shutdown()


def _err_of(e: BaseException) -> tuple[str, str | None]:
    et = getattr(e, "error_type", None) or type(e).__name__
    kind = getattr(e, "error_kind", None)
    return str(et), (kind or None)
