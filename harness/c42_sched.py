"""C42 driver: a deterministic cooperative scheduler around the REAL RpcServer / Falcon app.

Every scenario thread is a real Python thread, but only the holder of the baton runs.  Scheduling points
(= the atomic steps of coq/model/M_ServeStart.v) are placed by interposition only, no source change:

  label  model pc   where the thread parks (it performs the operation when it is scheduled next)
  1 pre     PPre     read of ``_transport_kind`` issued from vgi_rpc/http/server/_middleware.py (the pre-check)
  2 acq     PAcq     ``_transport_lock.__enter__``  (label 10 = scheduled while another thread holds the lock: no-op)
  3 cmp     PCmp     read of ``_transport_kind`` issued from ``RpcServer._notify_transport``
  4 hook    PHook    entry of the service's ``on_serve_start``
  5 commitK PCommitK write of ``_transport_kind``
  6 commitC PCommitC write of ``_transport_capabilities``
  7 rel     PRel     ``_transport_lock.__exit__``
  8 disp    PDisp    read of ``_transport_kind`` that feeds ``CallContext(kind=...)`` (``_prepare_method_call`` on the
                     serve path, ``_app_unary`` on the HTTP path)
  0 done             the thread has no job left
  9                  (never in the model) a job ran to its end without any access to the binding state

A job is not entered before the thread is scheduled for its first operation: every job starts behind a gate
(``L_BEGIN``), and the step that opens the gate also performs the job's first operation.  Code that runs before
the first interposed access (e.g. a middleware that consults a cache of its own) therefore runs at the moment the
request is scheduled, not at scenario start.

``SchedServer`` is the real ``RpcServer`` with the two slots ``_transport_kind`` / ``_transport_capabilities``
shadowed by properties that store into the original slots, and ``_transport_lock`` replaced by ``SchedLock``.
Reads from other sites (``serve_one`` passes the kind to the shm helpers) are logged but are not scheduling
points; a read from a site this file does not know is reported (``unexpected_sites``) -- fail closed.

Atomicity assumption (named in the evidence): between two scheduling points a thread touches none of
``_transport_kind`` / ``_transport_capabilities`` / ``_transport_lock`` / the hook -- true by construction,
because every access to them IS a scheduling point or a logged silent read.
"""
from __future__ import annotations

import io
import logging
import sys
import threading
from typing import Any, Protocol

import pyarrow as pa

from vgi_rpc.rpc import CallContext, PipeTransport, RpcServer, TransportKind

WATCHDOG_S = 20.0

L_DONE, L_PRE, L_ACQ, L_CMP, L_HOOK, L_CK, L_CC, L_REL, L_DISP, L_EMPTY_JOB, L_BLOCKED = 0, 1, 2, 3, 4, 5, 6, 7, 8, 9, 10
L_BEGIN = 100  # gate in front of every job; never reported (the job's first operation is)

KIND_CODE = {None: 0, "pipe": 1, "http": 2, "unix": 3, "tcp": 4}
# via codes of the model: 0 http request, serve() over 1 ShmPipeTransport 2 UnixTransport 3 TcpTransport 4 PipeTransport 5 other
VIA_HTTP, VIA_SHM, VIA_UNIX, VIA_TCP, VIA_PIPE, VIA_OTHER = 0, 1, 2, 3, 4, 5


class HarnessHang(Exception):
    pass


class C42Svc(Protocol):
    """Service with one unary method that reports the transport kind it was dispatched under."""

    def report(self) -> str:
        """Return ctx.kind."""
        ...


def _kind_code(k: Any) -> int:
    return KIND_CODE[None if k is None else str(k.value)]


def _binding_code(kind: Any, caps: Any) -> int:
    return 2 * _kind_code(kind) + (1 if "shm" in caps else 0)


class Sched:
    """Baton scheduler + observation log of one scenario."""

    def __init__(self, hook_outcomes: list[bool], hook_default: bool) -> None:
        self.cv = threading.Condition()
        self.current: int | None = None  # tid that holds the baton; None = the controller
        self.parked: dict[int, int] = {}
        self.done: set[int] = set()
        self.local = threading.local()
        self.lock_holder: int | None = None
        self.hook_outcomes = hook_outcomes
        self.hook_default = hook_default
        self.nhook = 0
        self.events: list[list[int]] = []  # model-coded events, chronological
        self.methods: list[tuple[int, int]] = []  # (tid, ctx.kind code) as seen inside the method body
        self.silent_reads: list[tuple[int, str, int]] = []
        self.unexpected_sites: list[str] = []
        self.anomalies: list[str] = []
        self.job_results: dict[int, list[Any]] = {}

    # -- scenario-thread side ------------------------------------------------
    def tid(self) -> int | None:
        return getattr(self.local, "tid", None)

    def point(self, label: int) -> None:
        t = self.tid()
        if t is None:
            return
        with self.cv:
            self.parked[t] = label
            self.current = None
            self.cv.notify_all()
            if not self.cv.wait_for(lambda: self.current == t, timeout=WATCHDOG_S):
                raise HarnessHang(f"thread {t} never rescheduled at label {label}")
            del self.parked[t]

    def _thread_main(self, t: int, body: Any) -> None:
        self.local.tid = t
        with self.cv:
            if not self.cv.wait_for(lambda: self.current == t, timeout=WATCHDOG_S):
                return
        try:
            body()
        except HarnessHang as e:  # noqa: PERF203
            self.anomalies.append(f"hang: {e}")
        except BaseException as e:  # noqa: BLE001
            self.anomalies.append(f"thread {t} died: {type(e).__name__}: {e}")
        finally:
            with self.cv:
                self.done.add(t)
                self.current = None
                self.cv.notify_all()

    # -- controller side -----------------------------------------------------
    def _hand(self, t: int) -> None:
        with self.cv:
            self.current = t
            self.cv.notify_all()
            if not self.cv.wait_for(lambda: self.current is None, timeout=WATCHDOG_S):
                raise HarnessHang(f"thread {t} did not reach a scheduling point")

    def start(self, bodies: list[Any]) -> None:
        self.threads = []
        for t, body in enumerate(bodies):
            th = threading.Thread(target=self._thread_main, args=(t, body), daemon=True)
            self.threads.append(th)
            th.start()
        for t in range(len(bodies)):
            self._hand(t)  # run up to the gate of the first job (or to the end when there is no job)

    def step(self, t: int) -> int:
        """Let thread t perform the operation it is parked at; returns the label (model's label_of)."""
        if t in self.done or t >= len(self.threads):
            return L_DONE
        label = self.parked[t]
        if label == L_BEGIN:
            self._hand(t)  # enter the job: run up to (not including) its first operation
            if t in self.done:
                return L_EMPTY_JOB
            label = self.parked[t]
            if label == L_BEGIN:
                return L_EMPTY_JOB
        if label == L_ACQ and self.lock_holder is not None:
            return L_BLOCKED
        self._hand(t)
        return label

    def finish(self) -> None:
        """Drain: let every thread run to completion (round robin) so no thread is left parked."""
        for _ in range(10000):
            live = [t for t in range(len(self.threads)) if t not in self.done]
            if not live:
                break
            progressed = False
            for t in live:
                if self.step(t) != L_BLOCKED:
                    progressed = True
            if not progressed:
                self.anomalies.append("deadlock while draining")
                break
        for th in self.threads:
            th.join(timeout=WATCHDOG_S)


class SchedLock:
    """Stands in for ``threading.Lock`` in ``RpcServer._transport_lock``."""

    def __init__(self, sched: Sched) -> None:
        self.s = sched

    def acquire(self, blocking: bool = True, timeout: float = -1) -> bool:
        s = self.s
        t = s.tid()
        if t is None:
            return True
        s.point(L_ACQ)  # the controller only hands the baton when the lock is free
        if s.lock_holder is not None:
            s.anomalies.append("lock handed while held")
        s.lock_holder = t
        return True

    def release(self) -> None:
        self._release(None)

    def _release(self, exc_type: Any) -> None:
        s = self.s
        t = s.tid()
        if t is None:
            return
        s.point(L_REL)
        if s.lock_holder != t:
            s.anomalies.append("release by a non-holder")
        s.lock_holder = None
        if exc_type is not None:
            b = getattr(s.local, "bind", None)
            s.events.append([3, t, _binding_code(*b) if b else 99, 0])

    def __enter__(self) -> bool:
        return self.acquire()

    def __exit__(self, exc_type: Any, exc: Any, tb: Any) -> None:
        self._release(exc_type)

    def locked(self) -> bool:
        return self.s.lock_holder is not None


_KIND_SLOT = RpcServer.__dict__["_transport_kind"]
_CAPS_SLOT = RpcServer.__dict__["_transport_capabilities"]

_PRE_FILES = ("_middleware.py",)
_DISP_SITES = {("_server.py", "_prepare_method_call"), ("_app_unary.py", "_unary_sync"), ("_app_unary.py", "*")}
_SILENT_SITES = {("_server.py", "serve_one"), ("_server.py", "<lambda>")}


def _site(depth: int) -> tuple[str, str]:
    f = sys._getframe(depth)
    if f.f_code.co_name == "transport_kind" and f.f_code.co_filename.endswith("_server.py"):
        f = f.f_back  # the public property: classify its caller
    return f.f_code.co_filename.rsplit("/", 1)[-1], f.f_code.co_name


class SchedServer(RpcServer):
    """The real RpcServer with its binding slots observed (values live in the original slots)."""

    _sched: Sched | None = None

    def _get_kind(self) -> TransportKind | None:
        s = self._sched
        t = s.tid() if s is not None else None
        if s is None or t is None:
            return _KIND_SLOT.__get__(self, RpcServer)
        fname, func = _site(2)
        if fname in _PRE_FILES:
            s.point(L_PRE)
            return _KIND_SLOT.__get__(self, RpcServer)
        if (fname, func) == ("_server.py", "_notify_transport"):
            s.point(L_CMP)
            return _KIND_SLOT.__get__(self, RpcServer)
        if (fname, func) in _DISP_SITES or (fname, "*") in _DISP_SITES:
            s.point(L_DISP)
            v = _KIND_SLOT.__get__(self, RpcServer)
            s.events.append([4, t, s.local.via, _kind_code(v)])
            s.local.last_disp = _kind_code(v)
            return v
        v = _KIND_SLOT.__get__(self, RpcServer)
        if (fname, func) in _SILENT_SITES:
            s.silent_reads.append((t, func, _kind_code(v)))
        else:
            s.unexpected_sites.append(f"{fname}:{func}")
        return v

    def _set_kind(self, v: TransportKind | None) -> None:
        s = self._sched
        t = s.tid() if s is not None else None
        if s is not None and t is not None:
            s.point(L_CK)
            b = getattr(s.local, "bind", None)
            if b is None or b[0] != v:
                s.anomalies.append(f"kind written {v!r} differs from the notified binding {b!r}")
            s.events.append([2, t, _binding_code(v, b[1] if b else frozenset()), 0])
        _KIND_SLOT.__set__(self, v)

    def _get_caps(self) -> frozenset[str]:
        return _CAPS_SLOT.__get__(self, RpcServer)

    def _set_caps(self, v: frozenset[str]) -> None:
        s = self._sched
        t = s.tid() if s is not None else None
        if s is not None and t is not None:
            s.point(L_CC)
            b = getattr(s.local, "bind", None)
            if b is None or b[1] != v:
                s.anomalies.append(f"capabilities written {v!r} differ from the notified binding {b!r}")
        _CAPS_SLOT.__set__(self, v)

    _transport_kind = property(_get_kind, _set_kind)  # type: ignore[assignment]
    _transport_capabilities = property(_get_caps, _set_caps)  # type: ignore[assignment]

    def _notify_transport(self, kind: TransportKind, capabilities: frozenset[str]) -> None:
        s = self._sched
        if s is not None and s.tid() is not None:
            s.local.bind = (kind, capabilities)
        return super()._notify_transport(kind, capabilities)


class Impl:
    """Service implementation: the hook under test + a method that reports ctx.kind."""

    def __init__(self, sched: Sched) -> None:
        self.s = sched

    def on_serve_start(self, kind: TransportKind) -> None:
        s = self.s
        t = s.tid()
        s.point(L_HOOK)
        n = s.nhook
        s.nhook += 1
        ok = s.hook_outcomes[n] if n < len(s.hook_outcomes) else s.hook_default
        b = getattr(s.local, "bind", None)
        if b is None or b[0] != kind:
            s.anomalies.append(f"hook called with {kind!r}, notified binding {b!r}")
        s.events.append([1, -1 if t is None else t, _binding_code(kind, b[1] if b else frozenset()), 1 if ok else 0])
        if not ok:
            raise RuntimeError("c42 injected hook failure")

    def report(self, ctx: CallContext) -> str:
        s = self.s
        t = s.tid()
        code = _kind_code(ctx.kind)
        s.methods.append((-1 if t is None else t, code))
        if getattr(s.local, "last_disp", None) != code:
            s.anomalies.append("ctx.kind differs from the designated dispatch read")
        s.local.last_disp = None
        return "none" if ctx.kind is None else str(ctx.kind.value)


class _OtherTransport:
    """Duck-typed transport of no known class (falls to the else arm of serve())."""

    def __init__(self, reader: io.IOBase, writer: io.IOBase) -> None:
        self.reader = reader
        self.writer = writer

    def close(self) -> None:
        pass


_SHM: Any = None


def _shm_segment() -> Any:
    global _SHM
    if _SHM is None:
        from vgi_rpc.shm import ShmSegment

        _SHM = ShmSegment.create(1 << 17)
    return _SHM


def close_shm() -> None:
    global _SHM
    if _SHM is not None:
        try:
            _SHM.close()
            _SHM.unlink()
        except Exception:  # noqa: BLE001
            pass
        _SHM = None


def _make_transport(via: int, data: bytes) -> Any:
    from vgi_rpc.rpc import ShmPipeTransport, TcpTransport, UnixTransport

    rd, wr = io.BytesIO(data), io.BytesIO()
    if via == VIA_PIPE:
        return PipeTransport(rd, wr)
    if via == VIA_SHM:
        return ShmPipeTransport(PipeTransport(rd, wr), _shm_segment())
    if via in (VIA_UNIX, VIA_TCP):
        cls = UnixTransport if via == VIA_UNIX else TcpTransport
        t = cls.__new__(cls)  # the real class over in-memory streams (no socket in this sandbox)
        t._sock = None
        t._reader = rd
        t._writer = wr
        return t
    return _OtherTransport(rd, wr)


def run_scenario(
    threads: list[list[tuple[int, int]]],
    hook_outcomes: list[bool],
    hook_default: bool,
    schedule: list[int] | None = None,
    chooser: Any = None,
    max_steps: int = 400,
) -> dict[str, Any]:
    """Run one scenario against the real code.

    threads: per thread a list of jobs (via code, number of dispatches; HTTP jobs dispatch once).
    schedule: fixed list of thread ids; or ``chooser(sched, step_no) -> tid | None`` picks adaptively
    (the schedule actually used is returned, so the run is replayable as a fixed schedule).
    """
    import falcon.testing

    from harness.rawrpc import request_bytes
    from vgi_rpc.http import make_wsgi_app

    logging.getLogger("vgi_rpc").setLevel(logging.CRITICAL + 10)
    logging.getLogger("vgi_rpc.rpc").setLevel(logging.CRITICAL + 10)
    logging.getLogger("vgi_rpc.http").setLevel(logging.CRITICAL + 10)
    sched = Sched(hook_outcomes, hook_default)
    impl = Impl(sched)
    server = SchedServer(C42Svc, impl)
    server._sched = sched
    server._transport_lock = SchedLock(sched)  # type: ignore[assignment]
    app = make_wsgi_app(server, prefix="", token_key=b"k" * 32, enable_landing_page=False, enable_not_found_page=False, enable_describe_page=False)
    req = request_bytes("report", pa.schema([]), None)

    def make_body(t: int, jobs: list[tuple[int, int]]) -> Any:
        client = falcon.testing.TestClient(app)

        def body() -> None:
            res = sched.job_results.setdefault(t, [])
            for via, n in jobs:
                sched.point(L_BEGIN)
                sched.local.via = via
                sched.local.bind = None
                sched.local.last_disp = None
                before = len([m for m in sched.methods if m[0] == t])
                if via == VIA_HTTP:
                    r = client.simulate_post("/report", body=req, headers={"Content-Type": "application/vnd.apache.arrow.stream"}, extras={"wsgi.errors": io.StringIO()})
                    res.append(("http", r.status_code, len([m for m in sched.methods if m[0] == t]) - before))
                else:
                    tr = _make_transport(via, req * n)
                    exc = None
                    try:
                        server.serve(tr)
                    except Exception as e:  # noqa: BLE001
                        exc = type(e).__name__ + ":" + str(e)
                    res.append(("serve", exc, len([m for m in sched.methods if m[0] == t]) - before))

        return body

    used: list[int] = []
    labels: list[int] = []
    try:
        sched.start([make_body(t, jobs) for t, jobs in enumerate(threads)])
        if schedule is not None:
            for t in schedule:
                labels.append(sched.step(t))
                used.append(t)
        else:
            for i in range(max_steps):
                t = chooser(sched, i)
                if t is None:
                    break
                labels.append(sched.step(t))
                used.append(t)
        final = (_kind_code(_KIND_SLOT.__get__(server, RpcServer)), "shm" in _CAPS_SLOT.__get__(server, RpcServer))
        n_events = len(sched.events)
        sched.finish()
    except HarnessHang as e:
        sched.anomalies.append(f"hang: {e}")
        final = (-1, False)
        n_events = len(sched.events)
    return {
        "schedule": used,
        "labels": labels,
        "events": [list(e) for e in sched.events[:n_events]],
        "final": final,
        "events_after_drain": [list(e) for e in sched.events],
        "methods": list(sched.methods),
        "job_results": dict(sched.job_results),
        "anomalies": list(sched.anomalies),
        "unexpected_sites": sorted(set(sched.unexpected_sites)),
        "silent_reads": len(sched.silent_reads),
    }
