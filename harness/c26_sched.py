"""Deterministic cooperative scheduler for the REAL sticky-session machinery (property C26).

What runs: the real Falcon app built by ``vgi_rpc.http.make_wsgi_app(enable_sticky=True)`` with the real
``_StickyMiddleware``, ``_SessionRegistry``, ``_SessionResource`` (DELETE), ``_ReaperThread.run`` and
``drain_handle(app).shutdown``; requests are issued from scenario threads through
``falcon.testing.TestClient``.

Interposition (no source change): while an app is built and driven, the module attributes
``_sticky.threading`` and ``_sticky.time`` are rebound to shims whose ``Lock`` / ``RLock`` / ``Event`` /
``time`` / ``monotonic`` are scheduling points.  Every scenario thread is a real ``threading.Thread``;
exactly one of {driver, one worker} runs at any time (the *baton*).  A worker hands the baton back at a
*scheduling point*, the moment just BEFORE it would

  time    read the clock (``time.time()`` inside ``registry.get`` / ``drain_expired``)
  reglock acquire the registry lock (``get`` / ``close`` / ``drain_expired`` / ``shutdown``)
  elock   acquire the per-entry RLock (``process_request`` / ``on_delete``)
  begin   emit ``Begin``       (first statement of the service method)
  work    emit ``End`` (plain method) or ``Detach`` + call ``ctx.close_session()`` (closing method)
  end     emit ``End`` after an in-method close
  hook1   emit ``CloseStart``  (first statement of ``state.close()``)
  hook2   emit ``CloseEnd``    (last statement of ``state.close()``)
  mklock  construct a ``threading.RLock`` / ``Lock`` from a scenario thread (never happens in the unchanged
          source, where the entry lock is created by ``open``; a lazily created lock is driven through this point)

A lock that is held by another thread when its waiter is scheduled makes that step a stutter (the
waiter stays parked at the same point) -- the same convention as coq/model/M_StickySched.v, so the
trace of the real code can be compared step by step with the Coq model.  Lock releases are not
scheduling points (a release commutes to the left of other threads' steps).

A schedule is a list of naturals: ``0`` advances the logical clock by one second, ``i+1`` lets worker
``i`` run from its scheduling point to the next one; ids naming no worker, and finished workers, stutter.

Atomicity assumption (trusted): code between two scheduling points is atomic with respect to the
other scenario threads.  Under this harness it holds by construction; under CPython the shared sticky
state (``_entries``, the entry RLock, the state object) is only touched next to one of the points above.
"""
from __future__ import annotations

import threading as _real_threading
import time as _real_time
from dataclasses import dataclass, field
from typing import Any, Protocol

from vgi_rpc.rpc import CallContext, RpcServer

WATCHDOG_S = 20.0
TOKEN_KEY = b"c26-token-key-32-bytes-long!!!!!"

# thread kinds (same numbering as M_StickySched.kind_code)
K_REQ, K_REQ_CLOSE, K_DEL, K_REAP, K_SHUT = 0, 1, 2, 3, 4
KIND_NAMES = {K_REQ: "request", K_REQ_CLOSE: "request+close_session", K_DEL: "DELETE", K_REAP: "reaper", K_SHUT: "shutdown"}
# labels (same numbering as M_StickySched.label_code)
LABELS = ["time", "reglock", "elock", "begin", "work", "end", "hook1", "hook2", "done", "mklock"]
LABEL_CODE = {n: i for i, n in enumerate(LABELS)}
# events (same numbering as M_StickySched.ev_code)
EVENTS = ["Begin", "End", "Detach", "CloseStart", "CloseEnd"]
EVENT_CODE = {n: i for i, n in enumerate(EVENTS)}


class HarnessError(Exception):
    """The harness itself could not drive the scenario (never a property violation)."""


# ---------------------------------------------------------------------------------------------------
# the scheduler
# ---------------------------------------------------------------------------------------------------


class _Worker:
    def __init__(self, tid: int, kind: int):
        self.tid = tid
        self.kind = kind
        self.go = _real_threading.Event()
        self.label = "new"
        self.thread: _real_threading.Thread | None = None
        self.error: BaseException | None = None
        self.outcome = 0  # 0 unfinished; requests: 1 dispatched, 2 session_lost, 9 other; DELETE: 1 = 204, 2 = 200
        self.detail = ""


class Sched:
    def __init__(self) -> None:
        self.now = 0
        self.workers: list[_Worker] = []
        self.by_ident: dict[int, _Worker] = {}
        self.parked = _real_threading.Event()
        self.events: list[tuple[int, int]] = []  # (event code, tid)   tid = 99 for a non-scenario thread
        self.reglock: SchedLock | None = None
        self.elocks: list[SchedRLock] = []
        self.stop_reaper = False
        self.free_running = False  # drain at the end: yields still hand over, driver keeps stepping

    # ---- worker side ----------------------------------------------------------------------------
    def current(self) -> _Worker | None:
        return self.by_ident.get(_real_threading.get_ident())

    def yield_(self, label: str) -> None:
        w = self.current()
        if w is None:
            return
        w.label = label
        w.go.clear()
        self.parked.set()
        if not w.go.wait(WATCHDOG_S * 6):
            raise HarnessError(f"worker {w.tid} abandoned at {label}")

    def emit(self, ev: str) -> None:
        w = self.current()
        self.events.append((EVENT_CODE[ev], 99 if w is None else w.tid))

    # ---- driver side ----------------------------------------------------------------------------
    def start(self, w: _Worker, body: Any) -> None:
        def run() -> None:
            self.by_ident[_real_threading.get_ident()] = w
            try:
                body(w)
                w.label = "done"
            except BaseException as e:  # noqa: BLE001 - reported by the driver
                w.error = e
                w.label = "crashed"
            finally:
                self.parked.set()

        self.parked.clear()
        t = _real_threading.Thread(target=run, daemon=True, name=f"c26-w{w.tid}")
        w.thread = t
        t.start()
        if not self.parked.wait(WATCHDOG_S):
            raise HarnessError(f"worker {w.tid} did not reach its first scheduling point")
        self._check(w)

    def _check(self, w: _Worker) -> None:
        if w.label == "crashed":
            raise HarnessError(f"worker {w.tid} ({KIND_NAMES[w.kind]}) raised {type(w.error).__name__}: {w.error}") from w.error

    def step(self, sid: int) -> None:
        if sid == 0:
            self.now += 1
            return
        i = sid - 1
        if i >= len(self.workers):
            return
        w = self.workers[i]
        if w.label in ("done", "crashed"):
            return
        self.parked.clear()
        w.go.set()
        if not self.parked.wait(WATCHDOG_S):
            raise HarnessError(f"worker {w.tid} did not come back to a scheduling point (was at {w.label})")
        self._check(w)


class SchedLock:
    """Stands in for ``threading.Lock`` (the registry lock)."""

    label = "reglock"

    def __init__(self, sched: Sched):
        self.s = sched
        self.owner: Any = None

    def acquire(self, blocking: bool = True, timeout: float = -1) -> bool:
        w = self.s.current()
        me: Any = w if w is not None else ("free", _real_threading.get_ident())
        if w is not None:
            self.s.yield_(self.label)
            while self.owner is not None:
                if not blocking or timeout >= 0:
                    return False  # try-lock / timed acquire: the other thread never lets go in time
                self.s.yield_(self.label)  # held by a parked thread: this step was a stutter
        elif self.owner is not None:
            raise HarnessError(f"{self.label} is held by a parked scenario thread while non-scenario code wants it")
        self.owner = me
        return True

    def release(self) -> None:
        if self.owner is None:
            raise RuntimeError("release unlocked lock")
        self.owner = None

    def locked(self) -> bool:
        return self.owner is not None

    def __enter__(self) -> bool:
        return self.acquire()

    def __exit__(self, *a: Any) -> None:
        self.release()

    def owner_code(self) -> int:
        """0 = free, tid+1 = held by worker tid, 98 = held by non-scenario code."""
        if self.owner is None:
            return 0
        return self.owner.tid + 1 if isinstance(self.owner, _Worker) else 98


class SchedRLock(SchedLock):
    """Stands in for ``threading.RLock`` (the per-entry lock)."""

    label = "elock"

    def __init__(self, sched: Sched):
        super().__init__(sched)
        self.count = 0
        sched.elocks.append(self)

    def acquire(self, blocking: bool = True, timeout: float = -1) -> bool:
        w = self.s.current()
        me: Any = w if w is not None else ("free", _real_threading.get_ident())
        if w is not None:
            self.s.yield_(self.label)
            while self.owner is not None and self.owner is not me:
                if not blocking or timeout >= 0:
                    return False
                self.s.yield_(self.label)
        elif self.owner is not None and self.owner != me:
            raise HarnessError("entry lock is held by a parked scenario thread while non-scenario code wants it")
        self.owner = me
        self.count += 1
        return True

    def release(self) -> None:
        w = self.s.current()
        me: Any = w if w is not None else ("free", _real_threading.get_ident())
        if self.owner is None or (self.owner is not me and self.owner != me):
            raise RuntimeError("cannot release un-acquired lock")
        self.count -= 1
        if self.count == 0:
            self.owner = None


class SchedEvent:
    """Stands in for ``threading.Event`` (only the reaper's stop flag).  ``wait`` never sleeps: a tick has
    always elapsed; it is not a scheduling point (the reaper parks at its next clock read)."""

    def __init__(self, sched: Sched):
        self.s = sched
        self.flag = False

    def set(self) -> None:
        self.flag = True

    def is_set(self) -> bool:
        return self.flag

    def clear(self) -> None:
        self.flag = False

    def wait(self, timeout: float | None = None) -> bool:
        return self.flag or self.s.stop_reaper


class _ThreadingShim:
    """What ``_sticky.threading`` is rebound to.  Unknown primitives fail closed."""

    Thread = _real_threading.Thread
    get_ident = staticmethod(_real_threading.get_ident)
    current_thread = staticmethod(_real_threading.current_thread)

    def __init__(self, sched: Sched):
        self._s = sched

    def Lock(self) -> SchedLock:  # noqa: N802
        self._s.yield_("mklock")
        lk = SchedLock(self._s)
        if self._s.reglock is None:
            self._s.reglock = lk  # first Lock() of an app build is the registry's (checked by the driver)
        return lk

    def RLock(self) -> SchedRLock:  # noqa: N802
        self._s.yield_("mklock")  # transparent for non-scenario code (open()); a scheduling point otherwise
        return SchedRLock(self._s)

    def Event(self) -> SchedEvent:  # noqa: N802
        return SchedEvent(self._s)

    def __getattr__(self, name: str) -> Any:
        raise HarnessError(f"_sticky uses threading.{name}, which the C26 harness does not interpose")


class _TimeShim:
    def __init__(self, sched: Sched):
        self._s = sched

    def time(self) -> float:
        self._s.yield_("time")
        return float(self._s.now)

    def monotonic(self) -> float:
        self._s.yield_("time")
        return float(self._s.now)

    def __getattr__(self, name: str) -> Any:
        raise HarnessError(f"_sticky uses time.{name}, which the C26 harness does not interpose")


# ---------------------------------------------------------------------------------------------------
# the service (module level: the HTTP app resolves the type hints)
# ---------------------------------------------------------------------------------------------------

_CURRENT: list[Sched] = []  # the scheduler of the scenario in progress (one at a time)


class SessState:
    """The session state object; its methods are the observation points of the property."""

    def __init__(self, sched: Sched):
        self.s = sched

    def begin(self) -> None:
        self.s.yield_("begin")
        self.s.emit("Begin")

    def end(self) -> None:
        self.s.yield_("work")
        self.s.emit("End")

    def detach(self) -> None:
        self.s.yield_("work")
        self.s.emit("Detach")

    def end_after_close(self) -> None:
        self.s.yield_("end")
        self.s.emit("End")

    def close(self) -> None:
        self.s.yield_("hook1")
        self.s.emit("CloseStart")
        self.s.yield_("hook2")
        self.s.emit("CloseEnd")


class C26Service(Protocol):
    def open_s(self, ttl: int) -> int: ...
    def plain(self, x: int) -> int: ...
    def closing(self, x: int) -> int: ...


class C26Impl:
    def open_s(self, ttl: int, ctx: CallContext) -> int:
        ctx.open_session(SessState(_CURRENT[-1]), ttl=float(ttl))
        return 0

    def plain(self, x: int, ctx: CallContext) -> int:
        s = ctx.session
        if not isinstance(s, SessState):
            raise RuntimeError("no session bound")
        s.begin()
        s.end()
        return x

    def closing(self, x: int, ctx: CallContext) -> int:
        s = ctx.session
        if not isinstance(s, SessState):
            raise RuntimeError("no session bound")
        s.begin()
        s.detach()
        ctx.close_session()
        s.end_after_close()
        return x


_SERVER: list[RpcServer] = []


def _server() -> RpcServer:
    if not _SERVER:
        _SERVER.append(RpcServer(C26Service, C26Impl()))
    return _SERVER[0]


# ---------------------------------------------------------------------------------------------------
# one scenario
# ---------------------------------------------------------------------------------------------------


@dataclass
class RunResult:
    schedule: list[int]  # the schedule actually executed (given schedule + drain suffix)
    given: int  # length of the given prefix
    snaps: list[list[int]] = field(default_factory=list)  # per step: [now, present, reglock owner, elock owner, n events] + labels
    events: list[tuple[int, int]] = field(default_factory=list)
    outcomes: list[int] = field(default_factory=list)
    details: list[str] = field(default_factory=list)

    def key(self) -> Any:
        return (self.schedule, self.snaps, self.events, self.outcomes)


class Scenario:
    """pool: list of thread kinds; ttl: session TTL in logical seconds (the session is opened at time 0)."""

    def __init__(self, pool: list[int], ttl: int):
        import falcon.testing
        from harness.rawrpc import request_bytes
        from vgi_rpc.http import make_wsgi_app
        from vgi_rpc.http._common import SESSION_ACCEPT_HEADER, SESSION_HEADER
        from vgi_rpc.http.server import _sticky

        self._sticky = _sticky
        self.pool = pool
        self.ttl = ttl
        self.s = Sched()
        self._saved = (_sticky.threading, _sticky.time)
        _sticky.threading = _ThreadingShim(self.s)  # type: ignore[assignment]
        _sticky.time = _TimeShim(self.s)  # type: ignore[assignment]
        _CURRENT.append(self.s)
        try:
            srv = _server()
            self.app = make_wsgi_app(
                srv, prefix="", enable_sticky=True, sticky_default_ttl=300.0, token_key=TOKEN_KEY,
                enable_landing_page=False, enable_not_found_page=False, enable_describe_page=False,
            )
            self.mw = next(
                m.__self__ for grp in self.app._middleware for m in grp if isinstance(getattr(m, "__self__", None), _sticky._StickyMiddleware)
            )
            self.registry = self.mw._registry
            if self.registry._lock is not self.s.reglock:
                raise HarnessError("the registry lock is not the interposed lock")
            # our own reaper instance (the real class, the real run()), driven as a scenario thread;
            # installing it in the middleware slot keeps _ensure_reaper from starting a free-running one.
            self.reaper = _sticky._ReaperThread(self.registry, tick_seconds=1.0)
            self.mw._reaper = self.reaper
            self.hdr = {"Content-Type": "application/vnd.apache.arrow.stream"}
            self._rb = request_bytes
            self._schemas = {m: srv._methods[m].params_schema for m in ("open_s", "plain", "closing")}
            self._SESSION_HEADER = SESSION_HEADER
            # open the session (non-scenario code: scheduling points are transparent)
            c = falcon.testing.TestClient(self.app)
            r = c.simulate_post("/open_s", body=self._body("open_s", {"ttl": ttl}), headers={**self.hdr, SESSION_ACCEPT_HEADER: "true"})
            self.token = r.headers.get(SESSION_HEADER)
            if r.status_code != 200 or not self.token or len(self.registry) != 1:
                raise HarnessError(f"could not open the session: {r.status_code} {r.content[:200]!r}")
            # the entry lock(s): normally exactly one, created by open(); a tree that creates it elsewhere (lazily,
            # per access, ...) is still driven -- every RLock built through the shim is tracked in s.elocks
            entry = next(iter(self.registry._entries.values()))
            probe = getattr(entry, "__dict__", {}).get("lock")
            if probe is not None and not isinstance(probe, SchedRLock):
                raise HarnessError("the entry lock is not the interposed RLock")
            self.s.workers = [_Worker(i, k) for i, k in enumerate(pool)]
            for w in self.s.workers:
                self.s.start(w, self._body_of(w.kind))
        except BaseException:
            self._restore()
            raise

    def _body(self, method: str, row: dict[str, Any]) -> bytes:
        return self._rb(method, self._schemas[method], row)

    def _restore(self) -> None:
        self._sticky.threading, self._sticky.time = self._saved  # type: ignore[assignment]
        if _CURRENT and _CURRENT[-1] is self.s:
            _CURRENT.pop()

    # ---- thread bodies (run on scenario threads) ----------------------------------------------------
    def _body_of(self, kind: int) -> Any:
        import falcon.testing
        from harness.rawrpc import error_of, read_streams

        def request(method: str) -> Any:
            def body(w: _Worker) -> None:
                c = falcon.testing.TestClient(self.app)
                r = c.simulate_post(f"/{method}", body=self._body(method, {"x": w.tid}), headers={**self.hdr, self._SESSION_HEADER: self.token})
                err = None
                try:
                    st = read_streams(r.content)
                    err = error_of(st[0]) if st else ("empty", "", None)
                except Exception as e:  # noqa: BLE001
                    err = ("unparseable", type(e).__name__, None)
                if err is None and r.status_code == 200:
                    w.outcome = 1
                elif err is not None and err[0] == "SessionLostError":
                    w.outcome = 2
                else:
                    w.outcome = 9
                w.detail = f"{r.status_code} {err}"

            return body

        def delete(w: _Worker) -> None:
            c = falcon.testing.TestClient(self.app)
            r = c.simulate_delete("/__session__", headers={self._SESSION_HEADER: self.token})
            w.outcome = 1 if r.status_code == 204 else (2 if r.status_code == 200 else 9)
            w.detail = str(r.status_code)

        def reaper(w: _Worker) -> None:
            self.reaper.run()  # the real loop: while not stop.wait(tick): registry.drain_expired()

        def shutdown(w: _Worker) -> None:
            from vgi_rpc.http.server._sticky import drain_handle

            h = drain_handle(self.app)
            if h is None:
                raise HarnessError("drain_handle(app) is None")
            h.shutdown()

        return {K_REQ: request("plain"), K_REQ_CLOSE: request("closing"), K_DEL: delete, K_REAP: reaper, K_SHUT: shutdown}[kind]

    # ---- driver ---------------------------------------------------------------------------------------
    def snapshot(self) -> list[int]:
        s = self.s
        assert s.reglock is not None
        present = 1 if len(self.registry._entries) else 0  # read without the lock: only the driver runs
        held = [lk.owner_code() for lk in s.elocks if lk.owner is not None]
        return [s.now, present, s.reglock.owner_code(), held[0] if held else 0, len(s.events)] + [LABEL_CODE.get(w.label, 99) for w in s.workers]

    def run(self, schedule: list[int], drain: bool = True) -> RunResult:
        res = RunResult(schedule=list(schedule), given=len(schedule))
        try:
            for sid in schedule:
                self.s.step(sid)
                res.snaps.append(self.snapshot())
            if drain:
                # let everything that is not the reaper finish, and the reaper leave its close path
                for _ in range(400):
                    live = [
                        w for w in self.s.workers
                        if w.label not in ("done", "crashed") and not (w.kind == K_REAP and w.label == "time")
                    ]
                    if not live:
                        break
                    for w in live:
                        self.s.step(w.tid + 1)
                        res.schedule.append(w.tid + 1)
                        res.snaps.append(self.snapshot())
                else:
                    raise HarnessError("drain did not terminate (deadlock?)")
            res.events = list(self.s.events)
            res.outcomes = [w.outcome for w in self.s.workers]
            res.details = [w.detail for w in self.s.workers]
            return res
        finally:
            self.close()

    def close(self) -> None:
        try:
            self.s.stop_reaper = True
            for _ in range(2000):
                live = [w for w in self.s.workers if w.label not in ("done", "crashed")]
                if not live:
                    break
                for w in live:
                    self.s.parked.clear()
                    w.go.set()
                    self.s.parked.wait(WATCHDOG_S)
            for w in self.s.workers:
                if w.thread is not None:
                    w.thread.join(WATCHDOG_S)
        finally:
            self._restore()


def run_schedule(pool: list[int], ttl: int, schedule: list[int], drain: bool = True) -> RunResult:
    return Scenario(pool, ttl).run(schedule, drain=drain)


# ---------------------------------------------------------------------------------------------------
# the property's own predicate on an observed event trace (independent of the model)
# ---------------------------------------------------------------------------------------------------


def judge(events: list[tuple[int, int]]) -> dict[str, Any]:
    """Evaluate the statement on a trace of (event, tid).

    Readings (module docstring of props/C26.py): a request dispatches against the session from its
    ``Begin`` until its ``End`` or until it calls ``close_session`` itself (``Detach``), whichever is first.
    """
    disp: list[int] = []
    cs = ce = 0
    out: dict[str, Any] = {"mutex": None, "close_twice": None, "close_during": None, "dispatch_after": None}
    for idx, (ev, tid) in enumerate(events):
        name = EVENTS[ev]
        if name == "Begin":
            if disp and out["mutex"] is None:
                out["mutex"] = {"at": idx, "tid": tid, "dispatching": list(disp)}
            if cs > 0 and out["dispatch_after"] is None:
                out["dispatch_after"] = {"at": idx, "tid": tid}
            disp.append(tid)
        elif name in ("End", "Detach"):
            disp = [t for t in disp if t != tid]
        elif name == "CloseStart":
            if cs > 0 and out["close_twice"] is None:
                out["close_twice"] = {"at": idx, "tid": tid}
            others = [t for t in disp if t != tid]
            if others and out["close_during"] is None:
                out["close_during"] = {"at": idx, "closer": tid, "dispatching": others}
            cs += 1
        elif name == "CloseEnd":
            ce += 1
    out["close_starts"] = cs
    out["close_ends"] = ce
    return out
