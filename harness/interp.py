"""Generic *interpreter service*: arbitrary service behaviours as data, served by the REAL RpcServer.

One Protocol ``Interp`` whose implementation replays a JSON-able **program** selected by an integer id.

Program grammar (plain dicts / lists, JSON-able)
------------------------------------------------
log      := [level, message, {extra_key: extra_value}]          level in LEVELS (EXCEPTION is allowed: the
                                                                  client turns an EXCEPTION-level batch into an RpcError)
exc      := [exception_class_name, message]                      class from EXC_TABLE
unary    := {"logs": [log...], "result": {"ok": int} | {"raise": exc}}
stream   := {"init_logs": [log...], "init": "ok" | {"raise": exc} | "bad_return",
             "header": int | None,                               used by the *_h methods (None there = the
                                                                  implementation fault "declared header missing")
             "steps": [step...]}
step     := {"logs": [log...], "emit": {"rows": int, "meta": {str: str} | None} | None,
             "finish": bool, "raise": exc | None}
Execution order inside one step: logs, emit, finish, raise.  An emitted batch has one int64 column ``v`` holding
``rows`` copies of the step index (its *tag*), so order and identity of batches are observable.
A producer step past the end of ``steps`` calls ``out.finish()``; an exchange step past the end emits an empty batch.

Client scripts
--------------
["unary", pid]
["iterate", method, pid, k, after]       method in {"producer","producer_h"}; after in {"stop","close","cancel","abandon"};
                                         "stop" iterates to exhaustion (k ignored), the others take at most k batches first
["exchange", method, pid, n_inputs, after]  method in {"exchange","exchange_h"}; after in {"close","cancel","abandon"}

Trace events (client observation; timing, ids, tracebacks, server_id, request_id, fetch provenance excluded)
["log", level, message, extras] ["result", v] ["header", h] ["batch", rows, meta, tag] ["error", type, message]
["done"] (producer exhausted)   ["cb_raised"] (the on_log callback raised; mode "raise")   ["client_exc", type, msg]
(a non-RpcError escaped the client API)   ["blocked"] (watchdog: the client did not return).
The trace is cut after the first error / cb_raised / client_exc / blocked.
"""
from __future__ import annotations

import contextlib
import json
import os
import sys
import threading
from dataclasses import dataclass
from typing import Any, Callable, Iterator, Protocol

import pyarrow as pa

from vgi_rpc.log import Level, Message
from vgi_rpc.rpc import (
    AnnotatedBatch,
    CallContext,
    OutputCollector,
    RpcConnection,
    RpcError,
    RpcServer,
    Stream,
    StreamState,
)
from vgi_rpc.utils import ArrowSerializableDataclass

LEVELS = ["EXCEPTION", "ERROR", "WARN", "INFO", "DEBUG", "TRACE"]
OUT_SCHEMA = pa.schema([pa.field("v", pa.int64())])
IN_SCHEMA = pa.schema([pa.field("x", pa.int64())])
PROGRAMS_ENV = "VERIF_INTERP_PROGRAMS"


class InterpUserError(Exception):
    """A user-defined exception class."""


class InterpKindError(Exception):
    """A typed error advertising an ``error_kind`` (see Message.from_exception)."""

    error_kind = "interp_kind"


EXC_TABLE: dict[str, type[BaseException]] = {
    "ValueError": ValueError,
    "RuntimeError": RuntimeError,
    "KeyError": KeyError,
    "InterpUserError": InterpUserError,
    "InterpKindError": InterpKindError,
}


def make_exc(cls: str, message: str) -> BaseException:
    return EXC_TABLE[cls](message)


def exc_text(cls: str, message: str) -> str:
    """``str(exc)`` of the exception the interpreter raises (KeyError reprs its argument)."""
    return str(make_exc(cls, message))


def exc_kind(cls: str) -> str | None:
    k = getattr(EXC_TABLE[cls], "error_kind", None)
    return k if isinstance(k, str) else None


# ---------------------------------------------------------------------------
# program registry
# ---------------------------------------------------------------------------
WARMUP_PID = 0  # built-in program: a silent unary call, used to wait until a subprocess worker is up
PROGRAMS: dict[int, dict[str, Any]] = {WARMUP_PID: {"logs": [], "result": {"ok": 0}}}
CALLS: list[tuple[Any, ...]] = []  # server-side observation (in-process transports only)
_LOCK = threading.Lock()


def register(pid: int, prog: dict[str, Any]) -> None:
    PROGRAMS[int(pid)] = prog


def register_many(progs: dict[int, dict[str, Any]]) -> None:
    for k, v in progs.items():
        register(k, v)


def dump_programs(path: str, progs: dict[int, dict[str, Any]] | None = None) -> None:
    """Write programs for a subprocess worker and point PROGRAMS_ENV at the file."""
    data = {str(k): v for k, v in (progs if progs is not None else PROGRAMS).items()}
    tmp = path + ".tmp"
    with open(tmp, "w") as fh:
        json.dump(data, fh)
    os.replace(tmp, path)
    os.environ[PROGRAMS_ENV] = path


def load_env_programs() -> None:
    path = os.environ.get(PROGRAMS_ENV)
    if path and os.path.exists(path):
        with open(path) as fh:
            for k, v in json.load(fh).items():
                PROGRAMS[int(k)] = v


def lookup(pid: int) -> dict[str, Any]:
    p = PROGRAMS.get(pid)
    if p is None:
        with _LOCK:
            load_env_programs()
        p = PROGRAMS.get(pid)
    if p is None:
        raise LookupError(f"no interpreter program {pid}")
    return p


load_env_programs()


# ---------------------------------------------------------------------------
# the service
# ---------------------------------------------------------------------------
@dataclass(frozen=True)
class Hdr(ArrowSerializableDataclass):
    """Stream header."""

    h: int


def _emit_logs(logs: list[Any], log: Callable[..., None]) -> None:
    for lvl, msg, extra in logs:
        log(Level(lvl), msg, **(extra or {}))


def _run_step(state: Any, out: OutputCollector, ctx: CallContext, producer: bool) -> None:
    prog = lookup(state.pid)
    steps = prog.get("steps", [])
    i = state.i
    state.i = i + 1
    CALLS.append(("process", state.pid, i))
    if i >= len(steps):
        if producer:
            out.finish()
        else:
            out.emit_pydict({"v": []})
        return
    st = steps[i]
    _emit_logs(st.get("logs") or [], ctx.client_log)
    em = st.get("emit")
    if em is not None:
        out.emit_pydict({"v": [i] * int(em["rows"])}, metadata=(em.get("meta") or None))
    if st.get("finish"):
        out.finish()
    if st.get("raise"):
        raise make_exc(*st["raise"])


@dataclass
class ProdState(StreamState):
    """Producer cursor: (program id, next step index) -- serialisable into HTTP state tokens."""

    pid: int
    i: int = 0

    def process(self, input: AnnotatedBatch, out: OutputCollector, ctx: CallContext) -> None:  # noqa: A002
        _run_step(self, out, ctx, producer=True)

    def on_cancel(self, ctx: CallContext) -> None:
        CALLS.append(("cancel", self.pid, self.i))


@dataclass
class ExchState(StreamState):
    """Exchange cursor."""

    pid: int
    i: int = 0

    def process(self, input: AnnotatedBatch, out: OutputCollector, ctx: CallContext) -> None:  # noqa: A002
        CALLS.append(("input", self.pid, self.i, input.batch.schema.names, input.batch.num_rows))
        _run_step(self, out, ctx, producer=False)

    def on_cancel(self, ctx: CallContext) -> None:
        CALLS.append(("cancel", self.pid, self.i))


class Interp(Protocol):
    """The interpreter protocol: every supported method shape once."""

    def unary(self, pid: int) -> int: ...

    def producer(self, pid: int) -> Stream[ProdState]: ...

    def producer_h(self, pid: int) -> Stream[ProdState, Hdr]: ...

    def exchange(self, pid: int) -> Stream[ExchState]: ...

    def exchange_h(self, pid: int) -> Stream[ExchState, Hdr]: ...


class InterpImpl:
    """Replays the registered programs."""

    def unary(self, pid: int, ctx: CallContext) -> int:
        prog = lookup(pid)
        CALLS.append(("unary", pid))
        _emit_logs(prog.get("logs") or [], ctx.client_log)
        res = prog["result"]
        if "raise" in res:
            raise make_exc(*res["raise"])
        return int(res["ok"])

    def _init(self, method: str, pid: int, ctx: CallContext, exchange: bool, with_header: bool) -> Any:
        prog = lookup(pid)
        CALLS.append(("init", method, pid))
        _emit_logs(prog.get("init_logs") or [], ctx.client_log)
        init = prog.get("init", "ok")
        if isinstance(init, dict) and "raise" in init:
            raise make_exc(*init["raise"])
        if init == "bad_return":
            return 17  # implementation fault: not a Stream
        header = None
        if with_header and prog.get("header") is not None:
            header = Hdr(h=int(prog["header"]))
        if exchange:
            return Stream(output_schema=OUT_SCHEMA, state=ExchState(pid=pid), input_schema=IN_SCHEMA, header=header)
        return Stream(output_schema=OUT_SCHEMA, state=ProdState(pid=pid), header=header)

    def producer(self, pid: int, ctx: CallContext) -> Stream[ProdState]:
        return self._init("producer", pid, ctx, False, False)  # type: ignore[no-any-return]

    def producer_h(self, pid: int, ctx: CallContext) -> Stream[ProdState, Hdr]:
        return self._init("producer_h", pid, ctx, False, True)  # type: ignore[no-any-return]

    def exchange(self, pid: int, ctx: CallContext) -> Stream[ExchState]:
        return self._init("exchange", pid, ctx, True, False)  # type: ignore[no-any-return]

    def exchange_h(self, pid: int, ctx: CallContext) -> Stream[ExchState, Hdr]:
        return self._init("exchange_h", pid, ctx, True, True)  # type: ignore[no-any-return]


METHOD_KIND = {"unary": "unary", "producer": "producer", "producer_h": "producer", "exchange": "exchange", "exchange_h": "exchange"}
METHOD_HEADER = {"unary": False, "producer": False, "producer_h": True, "exchange": False, "exchange_h": True}


# ---------------------------------------------------------------------------
# client observation
# ---------------------------------------------------------------------------
class CallbackBoom(Exception):
    """Raised by the on_log callback in mode "raise"."""


_HIDDEN_EXTRAS = ("server_id", "request_id")


class Recorder:
    """Collects the client-side trace; ``on_log`` is handed to the connection."""

    def __init__(self, mode: str = "record") -> None:
        assert mode in ("record", "raise")
        self.mode = mode
        self.events: list[list[Any]] = []

    def on_log(self, msg: Message) -> None:
        if self.mode == "raise":
            self.events.append(["cb_raised"])
            raise CallbackBoom("on_log callback raised")
        extras = {k: v for k, v in (msg.extra or {}).items() if k not in _HIDDEN_EXTRAS}
        self.events.append(["log", msg.level.value, msg.message, extras])


@dataclass
class Conn:
    """What ``open_transport`` yields."""

    proxy: Any
    rec: Recorder
    kind: str
    cfg: dict[str, Any]
    closer: Callable[[], None] | None = None
    poisoned: bool = False


def _app_meta(cm: pa.KeyValueMetadata | None) -> dict[str, str] | None:
    """Application metadata of a data batch: framework keys (vgi_rpc.*) are not part of the observation."""
    if cm is None:
        return None
    out = {}
    for k, v in cm.items():
        ks = k.decode() if isinstance(k, bytes) else k
        if ks.startswith("vgi_rpc."):
            continue
        out[ks] = v.decode() if isinstance(v, bytes) else v
    return out or None


def _batch_event(ab: AnnotatedBatch) -> list[Any]:
    b = ab.batch
    vals = b.column("v").to_pylist() if "v" in b.schema.names else []
    tag = vals[0] if vals else None
    if vals and any(x != tag for x in vals):
        tag = -1
    return ["batch", b.num_rows, _app_meta(ab.custom_metadata), tag]


TERMINAL = ("error", "cb_raised", "client_exc", "blocked")


def cut(events: list[list[Any]]) -> list[list[Any]]:
    """C01: compare up to and including the first error."""
    out = []
    for e in events:
        out.append(e)
        if e[0] in TERMINAL:
            break
    return out


def input_batch(j: int) -> AnnotatedBatch:
    """The j-th exchange input (1 + j mod 3 rows)."""
    return AnnotatedBatch.from_pydict({"x": [j] * (1 + j % 3)}, schema=IN_SCHEMA)


def _play(proxy: Any, script: list[Any], ev: list[list[Any]], hooks: dict[str, Any]) -> None:
    op = script[0]
    if op == "unary":
        ev.append(["result", proxy.unary(pid=script[1])])
        return
    method, pid, k, after = script[1], script[2], script[3], script[4]
    sess = getattr(proxy, method)(pid=pid)
    hooks["session"] = sess
    if METHOD_HEADER[method]:
        h = sess.header
        ev.append(["header", getattr(h, "h", None)])
    if op == "iterate":
        it = iter(sess)
        n = 0
        while after == "stop" or n < k:
            try:
                ab = next(it)
            except StopIteration:
                ev.append(["done"])
                break
            ev.append(_batch_event(ab))
            n += 1
    elif op == "exchange":
        for j in range(k):
            ev.append(_batch_event(sess.exchange(input_batch(j))))
    else:
        raise ValueError(f"unknown script op {op!r}")
    if after == "close":
        sess.close()
    elif after == "cancel":
        sess.cancel()
    for extra in script[5:]:
        # optional post-ops used by C10-style checks: "iterate_again" / "exchange_again" after close/cancel
        if extra == "iterate_again":
            for ab in sess:
                ev.append(_batch_event(ab))
            ev.append(["done"])
        elif extra == "exchange_again":
            ev.append(_batch_event(sess.exchange(input_batch(0))))


def run_script(conn: Conn, script: list[Any], timeout: float = 10.0) -> list[list[Any]]:
    """Run one client script on the connection; return the (cut) trace.  A hang shows up as ["blocked"]."""
    rec = conn.rec
    ev: list[list[Any]] = []
    rec.events = ev
    hooks: dict[str, Any] = {}

    def body() -> None:
        try:
            _play(conn.proxy, script, ev, hooks)
        except RpcError as e:
            ev.append(["error", e.error_type, e.error_message])
        except CallbackBoom:
            if not ev or ev[-1] != ["cb_raised"]:
                ev.append(["cb_raised"])
        except BaseException as e:  # noqa: BLE001 - anything else escaping the client API is an observation
            ev.append(["client_exc", type(e).__name__, str(e)[:200]])

    t = threading.Thread(target=body, daemon=True, name="interp-script")
    t.start()
    t.join(timeout)
    if t.is_alive():
        conn.poisoned = True
        snapshot = list(ev) + [["blocked"]]
        if conn.closer is not None:
            with contextlib.suppress(Exception):
                conn.closer()
            t.join(2.0)
        return cut(snapshot)
    return cut(list(ev))


# ---------------------------------------------------------------------------
# externalisation backend (in memory) -- real HTTP sockets do not work in the sandbox
# ---------------------------------------------------------------------------
class MemStorage:
    """ExternalStorage keeping uploads in a dict; ``vgi_rpc.external.fetch_url`` is redirected to it."""

    data: dict[str, bytes] = {}
    _n = 0
    _lock = threading.Lock()

    def upload(self, data: bytes, schema: pa.Schema, *, content_encoding: str | None = None) -> str:
        with MemStorage._lock:
            MemStorage._n += 1
            url = f"https://mem.storage.invalid/{MemStorage._n}"
            MemStorage.data[url] = bytes(data)
        return url


_FETCH_PATCHED = False


def _install_fetch_patch() -> None:
    global _FETCH_PATCHED
    if _FETCH_PATCHED:
        return
    import vgi_rpc.external as ext

    real = ext.fetch_url

    def fetch_url(url: str, config: Any, *, url_validator: Any = None) -> bytes:
        if url in MemStorage.data:
            if url_validator is not None:
                url_validator(url)
            return MemStorage.data[url]
        return real(url, config, url_validator=url_validator)

    ext.fetch_url = fetch_url  # type: ignore[assignment]
    _FETCH_PATCHED = True


def external_config(threshold: int = 1) -> Any:
    from vgi_rpc.external import ExternalLocationConfig

    _install_fetch_patch()
    return ExternalLocationConfig(storage=MemStorage(), externalize_threshold_bytes=threshold, max_retries=0, retry_delay_seconds=0.0)


# ---------------------------------------------------------------------------
# transports
# ---------------------------------------------------------------------------
_SERVERS: dict[bool, RpcServer] = {}
_HTTP_CLIENTS: dict[str, Any] = {}
_EXT_CFG: list[Any] = []


def _ext_cfg() -> Any:
    if not _EXT_CFG:
        _EXT_CFG.append(external_config())
    return _EXT_CFG[0]


def get_server(externalize: bool = False) -> RpcServer:
    s = _SERVERS.get(externalize)
    if s is None:
        s = RpcServer(Interp, InterpImpl(), external_location=_ext_cfg() if externalize else None)
        _SERVERS[externalize] = s
    return s


class _GzipOnlyClient:
    """Wraps the in-process test client: the response coding offered to the server is gzip only."""

    def __init__(self, inner: Any) -> None:
        self._inner = inner
        self.prefix = getattr(inner, "prefix", "")

    def post(self, url: str, *, content: bytes, headers: dict[str, str]) -> Any:
        h = dict(headers)
        if "Accept-Encoding" in h:
            h["Accept-Encoding"] = "gzip"
        return self._inner.post(url, content=content, headers=h)

    def __getattr__(self, name: str) -> Any:
        return getattr(self._inner, name)


HTTP_DEFAULT = {"max_response_bytes": None, "compression": None, "externalize": False}
SOCKET_KINDS = ("pipe", "unix", "tcp", "shm_pipe", "subprocess")


@contextlib.contextmanager
def open_transport(kind: str, cfg: dict[str, Any] | None = None, on_log: str = "record") -> Iterator[Conn]:
    """Yield a ``Conn`` (typed proxy + recorder) over the requested transport, served by the real RpcServer.

    kind: pipe | unix | tcp | shm_pipe | subprocess | http.
    http cfg: {"max_response_bytes": None|int, "compression": None|"zstd"|"gzip", "externalize": bool}.
    """
    cfg = dict(cfg or {})
    rec = Recorder(on_log)
    if kind == "http":
        from vgi_rpc.http import http_connect
        from vgi_rpc.http._testing import make_sync_client

        c = {**HTTP_DEFAULT, **cfg}
        key = json.dumps(c, sort_keys=True)
        client = _HTTP_CLIENTS.get(key)
        if client is None:
            client = make_sync_client(
                get_server(bool(c["externalize"])),
                token_key=b"verif-interp-token-key-0123456789",
                max_response_bytes=c["max_response_bytes"],
                compression_level=None if c["compression"] is None else 1,
                enable_landing_page=False,
                enable_describe_page=False,
                enable_not_found_page=False,
            )
            if c["compression"] == "gzip":
                client = _GzipOnlyClient(client)
            _HTTP_CLIENTS[key] = client
        with http_connect(
            Interp,
            client=client,
            on_log=rec.on_log,
            external_location=_ext_cfg() if c["externalize"] else None,
            compression_level=None if c["compression"] is None else 1,
        ) as proxy:
            yield Conn(proxy, rec, kind, c)
        return

    ext = _ext_cfg() if cfg.get("externalize") else None
    if kind == "subprocess":
        from vgi_rpc.rpc import SubprocessTransport

        if not os.environ.get(PROGRAMS_ENV):
            raise RuntimeError("dump_programs(path) must be called before opening a subprocess transport")
        transport: Any = SubprocessTransport([sys.executable, "-m", "harness.interp_worker"])
        conn = Conn(None, rec, kind, cfg, closer=transport.close)
        try:
            with RpcConnection(Interp, transport, on_log=rec.on_log, external_location=ext) as proxy:
                conn.proxy = proxy
                # Interpreter start-up (importing pyarrow etc. takes seconds under load) must not be charged to the
                # script's watchdog: wait for the worker with one silent unary call before any script runs.
                ready: list[Any] = []
                wt = threading.Thread(target=lambda: ready.append(proxy.unary(pid=WARMUP_PID)), daemon=True)
                wt.start()
                wt.join(float(cfg.get("startup_timeout", 120.0)))
                if ready != [0]:
                    raise RuntimeError("interp_worker did not answer the warm-up call (worker failed to start)")
                yield conn
        finally:
            with contextlib.suppress(Exception):
                transport.close()
        return

    from vgi_rpc.rpc import ShmPipeTransport, make_pipe_pair
    from vgi_rpc.rpc._transport import make_tcp_pair, make_unix_pair

    shm = None
    if kind == "pipe":
        ct, st = make_pipe_pair()
    elif kind == "unix":
        ct, st = make_unix_pair()
    elif kind == "tcp":
        ct, st = make_tcp_pair()
    elif kind == "shm_pipe":
        from vgi_rpc.shm import ShmSegment

        shm = ShmSegment.create(int(cfg.get("shm_size", 1 << 20)))
        cp, sp = make_pipe_pair()
        ct, st = ShmPipeTransport(cp, shm), ShmPipeTransport(sp, shm)
    else:
        raise ValueError(f"unknown transport kind {kind!r}")
    server = get_server(bool(cfg.get("externalize")))
    died: list[BaseException] = []

    def serve() -> None:
        try:
            server.serve(st)
        except BaseException as e:  # noqa: BLE001 - an exception escaping serve() is an observation (C04/C05)
            died.append(e)

    th = threading.Thread(target=serve, daemon=True, name=f"interp-serve-{kind}")
    th.start()
    conn = Conn(None, rec, kind, cfg, closer=ct.close)
    conn.server_died = died  # type: ignore[attr-defined]
    try:
        with RpcConnection(Interp, ct, on_log=rec.on_log, external_location=ext) as proxy:
            conn.proxy = proxy
            yield conn
    finally:
        with contextlib.suppress(Exception):
            ct.close()
        th.join(timeout=3)
        with contextlib.suppress(Exception):
            st.close()
        if shm is not None:
            with contextlib.suppress(Exception):
                shm.unlink()
            with contextlib.suppress(Exception):
                shm.close()


def run_case(kind: str, cfg: dict[str, Any] | None, script: list[Any], on_log: str = "record", timeout: float = 10.0) -> list[list[Any]]:
    """Fresh connection, one script."""
    with open_transport(kind, cfg, on_log) as conn:
        return run_script(conn, script, timeout=timeout)
