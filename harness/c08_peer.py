"""C08 drivers: hand-built peer log batches against the REAL client, and emission of arbitrary extras.

* ``dispatch_direct(md, rows)``  -- one call of the real ``_dispatch_log_or_error`` on a batch with the given metadata.
* ``call_through_client(mds)``   -- a complete unary call of the real client (``RpcConnection`` over an in-memory
  ``PipeTransport``) against a scripted peer whose response stream holds the given zero-row batches, then the result.
* ``install_message_emitter()``  -- the interpreter service (harness/interp.py) emits logs through
  ``ctx.client_log(level, msg, **extra)``, which cannot express extras named like the parameters of that call; this
  swaps (in this process only) the emitting helper for one that builds the ``Message`` and assigns ``.extra``; inside a
  step it alternates between ``ctx.emit_client_log`` and ``out.emit_client_log_message`` (both emission channels).
* JSON text generation with duplicate keys / reserved keys and its classification for the model.
"""
from __future__ import annotations

import io
import json
from typing import Any

import pyarrow as pa
from pyarrow import ipc

L_KEY, M_KEY, X_KEY = b"vgi_rpc.log_level", b"vgi_rpc.log_message", b"vgi_rpc.log_extra"
SID_KEY, RID_KEY = b"vgi_rpc.server_id", b"vgi_rpc.request_id"
RESULT_SCHEMA = pa.schema([pa.field("result", pa.int64())])


class Pairs(list):  # type: ignore[type-arg]
    """A JSON object as its member list in document order (duplicates kept)."""


def dispatch_direct(md: dict[bytes, bytes] | None, rows: int = 0) -> tuple[Any, ...]:
    """("notlog",) | ("deliver", level, text, extra-dict) | ("ignore",) | ("rpcerror", type, message) | ("crash", class)"""
    from vgi_rpc.rpc import RpcError
    from vgi_rpc.rpc._wire import _dispatch_log_or_error

    batch = pa.RecordBatch.from_arrays([pa.array([1] * rows, type=pa.int64())], schema=RESULT_SCHEMA)
    cm = pa.KeyValueMetadata(md) if md is not None else None
    got: list[Any] = []
    try:
        consumed = _dispatch_log_or_error(batch, cm, got.append)
    except RpcError as e:
        return ("rpcerror", e.error_type, e.error_message)
    except BaseException as e:  # noqa: BLE001 - the observation
        return ("crash", type(e).__name__)
    if not consumed:
        return ("notlog",)
    if not got:
        return ("ignore",)
    m = got[0]
    return ("deliver", m.level.value, m.message, dict(m.extra or {}))


def response_bytes(mds: list[dict[bytes, bytes]], result: int = 7) -> bytes:
    sink = io.BytesIO()
    with ipc.new_stream(sink, RESULT_SCHEMA) as w:
        for md in mds:
            w.write_batch(pa.RecordBatch.from_arrays([pa.array([], type=pa.int64())], schema=RESULT_SCHEMA), custom_metadata=pa.KeyValueMetadata(md))
        w.write_batch(pa.RecordBatch.from_arrays([pa.array([result], type=pa.int64())], schema=RESULT_SCHEMA))
    return sink.getvalue()


def call_through_client(mds: list[dict[bytes, bytes]]) -> tuple[Any, ...]:
    """("ok", result, [(level, text, extra)...]) | ("rpcerror", type, message, logs) | ("crash", class, text, logs)"""
    from harness.interp import Interp
    from vgi_rpc.rpc import RpcConnection, RpcError
    from vgi_rpc.rpc._transport import PipeTransport

    logs: list[Any] = []
    t = PipeTransport(io.BytesIO(response_bytes(mds)), io.BytesIO())  # type: ignore[arg-type]
    try:
        with RpcConnection(Interp, t, on_log=lambda m: logs.append((m.level.value, m.message, dict(m.extra or {})))) as proxy:
            r = proxy.unary(pid=1)
        return ("ok", r, logs)
    except RpcError as e:
        return ("rpcerror", e.error_type, e.error_message, logs)
    except BaseException as e:  # noqa: BLE001 - the observation
        return ("crash", type(e).__name__, str(e)[:160], logs)


def install_message_emitter() -> None:
    import harness.interp as interp
    from vgi_rpc.log import Level, Message

    def _emit_logs(logs: list[Any], log: Any) -> None:
        import sys

        ctx = log.__self__
        # inside a process() call the step's OutputCollector is the second emission channel (OutputCollector.
        # emit_client_log_message): alternate between the two, so that their relative order is observable
        out = sys._getframe(1).f_locals.get("out")
        for i, (lvl, msg, extra) in enumerate(logs):
            m = Message(Level(lvl), msg)
            m.extra = dict(extra) if extra else None
            if out is not None and i % 2 == 1:
                out.emit_client_log_message(m)
            else:
                ctx.emit_client_log(m)

    interp._emit_logs = _emit_logs  # type: ignore[assignment]


# --------------------------------------------------------------------------- JSON text
RESERVED = ["level", "message", "self"]
KEYS = ["a", "k", "level", "message", "self", "exception_type", "traceback", "server_id", "request_id", "", "ünï", "x y", "kwargs", "extra"]


def gen_json(rng: Any, depth: int) -> Any:
    r = rng.random()
    if depth <= 0 or r < 0.45:
        return rng.choice([None, True, False, 0, 1, -7, 2**70, 1.5, -0.0, 1e300, "", "s", "x\ny", "ü☃", 'q"uote', "INFO", "12"])
    if r < 0.7:
        return [gen_json(rng, depth - 1) for _ in range(rng.randrange(0, 4))]
    return gen_obj(rng, depth - 1)


def gen_obj(rng: Any, depth: int) -> Pairs:
    n = rng.choice([0, 1, 1, 2, 3, 5])
    out = Pairs()
    for _ in range(n):
        out.append((rng.choice(KEYS), gen_json(rng, depth)))
    if out and rng.random() < 0.3:  # a duplicate key with a distinguishable value
        k = rng.choice(out)[0]
        out.append((k, "dup" + str(rng.randrange(1000))))
    return out


def to_text(v: Any) -> str:
    if isinstance(v, Pairs):
        return "{" + ", ".join(json.dumps(k) + ": " + to_text(x) for k, x in v) + "}"
    if isinstance(v, list):
        return "[" + ", ".join(to_text(x) for x in v) + "]"
    return json.dumps(v)


def classify_extra(raw: bytes | None) -> tuple[str, Any]:
    """("absent", None) | ("fail", "PFJson"|"PFUnicode"|"PFValue"|"PFRecursion") | ("json", value with Pairs objects)."""
    if raw is None:
        return ("absent", None)
    try:
        text = raw.decode()
    except UnicodeDecodeError:
        return ("fail", "PFUnicode")
    try:
        return ("json", json.loads(text, object_pairs_hook=Pairs))
    except json.JSONDecodeError:
        return ("fail", "PFJson")
    except ValueError:
        return ("fail", "PFValue")
    except RecursionError:
        return ("fail", "PFRecursion")


def as_python(v: Any) -> Any:
    """What json.loads without a hook yields (dicts: last value wins)."""
    if isinstance(v, Pairs):
        return {k: as_python(x) for k, x in v}
    if isinstance(v, list):
        return [as_python(x) for x in v]
    return v


def run_zero_reads(kind: str, cfg: dict[str, Any] | None, method: str, pid: int, how: str, timeout: float = 10.0) -> list[list[Any]]:
    """Open a stream on a fresh connection, take NO batch, then end it: how in {"close", "cancel", "with", "with_raise"}.

    "with" leaves an empty ``with session:`` block; "with_raise" leaves it through an exception raised by the caller's
    own code before the first exchange.  Returns the client trace (same event vocabulary as harness.interp)."""
    import threading

    from harness import interp as I
    from vgi_rpc.rpc import RpcError

    class _Early(Exception):
        pass

    with I.open_transport(kind, cfg) as conn:
        ev: list[list[Any]] = []
        conn.rec.events = ev

        def body() -> None:
            try:
                sess = getattr(conn.proxy, method)(pid=pid)
                if I.METHOD_HEADER[method]:
                    ev.append(["header", getattr(sess.header, "h", None)])
                if how == "close":
                    sess.close()
                elif how == "cancel":
                    sess.cancel()
                elif how == "with":
                    with sess:
                        pass
                elif how == "with_raise":
                    try:
                        with sess:
                            raise _Early
                    except _Early:
                        pass
                else:
                    raise ValueError(how)
            except RpcError as e:
                ev.append(["error", e.error_type, e.error_message])
            except BaseException as e:  # noqa: BLE001 - the observation
                ev.append(["client_exc", type(e).__name__, str(e)[:200]])

        t = threading.Thread(target=body, daemon=True, name="c08-zero-reads")
        t.start()
        t.join(timeout)
        if t.is_alive():
            conn.poisoned = True
            if conn.closer is not None:
                try:
                    conn.closer()
                except Exception:  # noqa: BLE001
                    pass
                t.join(2.0)
            return I.cut(list(ev) + [["blocked"]])
        return I.cut(list(ev))
