"""C36 driver: the real Falcon app with a scripted resolver, a scripted authenticator and captured logs.

Nothing here decides anything about the property; it only runs ``POST /__introspect_token__`` against
``make_wsgi_app(...)`` of the tree under test and records what came back:
status, headers, body bytes, the resolver call log, the records of the ``vgi_rpc.http.introspect`` logger
(and every other ``vgi_rpc`` logger), and what falcon wrote to ``wsgi.errors``.
"""
from __future__ import annotations

import io
import json
import logging
from dataclasses import dataclass, field
from typing import Any, Protocol

import falcon
import falcon.testing

from vgi_rpc.http import AuthUnavailableError, make_wsgi_app
from vgi_rpc.http.server._introspect import TokenIdentity
from vgi_rpc.rpc import AuthContext, RpcServer

CALLER_HEADER = "X-C36-Caller"
PATH = "/__introspect_token__"
NEVER = 10**9  # a per-second limit that is never reached


class C36Svc(Protocol):
    """Minimal protocol; introspection is orthogonal to the RPC surface."""

    def ping(self) -> str: ...


class C36Impl:
    def ping(self) -> str:
        return "pong"


_EXC = {
    "RuntimeError": RuntimeError, "ValueError": ValueError, "KeyError": KeyError, "PermissionError": PermissionError,
    "OSError": OSError, "TypeError": TypeError, "TimeoutError": TimeoutError, "LookupError": LookupError,
}


class Scripted:
    """Resolver whose behaviour is set per request; logs every token it is handed."""

    def __init__(self) -> None:
        self.calls: list[str] = []
        self.behaviour: dict[str, Any] = {"kind": "none"}

    def __call__(self, token: str) -> Any:
        self.calls.append(token)
        b = self.behaviour
        k = b["kind"]
        if k == "none":
            return None
        if k == "identity":
            return TokenIdentity(principal=b["principal"], token_name=b["token_name"], ttl_seconds=b["ttl"])
        if k == "unavailable":
            raise AuthUnavailableError(b["detail"], retry_after=b["retry_after"])
        if k == "raise":
            raise _EXC[b["exc"]](b.get("msg", "resolver fault"))
        raise AssertionError(k)


def _authenticate(req: falcon.Request) -> AuthContext:
    spec = json.loads(req.get_header(CALLER_HEADER) or '{"mode": "reject"}')
    if spec["mode"] == "reject":
        raise ValueError("no credential")
    return AuthContext(domain="c36", authenticated=bool(spec["authenticated"]), principal=spec["principal"])


class _Capture(logging.Handler):
    def __init__(self) -> None:
        super().__init__(level=logging.DEBUG)
        self.records: list[logging.LogRecord] = []

    def emit(self, record: logging.LogRecord) -> None:
        self.records.append(record)


@dataclass
class Observation:
    status: int
    headers: dict[str, str]
    body: bytes
    calls: list[str]
    records: list[logging.LogRecord]
    other_records: list[logging.LogRecord]
    wsgi_errors: str
    escaped: str | None = None
    extra: dict[str, Any] = field(default_factory=dict)


class App:
    """One configured worker."""

    def __init__(self, *, enabled: bool, allow: list[str] | None, with_auth: bool, rate_limit: int = NEVER) -> None:
        self.resolver = Scripted()
        kwargs: dict[str, Any] = {}
        if enabled:
            kwargs["introspect_resolver"] = self.resolver
            kwargs["introspect_principals"] = allow
            kwargs["introspect_rate_limit"] = rate_limit
        if with_auth:
            kwargs["authenticate"] = _authenticate
        self.app = make_wsgi_app(
            RpcServer(C36Svc, C36Impl()), prefix="", token_key=b"k" * 32,
            enable_landing_page=False, enable_not_found_page=False, enable_describe_page=False, **kwargs,
        )
        self.client = falcon.testing.TestClient(self.app)

    def post(self, caller: dict[str, Any] | None, raw: bytes, behaviour: dict[str, Any], content_length: int | None | str = "auto") -> Observation:
        headers = {"Content-Type": "application/json"}
        if caller is not None:
            headers[CALLER_HEADER] = json.dumps(caller)
        if content_length != "auto" and content_length is not None:
            headers["Content-Length"] = str(content_length)
        self.resolver.behaviour = behaviour
        del self.resolver.calls[:]
        cap, cap_all = _Capture(), _Capture()
        lg = logging.getLogger("vgi_rpc.http.introspect")
        root = logging.getLogger("vgi_rpc")
        prev, prev_root = lg.level, root.level
        lg.addHandler(cap)
        lg.setLevel(logging.DEBUG)
        root.addHandler(cap_all)
        errs = io.StringIO()
        try:
            try:
                r = self.client.simulate_post(PATH, body=raw, headers=headers, wsgierrors=errs)
            except BaseException as e:  # noqa: BLE001 - an exception escaping the WSGI app is an observation
                return Observation(-1, {}, b"", list(self.resolver.calls), list(cap.records), [], errs.getvalue(), escaped=f"{type(e).__name__}: {e}")
        finally:
            lg.removeHandler(cap)
            lg.setLevel(prev)
            root.removeHandler(cap_all)
            root.setLevel(prev_root)
        other = [x for x in cap_all.records if x.name != "vgi_rpc.http.introspect"]
        return Observation(r.status_code, {k.lower(): v for k, v in r.headers.items()}, r.content, list(self.resolver.calls), list(cap.records), other, errs.getvalue())
