"""C11 harness: producer programs served by the REAL Falcon app; a recording HTTP client; resume drivers.

Program grammar (JSON-able; the step grammar is the one of harness/interp.py so that coq/model/M_Wire.v's
``step`` / ``exec_step`` apply unchanged):

program := {"init_logs": [log...], "header": int | None, "steps": [step...]}
step    := {"logs": [log...], "emit": {"rows": int, "rnd": bool, "meta": {str: str} | None} | None,
            "finish": bool, "raise": [exception_class_name, message] | None}
log     := [level, message, {extra}]

Execution order inside one step: logs, emit, finish, raise; a step past the end of ``steps`` calls ``out.finish()``.
An emitted batch carries its step index (its tag) in the metadata key ``t`` (so zero-row batches are identifiable too)
and in an int64 column ``v`` (``rows`` copies), plus an int64 column
``r`` that is either all zero (compressible) or a deterministic pseudo-random fill (incompressible: ``rnd``), so that
batch sizes on the wire -- plain and compressed -- can be placed on either side of any cap.

Three method shapes:
  prod_cs(pid)    the program id travels in the stream's CALL STATE (sealed once into the call token); the cursor
                  token carries only the step index -- a worker that resolves the wrong call would replay the wrong program
  prod_plain(pid) no call state: the cursor token carries (pid, step index)
  prod_h(pid)     like prod_cs, plus a declared stream header (its own IPC stream in the /init response)
"""
from __future__ import annotations

import random
from dataclasses import dataclass, field
from typing import Annotated, Any, ClassVar, Protocol

import pyarrow as pa

from vgi_rpc.log import Level
from vgi_rpc.rpc import AnnotatedBatch, CallContext, OutputCollector, RpcServer, Stream, StreamState
from vgi_rpc.utils import ArrowSerializableDataclass, Transient

OUT_SCHEMA = pa.schema([pa.field("v", pa.int64()), pa.field("r", pa.int64())])
TOKEN_KEY = b"verif-c11-token-key-0123456789ab"
OTHER_KEY = b"verif-c11-OTHER-key-0123456789ab"

PROGRAMS: dict[int, dict[str, Any]] = {}
CALLS: list[tuple[Any, ...]] = []


class C11UserError(Exception):
    """A user-defined exception class."""


EXC_TABLE: dict[str, type[BaseException]] = {"ValueError": ValueError, "RuntimeError": RuntimeError, "C11UserError": C11UserError}


def fill(pid: int, i: int, rows: int, rnd: bool) -> list[int]:
    if not rnd:
        return [0] * rows
    g = random.Random(pid * 100003 + i)
    return [g.getrandbits(63) for _ in range(rows)]


def _run_step(pid: int, i: int, out: OutputCollector, ctx: CallContext) -> None:
    prog = PROGRAMS[pid]
    steps = prog.get("steps", [])
    CALLS.append(("process", pid, i))
    if i >= len(steps):
        out.finish()
        return
    st = steps[i]
    for lvl, msg, extra in st.get("logs") or []:
        ctx.client_log(Level(lvl), msg, **(extra or {}))
    em = st.get("emit")
    if em is not None:
        rows = int(em["rows"])
        out.emit_pydict({"v": [i] * rows, "r": fill(pid, i, rows, bool(em.get("rnd")))}, metadata={"t": str(i), **(em.get("meta") or {})})
    if st.get("finish"):
        out.finish()
    if st.get("raise"):
        raise EXC_TABLE[st["raise"][0]](st["raise"][1])


@dataclass(frozen=True)
class C11Call(ArrowSerializableDataclass):
    """Immutable call state: which program this stream replays."""

    pid: int


@dataclass(frozen=True)
class C11Hdr(ArrowSerializableDataclass):
    """Stream header."""

    h: int


@dataclass
class C11State(StreamState):
    """Cursor only; the program id is bound from the call state on every turn."""

    CALL_STATE_TYPE: ClassVar[type[ArrowSerializableDataclass] | None] = C11Call

    i: int = 0
    bound_pid: Annotated[int, Transient()] = field(default=-1)

    def bind_call_state(self, call_state: ArrowSerializableDataclass | None) -> None:
        self.bound_pid = call_state.pid if isinstance(call_state, C11Call) else -1

    def process(self, input: AnnotatedBatch, out: OutputCollector, ctx: CallContext) -> None:  # noqa: A002
        i = self.i
        self.i = i + 1
        _run_step(self.bound_pid, i, out, ctx)


@dataclass
class C11PlainState(StreamState):
    """Cursor carrying everything (no call state)."""

    pid: int
    i: int = 0

    def process(self, input: AnnotatedBatch, out: OutputCollector, ctx: CallContext) -> None:  # noqa: A002
        i = self.i
        self.i = i + 1
        _run_step(self.pid, i, out, ctx)


class C11Proto(Protocol):
    """The producer shapes of the C11 check."""

    def prod_cs(self, pid: int) -> Stream[C11State]: ...

    def prod_plain(self, pid: int) -> Stream[C11PlainState]: ...

    def prod_h(self, pid: int) -> Stream[C11State, C11Hdr]: ...


class C11Impl:
    """Replays the registered programs."""

    def _logs(self, pid: int, ctx: CallContext) -> None:
        CALLS.append(("init", pid))
        for lvl, msg, extra in PROGRAMS[pid].get("init_logs") or []:
            ctx.client_log(Level(lvl), msg, **(extra or {}))

    def prod_cs(self, pid: int, ctx: CallContext) -> Stream[C11State]:
        self._logs(pid, ctx)
        st = C11State()
        st.bind_call_state(C11Call(pid=pid))
        return Stream(output_schema=OUT_SCHEMA, state=st, call_state=C11Call(pid=pid))

    def prod_plain(self, pid: int, ctx: CallContext) -> Stream[C11PlainState]:
        self._logs(pid, ctx)
        return Stream(output_schema=OUT_SCHEMA, state=C11PlainState(pid=pid))

    def prod_h(self, pid: int, ctx: CallContext) -> Stream[C11State, C11Hdr]:
        self._logs(pid, ctx)
        st = C11State()
        st.bind_call_state(C11Call(pid=pid))
        h = PROGRAMS[pid].get("header")
        return Stream(output_schema=OUT_SCHEMA, state=st, call_state=C11Call(pid=pid), header=C11Hdr(h=int(h if h is not None else 0)))


_SERVER: list[RpcServer] = []


def server() -> RpcServer:
    if not _SERVER:
        _SERVER.append(RpcServer(C11Proto, C11Impl()))
    return _SERVER[0]


# ---------------------------------------------------------------------------
# recording client
# ---------------------------------------------------------------------------
class RecClient:
    """In-process HTTP client over ``falcon.testing.TestClient`` that records, per response, the body size on the
    wire (as sent, i.e. after Content-Encoding) and the decoded size.  ``codec`` fixes what the client offers."""

    def __init__(self, app: Any, codec: str | None = None, prefix: str = "") -> None:
        import falcon.testing

        self._client = falcon.testing.TestClient(app)
        self.codec = codec
        self.prefix = prefix
        self.turns: list[dict[str, Any]] = []

    def post(self, url: str, *, content: bytes, headers: dict[str, str]) -> Any:
        from urllib.parse import urlparse

        from vgi_rpc.http._testing import _SyncTestResponse

        h = {k: v for k, v in headers.items() if k.lower() not in ("accept-encoding", "x-vgi-accept-encoding")}
        h["Accept-Encoding"] = self.codec if self.codec else "identity"
        path = urlparse(url).path
        result = self._client.simulate_post(path, body=content, headers=h)
        resp = _SyncTestResponse(result.status_code, result.content, headers=dict(result.headers))
        self.turns.append(
            {
                "path": path,
                "status": result.status_code,
                "wire": len(result.content),
                "plain": len(resp.content),
                "encoding": (result.headers.get("content-encoding") or result.headers.get("x-vgi-content-encoding") or ""),
                "body": resp.content,
            }
        )
        return resp

    def get(self, url: str, *, headers: dict[str, str] | None = None) -> Any:
        from urllib.parse import urlparse

        from vgi_rpc.http._testing import _SyncTestResponse

        result = self._client.simulate_get(urlparse(url).path, headers=headers or {})
        return _SyncTestResponse(result.status_code, result.content, headers=dict(result.headers))

    def options(self, url: str, *, headers: dict[str, str] | None = None) -> Any:
        from urllib.parse import urlparse

        from vgi_rpc.http._testing import _SyncTestResponse

        result = self._client.simulate_options(urlparse(url).path, headers=headers or {})
        return _SyncTestResponse(result.status_code, result.content, headers=dict(result.headers))

    def close(self) -> None:
        pass


def make_worker(cap: int | None, cache_entries: int = 4096, key: bytes = TOKEN_KEY, compression: bool = True) -> Any:
    """One worker = one ``make_wsgi_app`` instance (own call-state cache) around the shared RpcServer."""
    from vgi_rpc.http import make_wsgi_app

    return make_wsgi_app(
        server(),
        prefix="",
        token_key=key,
        max_response_bytes=cap,
        compression_level=1 if compression else None,
        call_state_cache_entries=cache_entries,
        enable_landing_page=False,
        enable_describe_page=False,
        enable_not_found_page=False,
    )


# ---------------------------------------------------------------------------
# parsing of one response body (for the per-turn oracle: what was written, in order, and how large)
# ---------------------------------------------------------------------------
def body_frames(body: bytes) -> list[list[tuple[str, Any, int]]]:
    """The IPC streams of a (decoded) response body; each message as (kind, key, encoded size of that message).

    kind: 'schema' | 'data' (key = tag) | 'log' (key = (level, message text); an error batch is a log at EXCEPTION
    level) | 'token' | 'eos'.  Sizes are measured from the reader's position (metadata + body + framing), so they
    sum to len(body)."""
    from vgi_rpc.metadata import LOG_LEVEL_KEY, LOG_MESSAGE_KEY, STATE_KEY

    out: list[list[tuple[str, Any, int]]] = []
    buf = pa.BufferReader(body)
    total = len(body)
    while buf.tell() < total:
        start = buf.tell()
        reader = pa.ipc.open_stream(buf)
        msgs: list[tuple[str, Any, int]] = [("schema", reader.schema.names, buf.tell() - start)]
        while True:
            pos = buf.tell()
            try:
                batch, cm = reader.read_next_batch_with_custom_metadata()
            except StopIteration:
                msgs.append(("eos", None, buf.tell() - pos))
                break
            size = buf.tell() - pos
            md = dict(cm.items()) if cm is not None else {}
            if batch.num_rows == 0 and STATE_KEY in md:
                msgs.append(("token", None, size))
            elif LOG_LEVEL_KEY in md:
                msgs.append(("log", (md[LOG_LEVEL_KEY].decode(), md.get(LOG_MESSAGE_KEY, b"").decode()), size))
            else:
                msgs.append(("data", int(md.get(b"t", b"-1")), size))
        out.append(msgs)
    return out
