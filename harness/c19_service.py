"""Service + wire helpers for C19 (module level so that typing.get_type_hints resolves the state classes)."""
from __future__ import annotations

import io
from dataclasses import dataclass
from typing import Any, Protocol

import pyarrow as pa

from vgi_rpc.rpc import AnnotatedBatch, CallContext, OutputCollector, RpcServer, Stream, StreamState

SCH = pa.schema([("v", pa.int64())])
ARROW_CT = "application/vnd.apache.arrow.stream"


@dataclass
class C19Prod(StreamState):
    """Producer: emits n batches, one per tick; the last tick emits AND finishes; boom >= 0 raises at that tick."""

    i: int = 0
    n: int = 3
    boom: int = -1

    def process(self, input: AnnotatedBatch, out: OutputCollector, ctx: CallContext) -> None:
        if self.i == self.boom:
            raise ValueError("c19 boom")
        out.emit_pydict({"v": list(range(self.i * 100, self.i * 100 + 100))})
        self.i += 1
        if self.i >= self.n:
            out.finish()


@dataclass
class C19Ex(StreamState):
    k: int = 1

    def process(self, input: AnnotatedBatch, out: OutputCollector, ctx: CallContext) -> None:
        out.emit_pydict({"v": [x * self.k for x in input.batch.column("v").to_pylist()]})


class C19Proto(Protocol):
    def f(self, a: int) -> str: ...
    def prod(self, n: int, boom: int) -> Stream[C19Prod]: ...
    def ex(self, k: int) -> Stream[C19Ex]: ...


class C19Impl:
    def f(self, a: int) -> str:
        return "x" * a

    def prod(self, n: int, boom: int) -> Stream[C19Prod]:
        return Stream(output_schema=SCH, state=C19Prod(n=n, boom=boom))

    def ex(self, k: int) -> Stream[C19Ex]:
        return Stream(output_schema=SCH, input_schema=SCH, state=C19Ex(k=k))


def make_server() -> RpcServer:
    return RpcServer(C19Proto, C19Impl())


def token_request(tokens: dict[bytes, bytes], schema: pa.Schema | None = None, rows: dict[str, list[Any]] | None = None) -> bytes:
    """An /exchange request body: one batch (zero-row tick for a producer) carrying the state tokens."""
    schema = schema or pa.schema([])
    sink = io.BytesIO()
    arrays = [pa.array((rows or {}).get(f.name, []), type=f.type) for f in schema]
    with pa.ipc.new_stream(sink, schema) as w:
        w.write_batch(pa.RecordBatch.from_arrays(arrays, schema=schema), custom_metadata=pa.KeyValueMetadata(tokens))
    return sink.getvalue()


def canon_streams(data: bytes, opaque_keys: tuple[bytes, ...]) -> Any:
    """Structure of back-to-back IPC streams with the (nonce-bearing) token values blanked."""
    out = []
    buf = io.BytesIO(data)
    while buf.tell() < len(data):
        r = pa.ipc.open_stream(buf)
        cur: list[Any] = [r.schema.to_string()]
        while True:
            try:
                b, md = r.read_next_batch_with_custom_metadata()
            except StopIteration:
                break
            m = {}
            for k, v in (dict(md) if md is not None else {}).items():
                m[k.decode("latin-1")] = "<token>" if k in opaque_keys else v.decode("latin-1")
            cur.append([b.num_rows, b.to_pydict(), sorted(m.items())])
        out.append(cur)
    return out
