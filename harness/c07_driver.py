"""C07 driver: exception classes for the interpreter service, full RpcError capture, HTTP response recording.

Additive to harness/interp.py (which is owned by the wire-core worker): the extra exception classes are registered
into ``interp.EXC_TABLE`` at import time (in-process transports only), the client observation keeps every RpcError
attribute, and the in-process HTTP client is wrapped so that status / X-VGI-RPC-Error / body of every response are
recorded.
"""
from __future__ import annotations

import contextlib
import io
import json
import threading
from typing import Any, Iterator

import pyarrow as pa
from pyarrow import ipc

from harness import interp as I
from vgi_rpc.rpc import (
    MethodNotImplementedError,
    ProtocolVersionError,
    RpcError,
    ServerDrainingError,
    SessionLostError,
    VersionError,
)


# --------------------------------------------------------------------------- exception classes
class C07UserError(Exception):
    """Plain user-defined class."""


class C07KindError(Exception):
    """User-defined typed error."""

    error_kind = "c07_kind"


class C07EmptyKindError(Exception):
    """error_kind is the empty string (still a str: hoisted)."""

    error_kind = ""


class C07UnicodeKindError(Exception):
    error_kind = "sørt/种类 ☃"


class C07IntKindError(Exception):
    """error_kind is not a str: never hoisted."""

    error_kind = 7


class C07InstanceKindError(Exception):
    """error_kind set on the instance, not the class."""

    def __init__(self, message: str) -> None:
        super().__init__(message)
        self.error_kind = "per_instance"


class C07SubSessionLost(SessionLostError):
    """Subclass of a framework typed error: inherits its kind, keeps its own class name."""


class C07TwoArgs(Exception):
    """str(exc) is the repr of the args tuple."""

    def __init__(self, message: str) -> None:
        super().__init__(message, 42)


class C07NoArgs(Exception):
    """str(exc) is empty whatever the message."""

    def __init__(self, message: str) -> None:
        super().__init__()


class C07CustomStr(Exception):
    def __str__(self) -> str:
        return "<<" + (self.args[0] if self.args else "") + ">>"


class Ünï_C07Error(Exception):  # noqa: N801 - a non-ASCII class name on purpose
    """Non-ASCII class name."""


class Outer:
    class C07Nested(Exception):
        """__name__ (not __qualname__) goes on the wire."""


class C07TypeSub(TypeError):
    """User-defined subclass of TypeError (a class the request-reading handlers answer with 400)."""


class C07ArrowSub(pa.ArrowInvalid):
    """User-defined subclass of pa.ArrowInvalid."""


class C07OSSub(OSError):
    """User-defined subclass of OSError."""


class C07VersionSub(VersionError):
    """User-defined subclass of VersionError."""


class C07RpcErrorSub(RpcError):
    """The implementation itself raises an RpcError (e.g. it is a client of another service)."""

    def __init__(self, message: str) -> None:
        super().__init__("InnerError", message, "")


C07_EXC: dict[str, Any] = {
    # built-in
    "ValueError": ValueError,
    "RuntimeError": RuntimeError,
    "KeyError": KeyError,  # str(exc) is the repr of the key
    "TypeError": TypeError,  # once answered 400 over HTTP
    "ZeroDivisionError": ZeroDivisionError,
    "AssertionError": AssertionError,
    "OSError": OSError,
    "LookupError": LookupError,
    "StopIteration": StopIteration,
    "NotImplementedError": NotImplementedError,
    "AttributeError": AttributeError,
    "ArrowInvalid": pa.ArrowInvalid,  # the class serve_one treats as a transport fault when it comes from reading
    # user-defined
    "InterpUserError": I.InterpUserError,
    "C07UserError": C07UserError,
    "C07TwoArgs": C07TwoArgs,
    "C07NoArgs": C07NoArgs,
    "C07CustomStr": C07CustomStr,
    "Ünï_C07Error": Ünï_C07Error,
    "C07Nested": Outer.C07Nested,
    "C07TypeSub": C07TypeSub,
    "C07ArrowSub": C07ArrowSub,
    "C07OSSub": C07OSSub,
    "C07VersionSub": C07VersionSub,
    "C07RpcErrorSub": C07RpcErrorSub,
    # typed (error_kind)
    "InterpKindError": I.InterpKindError,
    "C07KindError": C07KindError,
    "C07EmptyKindError": C07EmptyKindError,
    "C07UnicodeKindError": C07UnicodeKindError,
    "C07IntKindError": C07IntKindError,
    "C07InstanceKindError": C07InstanceKindError,
    "C07SubSessionLost": C07SubSessionLost,
    # typed framework errors
    "ProtocolVersionError": ProtocolVersionError,
    "MethodNotImplementedError": MethodNotImplementedError,
    "SessionLostError": SessionLostError,
    "ServerDrainingError": ServerDrainingError,
}
BUILTIN = ["ValueError", "RuntimeError", "KeyError", "TypeError", "ZeroDivisionError", "AssertionError", "OSError", "LookupError",
           "StopIteration", "NotImplementedError", "AttributeError", "ArrowInvalid"]
USER = ["C07TypeSub", "C07ArrowSub", "C07OSSub", "C07VersionSub", "C07RpcErrorSub", "InterpUserError", "C07UserError", "C07TwoArgs", "C07NoArgs", "C07CustomStr", "Ünï_C07Error", "C07Nested", "C07IntKindError"]
TYPED_USER = ["InterpKindError", "C07KindError", "C07EmptyKindError", "C07UnicodeKindError", "C07InstanceKindError", "C07SubSessionLost"]
TYPED_FRAMEWORK = ["ProtocolVersionError", "MethodNotImplementedError", "SessionLostError", "ServerDrainingError"]

I.EXC_TABLE.update(C07_EXC)


def exc_facts(cls: str, message: str) -> tuple[str, str, str | None]:
    """(type(exc).__name__, str(exc), error_kind if it is a str) of the exception the interpreter will raise."""
    e = I.make_exc(cls, message)
    k = getattr(e, "error_kind", None)
    return type(e).__name__, str(e), (k if isinstance(k, str) else None)


def group_of(cls: str) -> str:
    if cls in TYPED_FRAMEWORK:
        return "typed-framework"
    if cls in TYPED_USER:
        return "typed-user"
    if cls in BUILTIN:
        return "builtin"
    return "user"


# --------------------------------------------------------------------------- client observation
_ABSENT = "<absent>"


def exposed_kind(e: RpcError) -> Any:
    """What the client error exposes as error kind: the ``error_kind`` attribute (the name WIRE_PROTOCOL section 8 uses);
    any other instance attribute whose name contains 'kind' is accepted too.  ``_ABSENT`` when there is none."""
    d = getattr(e, "__dict__", {})
    if "error_kind" in d or hasattr(e, "error_kind"):
        return getattr(e, "error_kind")
    for k, v in d.items():
        if "kind" in k.lower():
            return v
    return _ABSENT


def error_event(e: RpcError) -> list[Any]:
    return ["error", e.error_type, e.error_message, exposed_kind(e), str(e), e.remote_traceback, e.request_id]


def run_script_full(conn: I.Conn, script: list[Any], timeout: float = 20.0) -> list[list[Any]]:
    """interp.run_script, keeping every RpcError attribute in the terminal event."""
    ev: list[list[Any]] = []
    conn.rec.events = ev
    hooks: dict[str, Any] = {}

    def body() -> None:
        try:
            I._play(conn.proxy, script, ev, hooks)
        except RpcError as e:
            ev.append(error_event(e))
        except I.CallbackBoom:
            if not ev or ev[-1] != ["cb_raised"]:
                ev.append(["cb_raised"])
        except BaseException as e:  # noqa: BLE001
            ev.append(["client_exc", type(e).__name__, str(e)[:200]])

    t = threading.Thread(target=body, daemon=True, name="c07-script")
    t.start()
    t.join(timeout)
    if t.is_alive():
        conn.poisoned = True
        snap = list(ev) + [["blocked"]]
        if conn.closer is not None:
            with contextlib.suppress(Exception):
                conn.closer()
            t.join(2.0)
        return I.cut(snap)
    return I.cut(list(ev))


# --------------------------------------------------------------------------- HTTP response recording
class RecordingClient:
    """Wraps the in-process sync client; records (url, status, marker header, body) of every POST."""

    def __init__(self, inner: Any) -> None:
        self._inner = inner
        self.prefix = getattr(inner, "prefix", "")
        self.log: list[dict[str, Any]] = []

    def post(self, url: str, *, content: bytes, headers: dict[str, str]) -> Any:
        r = self._inner.post(url, content=content, headers=headers)
        hd = {k.lower(): v for k, v in dict(r.headers).items()}
        self.log.append({"url": url, "status": r.status_code, "marker": hd.get("x-vgi-rpc-error"), "body": bytes(r.content),
                         "cancel": _is_cancel(content)})
        return r

    def __getattr__(self, name: str) -> Any:
        return getattr(self._inner, name)


def _is_cancel(content: bytes) -> bool:
    try:
        r = ipc.open_stream(io.BytesIO(content))
        _, md = r.read_next_batch_with_custom_metadata()
        return md is not None and md.get(b"vgi_rpc.cancel") is not None
    except Exception:  # noqa: BLE001
        return False


def body_batches(body: bytes) -> list[tuple[int, dict[bytes, bytes]]]:
    """(rows, metadata) of every batch of the (possibly several, back to back) IPC streams of a response body."""
    out: list[tuple[int, dict[bytes, bytes]]] = []
    buf = io.BytesIO(body)
    while buf.tell() < len(body):
        r = ipc.open_stream(buf)
        while True:
            try:
                b, md = r.read_next_batch_with_custom_metadata()
            except StopIteration:
                break
            out.append((b.num_rows, dict(md) if md is not None else {}))
    return out


def error_batches(body: bytes) -> list[dict[str, Any]]:
    """The error batches the SERVER wrote (Message.from_exception always adds a traceback; an EXCEPTION-level
    client log of the implementation has none in the generated programs)."""
    out = []
    for rows, md in body_batches(body):
        if rows == 0 and md.get(b"vgi_rpc.log_level") == b"EXCEPTION":
            extra = {}
            with contextlib.suppress(Exception):
                extra = json.loads(md.get(b"vgi_rpc.log_extra", b"{}"))
            if isinstance(extra, dict) and "traceback" in extra:
                out.append({"md": {k.decode(): v.decode("utf-8", "replace") for k, v in md.items()}, "extra": extra})
    return out


_HTTP: dict[Any, RecordingClient] = {}


@contextlib.contextmanager
def open_http(cap: int | None) -> Iterator[tuple[I.Conn, RecordingClient]]:
    from vgi_rpc.http import http_connect
    from vgi_rpc.http._testing import make_sync_client

    rc = _HTTP.get(cap)
    if rc is None:
        rc = RecordingClient(make_sync_client(
            I.get_server(False), token_key=b"verif-c07-token-key-0123456789abcd", max_response_bytes=cap, compression_level=None,
            enable_landing_page=False, enable_describe_page=False, enable_not_found_page=False))
        _HTTP[cap] = rc
    rec = I.Recorder("record")
    with http_connect(I.Interp, client=rc, on_log=rec.on_log, compression_level=None) as proxy:
        yield I.Conn(proxy, rec, "http", {"max_response_bytes": cap}), rc


def run_http(cap: int | None, script: list[Any], timeout: float = 20.0) -> tuple[list[list[Any]], list[dict[str, Any]]]:
    with open_http(cap) as (conn, rc):
        rc.log = []
        tr = run_script_full(conn, script, timeout=timeout)
        return tr, [r for r in rc.log if not r["cancel"]]


def run_socket(kind: str, script: list[Any], timeout: float = 20.0) -> list[list[Any]]:
    with I.open_transport(kind, None, "record") as conn:
        return run_script_full(conn, script, timeout=timeout)


# --------------------------------------------------------------------------- Layer A probe: the real codec on one exception
def wire_roundtrip(cls: str, message: str, server_id: str | None, request_id: str, chain: str | None = None) -> dict[str, Any]:
    """Raise the exception for real (optionally with a cause / context), run the REAL _write_error_batch into an IPC
    stream, read the metadata back and run the REAL _dispatch_log_or_error on it."""
    from vgi_rpc.rpc import _dispatch_log_or_error, _write_error_batch
    from vgi_rpc.rpc._common import _current_request_id
    from vgi_rpc.utils import new_ipc_stream

    try:
        try:
            if chain is not None:
                try:
                    raise LookupError("inner " + chain)
                except LookupError as inner:
                    if chain == "cause":
                        raise I.make_exc(cls, message) from inner
                    raise I.make_exc(cls, message)  # noqa: B904 - implicit context on purpose
            raise I.make_exc(cls, message)
        except Exception as exc:  # noqa: BLE001
            caught = exc
    finally:
        pass
    schema = pa.schema([pa.field("v", pa.int64())])
    buf = io.BytesIO()
    tok = _current_request_id.set(request_id)
    try:
        with new_ipc_stream(buf, schema) as w:
            _write_error_batch(w, schema, caught, server_id=server_id)
    finally:
        _current_request_id.reset(tok)
    rd = ipc.open_stream(io.BytesIO(buf.getvalue()))
    batch, md = rd.read_next_batch_with_custom_metadata()
    mdd = {k.decode(): v.decode() for k, v in dict(md).items()}
    extra = json.loads(mdd["vgi_rpc.log_extra"])
    err = None
    try:
        _dispatch_log_or_error(batch, md, None)
    except RpcError as e:
        err = error_event(e)
    return {"md": mdd, "extra": extra, "error": err, "rows": batch.num_rows,
            "json_roundtrip": json.loads(json.dumps(extra)) == extra}
