"""Deterministic cooperative scheduler for property C33 (real code, controlled interleavings).

Two drivers, both run the UNCHANGED repo code:

* :class:`AcceptRun`  -- ``vgi_rpc.rpc._transport._serve_socket_threaded`` with a fake listening socket, a
  fake server, and ``_transport.threading`` rebound to interposed ``Lock/Semaphore/Timer/Thread/current_thread``.
  Time is logical (``Timer`` deadlines are compared with ``sched.clock``).
* :class:`LauncherRun` -- ``vgi_rpc.launcher.launch`` / ``gc_state_dir`` in threads ("processes"), a fake
  ``subprocess.Popen`` whose "worker process" is a thread running the real ``serve_unix`` (real AF_UNIX sockets in
  a private temp dir, the real ``filelock.FileLock`` underneath) with the accept loop replaced by a stub.

Every scenario thread is a real thread, but exactly one of {scheduler, one scenario thread} runs at any time.
A scenario thread hands the baton back at a *scheduling point* = just BEFORE it touches a primitive shared with
the others (see coq/model/M_Accept.v for the list; model steps and these points are the same).

Atomicity assumption (trusted): code between two scheduling points is atomic w.r.t. the other scenario threads.
In the accept loop every access to conn_count / timer / shutdown_requested / active happens inside
``with state_lock`` and no scheduling point lies inside a lock section, so this is what CPython guarantees too.

Any inconsistency of the harness itself raises :class:`HarnessError` (reported as a broken obligation, never as a
property violation).
"""
from __future__ import annotations

import os
import shutil
import socket as _real_socket
import subprocess as _real_subprocess
import sys
import tempfile
import threading as _rt
from pathlib import Path
from typing import Any, Callable

WATCHDOG_S = 20.0


class HarnessError(Exception):
    """The harness could not drive the scenario (never a property violation)."""


class Entity:
    def __init__(self, sched: "Sched", kind: str, fn: Callable[[], Any], obj: Any = None):
        self.sched = sched
        self.kind = kind
        self.fn = fn
        self.obj = obj
        self.go = _rt.Event()
        self.label = "start"
        self.thread: _rt.Thread | None = None
        self.done = False
        self.error: BaseException | None = None
        self.result: Any = None
        self.ident: int | None = None

    def _main(self) -> None:
        self.ident = _rt.get_ident()
        self.sched.by_ident[self.ident] = self
        try:
            self.result = self.fn()
        except BaseException as e:  # noqa: BLE001 - recorded, the scheduler decides what it means
            self.error = e
        finally:
            self.done = True
            self.label = "done"
            self.sched.ctrl.set()


class Sched:
    def __init__(self) -> None:
        self.ctrl = _rt.Event()
        self.by_ident: dict[int, Entity] = {}
        self.entities: list[Entity] = []
        self.aborting = False
        self.clock: float = 0

    def current(self) -> Entity | None:
        return self.by_ident.get(_rt.get_ident())

    def new(self, kind: str, fn: Callable[[], Any], obj: Any = None) -> Entity:
        e = Entity(self, kind, fn, obj)
        self.entities.append(e)
        return e

    def park(self, label: str) -> None:
        """Called by a scenario thread right before a shared primitive."""
        ent = self.current()
        if ent is None or self.aborting:
            return
        ent.label = label
        ent.go.clear()
        self.ctrl.set()
        ent.go.wait()

    def resume(self, ent: Entity) -> None:
        """Let *ent* run from its scheduling point to the next one (or to its end)."""
        if ent.done:
            return
        self.ctrl.clear()
        if ent.thread is None:
            ent.thread = _rt.Thread(target=ent._main, daemon=True, name=f"c33-{ent.kind}")
            ent.thread.start()
        else:
            ent.go.set()
        if not self.ctrl.wait(WATCHDOG_S):
            raise HarnessError(f"{ent.kind} did not reach a scheduling point within {WATCHDOG_S}s (label {ent.label})")

    def abort(self) -> None:
        """Let every parked thread run freely to its end (blocking points fail fast)."""
        self.aborting = True
        for e in self.entities:
            e.go.set()
        for e in self.entities:
            if e.thread is not None:
                e.thread.join(timeout=5)


# =====================================================================================================
# accept loop
# =====================================================================================================


class _SLock:
    def __init__(self, sched: Sched):
        self._s = sched
        self._real = _rt.Lock()

    def acquire(self, blocking: bool = True, timeout: float = -1) -> bool:
        self._s.park("lock")
        if not self._real.acquire(timeout=WATCHDOG_S if self._s.aborting else 0.0) and not self._s.aborting:
            raise HarnessError("state lock held at a scheduling point")
        return True

    def release(self) -> None:
        self._real.release()

    def __enter__(self) -> bool:
        return self.acquire()

    def __exit__(self, *a: Any) -> None:
        self.release()


class _SSem:
    def __init__(self, sched: Sched, n: int):
        self._s = sched
        self.permits = n

    def acquire(self, blocking: bool = True, timeout: float | None = None) -> bool:
        if self.permits <= 0:
            if self._s.aborting:
                return True
            raise HarnessError("semaphore.acquire() reached with no permit (scheduler must not resume it)")
        self.permits -= 1
        return True

    def release(self, n: int = 1) -> None:
        self.permits += n


class _STimer:
    def __init__(self, run: "AcceptRun", interval: float, function: Callable[[], None], args: Any = None, kwargs: Any = None):
        self._run = run
        self.interval = interval
        self.function = function
        self.daemon = False
        self.cancelled = False
        self.deadline: float | None = None
        self.entity: Entity | None = None
        self.name = "timer"
        run.fn_seen(function)

    def start(self) -> None:
        self.deadline = self._run.sched.clock + self.interval
        self.entity = self._run.sched.new("timer", self.function, obj=self)
        self.entity.label = "wait"
        self._run.timers.append(self)

    def cancel(self) -> None:
        self.cancelled = True


class _SThread:
    def __init__(self, run: "AcceptRun", group: Any = None, target: Any = None, name: Any = None, args: tuple[Any, ...] = (), kwargs: Any = None, *, daemon: Any = None):
        self._run = run
        self.target = target
        self.args = args
        self.name = name
        self.daemon = daemon
        self.entity: Entity | None = None
        run.fn_seen(target)

    def start(self) -> None:
        self.entity = self._run.sched.new("handler", lambda: self.target(*self.args), obj=self)
        self._run.handlers.append(self)

    def join(self, timeout: float | None = None) -> None:
        self._run.joins += 1

    def is_alive(self) -> bool:
        return self.entity is not None and not self.entity.done


class _ThreadingNS:
    """What ``_transport.threading`` is rebound to while a scenario runs (fail-closed on anything else)."""

    def __init__(self, run: "AcceptRun"):
        self._run = run

    def Lock(self) -> _SLock:  # noqa: N802
        return _SLock(self._run.sched)

    def Semaphore(self, n: int = 1) -> _SSem:  # noqa: N802
        self._run.sem = _SSem(self._run.sched, n)
        return self._run.sem

    def Timer(self, interval: float, function: Callable[[], None], args: Any = None, kwargs: Any = None) -> _STimer:  # noqa: N802
        return _STimer(self._run, interval, function, args, kwargs)

    def Thread(self, *a: Any, **k: Any) -> _SThread:  # noqa: N802
        return _SThread(self._run, *a, **k)

    def current_thread(self) -> Any:
        ent = self._run.sched.current()
        if ent is not None and ent.obj is not None:
            return ent.obj
        return _rt.current_thread()

    def __getattr__(self, name: str) -> Any:
        raise HarnessError(f"accept loop uses threading.{name}, which the C33 harness does not interpose")


class _FakeConn:
    _n = 100

    def __init__(self) -> None:
        _FakeConn._n += 1
        self._fd = _FakeConn._n

    def settimeout(self, v: Any) -> None:
        pass

    def fileno(self) -> int:
        return self._fd


class _FakeSock:
    def __init__(self, run: "AcceptRun"):
        self._run = run
        self.pending = 0
        self.next = "auto"
        self.timeout: Any = "unset"

    def settimeout(self, v: Any) -> None:
        self.timeout = v

    def accept(self) -> tuple[_FakeConn, None]:
        self._run.sched.park("accept")
        if self._run.sched.aborting or self.next == "oserror":
            self.next = "auto"
            self._run.oserr = True
            raise OSError("injected")
        if self.pending > 0:
            self.pending -= 1
            self._run.accepted += 1
            self._run.open_conns += 1
            return _FakeConn(), None
        raise TimeoutError("timed out")


class _FakeTransport:
    def __init__(self, conn: Any):
        self.conn = conn

    def close(self) -> None:
        pass


class _FakeServer:
    server_id = "c33"
    protocol_name = "c33"

    def __init__(self, run: "AcceptRun"):
        self._run = run

    def serve(self, transport: Any) -> None:
        self._run.sched.park("serving")
        # the client disconnected
        self._run.open_conns -= 1
        if self._run.open_conns == 0:
            self._run.zero_at = self._run.sched.clock


_H_CODE = {"start": 0, "serving": 1, "lock": 2, "done": 3}
_T_CODE = {"wait": 0, "lock": 1, "done": 2}


class AcceptRun:
    """One controlled run of the real ``_serve_socket_threaded``.

    ``step(action)`` performs one schedule action -- ("tick", d) ("client",) ("acc",) ("accerr",) ("hnd", i)
    ("tmr", k) -- and ``obs()`` returns the observation vector that coq/model/M_Accept.v::aobs defines.
    """

    def __init__(self, transport_mod: Any, sites: dict[int, int] | None, idle: int | None, maxconn: int | None, final_range: tuple[int, int] | None = None):
        """sites = None: oracle-only mode (the loop's shape is not the modelled one): no pc observation, the break is
        detected by the acceptor entering the `finally` block (final_range = its line range)."""
        self.mod = transport_mod
        self.sites = sites
        if final_range is None and sites is not None:
            lo = min(ln for ln, c in sites.items() if c == 5)
            final_range = (lo, lo)
        self.final_range = final_range
        self.idle = idle
        self.sched = Sched()
        self.timers: list[_STimer] = []
        self.handlers: list[_SThread] = []
        self.sem: _SSem | None = None
        self.joins = 0
        self.oserr = False
        self.accepted = 0
        self.open_conns = 0
        self.zero_at: float = 0
        self.loop_start: float | None = None
        self.fns: list[Any] = []
        self._last: dict[str, Any] = {}
        self.sock = _FakeSock(self)
        self.break_info: dict[str, Any] | None = None
        self._saved = transport_mod.threading
        transport_mod.threading = _ThreadingNS(self)
        server = _FakeServer(self)
        self.acceptor = self.sched.new(
            "acceptor",
            lambda: transport_mod._serve_socket_threaded(server, self.sock, maxconn, None if idle is None else float(idle), _FakeTransport, "c33"),
        )
        # set-up: run the acceptor to its first scheduling point (the initial lock section, or accept)
        self.sched.resume(self.acceptor)
        self._check_errors()
        self.loop_start = None if idle is not None else 0
        if sites is not None:
            self.obs()  # primes the cache of the loop's variables

    # -- bookkeeping --------------------------------------------------------------------------------
    def fn_seen(self, fn: Any) -> None:
        if fn is not None and fn not in self.fns:
            self.fns.append(fn)

    def close(self) -> None:
        try:
            self.sched.abort()
        finally:
            self.mod.threading = self._saved

    def _check_errors(self) -> None:
        for e in self.sched.entities:
            if e.error is not None:
                raise HarnessError(f"{e.kind} raised {type(e.error).__name__}: {e.error}")

    # -- reading the real loop's variables ---------------------------------------------------------
    def _frame(self) -> Any:
        if self.acceptor.done or self.acceptor.ident is None:
            return None
        f = sys._current_frames().get(self.acceptor.ident)
        while f is not None and f.f_code.co_name != "_serve_socket_threaded":
            f = f.f_back
        return f

    def _cell(self, name: str) -> Any:
        seen: set[int] = set()
        todo = list(self.fns)
        while todo:
            fn = todo.pop()
            if id(fn) in seen or not hasattr(fn, "__closure__") or fn.__closure__ is None:
                continue
            seen.add(id(fn))
            for var, cell in zip(fn.__code__.co_freevars, fn.__closure__):
                if var == name:
                    return cell.cell_contents
                try:
                    v = cell.cell_contents
                except ValueError:
                    continue
                if callable(v) and hasattr(v, "__closure__"):
                    todo.append(v)
        raise HarnessError(f"cannot observe variable {name} of the accept loop")

    def var(self, name: str, default: Any = None) -> Any:
        f = self._frame()
        if f is not None:
            loc = f.f_locals
            if name in loc:
                self._last[name] = loc[name]
                return loc[name]
            raise HarnessError(f"accept loop has no local {name}")
        if not self.fns:
            # the loop returned before it created any Thread/Timer: nothing is left that could change its variables
            if name in self._last:
                return self._last[name]
            raise HarnessError(f"cannot observe variable {name} of the accept loop")
        return self._cell(name)

    def _in_final(self) -> bool:
        if self.acceptor.done:
            return True
        f = self._frame()
        if f is None or self.final_range is None:
            raise HarnessError("cannot tell whether the acceptor left the loop")
        return self.final_range[0] <= f.f_lineno <= self.final_range[1]

    def pc(self) -> int:
        if self.acceptor.done:
            return 6
        f = self._frame()
        if f is None:
            raise HarnessError("acceptor frame not found")
        code = self.sites.get(f.f_lineno)
        if code is None:
            raise HarnessError(f"acceptor parked at unexpected line {f.f_lineno} (label {self.acceptor.label})")
        want = "accept" if code == 1 else "lock"
        if self.acceptor.label != want:
            raise HarnessError(f"acceptor label {self.acceptor.label} at site {code}")
        return code

    # -- schedule actions ---------------------------------------------------------------------------
    def step(self, action: tuple[Any, ...]) -> None:
        kind = action[0]
        if kind == "tick":
            self.sched.clock += action[1]
        elif kind == "client":
            self.sock.pending += 1
        elif kind == "acc":
            if not self.acceptor.done:
                if self.sites is not None and self.pc() == 0:
                    self.loop_start = self.sched.clock
                    self.zero_at = self.sched.clock
                was_final = self._in_final()
                self.sched.resume(self.acceptor)
                if not was_final and self._in_final() and not self.oserr and self.break_info is None:
                    # the loop just broke on shutdown_requested: evaluate the property's own predicate here
                    timeout = self.idle if self.accepted > 0 else max(self.idle or 0, 60)
                    self.break_info = {
                        "open_connections": self.open_conns,
                        "accepted_total": self.accepted,
                        "threads_not_finished": sum(1 for h in self.handlers if h.entity is not None and not h.entity.done),
                        "clock": self.sched.clock,
                        "zero_connections_since": self.zero_at,
                        "timeout_that_applies": timeout,
                    }
        elif kind == "accerr":
            if not self.acceptor.done and self.acceptor.label == "accept":
                self.sock.next = "oserror"
                self.sched.resume(self.acceptor)
        elif kind == "hnd":
            i = action[1]
            if i < len(self.handlers):
                e = self.handlers[i].entity
                assert e is not None
                if not e.done and not (e.label == "start" and self.sem is not None and self.sem.permits <= 0):
                    self.sched.resume(e)
        elif kind == "tmr":
            k = action[1]
            if k < len(self.timers):
                t = self.timers[k]
                e = t.entity
                assert e is not None and t.deadline is not None
                if e.label == "wait":
                    if t.cancelled:
                        e.done = True
                        e.label = "done"
                    elif self.sched.clock >= t.deadline:
                        self.sched.resume(e)
                elif not e.done:
                    self.sched.resume(e)
        else:
            raise HarnessError(f"unknown action {action}")
        self._check_errors()

    def obs(self) -> list[int]:
        pc = self.pc()
        count = self.var("conn_count")
        flag = bool(self.var("shutdown_requested"))
        tm = self.var("timer")
        if tm is None:
            tcode = 0
        else:
            if tm not in self.timers:
                raise HarnessError("`timer` names an object the harness did not create")
            tcode = self.timers.index(tm) + 1
        broke = 1 if (pc in (5, 6) and not self.oserr) else 0
        out = [pc, count, int(flag), tcode, self.sock.pending, 0 if self.sem is None else self.sem.permits + 1, broke, int(self.oserr)]
        for h in self.handlers:
            assert h.entity is not None
            out.append(_H_CODE[h.entity.label])
        out.append(99)
        for t in self.timers:
            assert t.entity is not None
            out.append(_T_CODE[t.entity.label] * 2 + int(t.cancelled))
        return out


def run_accept(transport_mod: Any, sites: dict[int, int] | None, idle: int | None, maxconn: int | None, schedule: list[tuple[Any, ...]], final_range: tuple[int, int] | None = None) -> tuple[list[list[int]], dict[str, Any] | None]:
    """-> (observation after every step [empty in oracle-only mode], property snapshot at the idle break or None)."""
    run = AcceptRun(transport_mod, sites, idle, maxconn, final_range)
    try:
        trace = []
        for a in schedule:
            run.step(a)
            if sites is not None:
                trace.append(run.obs())
        return trace, run.break_info
    finally:
        run.close()


# =====================================================================================================
# launcher
# =====================================================================================================


class _Worker:
    def __init__(self, run: "LauncherRun", idx: int, path: str, idle: float):
        self.run = run
        self.idx = idx
        self.path = path
        self.idle = idle
        self.printed = False
        self.line_taken = False
        self.bound_ino: int | None = None
        self.entity: Entity | None = None
        self.popen: _FakePopen | None = None


class _FakeStdout:
    def __init__(self, w: _Worker):
        self.w = w

    def readline(self) -> bytes:
        self.w.run.sched.park("readline")
        if self.w.printed and not self.w.line_taken:
            self.w.line_taken = True
            return f"UNIX:{self.w.path}\n".encode()
        return b""

    def __iter__(self) -> Any:
        return iter(())

    def close(self) -> None:
        pass


class _FakePopen:
    def __init__(self, w: _Worker):
        self.w = w
        self.pid = 1000 + w.idx
        self.stdout = _FakeStdout(w)
        self.returncode: int | None = None

    def wait(self, timeout: float | None = None) -> int:
        self.returncode = 1
        return 1

    def poll(self) -> int | None:
        return self.returncode

    def terminate(self) -> None:
        pass

    def kill(self) -> None:
        pass


class _SubprocessNS:
    DEVNULL = _real_subprocess.DEVNULL
    PIPE = _real_subprocess.PIPE
    TimeoutExpired = _real_subprocess.TimeoutExpired

    def __init__(self, run: "LauncherRun"):
        self._run = run

    def Popen(self, argv: list[str], **kw: Any) -> _FakePopen:  # noqa: N802
        self._run.sched.park("popen")
        if self._run.sched.aborting:
            raise RuntimeError("scenario is being torn down")
        try:
            path = argv[argv.index("--unix") + 1]
            idle = float(argv[argv.index("--idle-timeout") + 1])
        except (ValueError, IndexError) as e:
            raise HarnessError(f"worker argv without --unix/--idle-timeout: {argv}") from e
        return self._run.spawn_worker(path, idle)

    def __getattr__(self, name: str) -> Any:
        raise HarnessError(f"launcher uses subprocess.{name}, which the C33 harness does not interpose")


class _SockProxy:
    def __init__(self, run: "LauncherRun", real: Any):
        self._run = run
        self._real = real
        self._bound = False

    def bind(self, path: str) -> None:
        self._run.sched.park("bind")
        self._real.bind(path)
        self._bound = True
        w = self._run.cur_worker()
        if w is not None:
            w.bound_ino = os.lstat(path).st_ino
            self._run.ino_owner[w.bound_ino] = w.idx

    def listen(self, n: int) -> None:
        self._run.sched.park("listen")
        self._real.listen(n)

    def close(self) -> None:
        if self._bound:
            self._run.sched.park("close")
        self._real.close()

    def __getattr__(self, name: str) -> Any:
        return getattr(self._real, name)


class _SocketNS:
    def __init__(self, run: "LauncherRun"):
        self._run = run

    def socket(self, *a: Any, **k: Any) -> Any:
        real = _real_socket.socket(*a, **k)
        if self._run.cur_worker() is not None:
            return _SockProxy(self._run, real)
        return real

    def __getattr__(self, name: str) -> Any:
        return getattr(_real_socket, name)


class _SFileLock:
    """Interposed ``FileLock``: a scheduling point before acquire and before release; the decision is the REAL
    ``filelock.FileLock``'s (non-blocking attempt at the moment the scheduler resumes the thread)."""

    def __init__(self, run: "LauncherRun", path: str, timeout: float = -1):
        import filelock

        self._run = run
        self._timeout = timeout
        self._real = filelock.FileLock(path, timeout=0)
        self._Timeout = filelock.Timeout
        self.path = path
        self.held = False
        self.owner: int | None = None
        self._ino: tuple[int, int] | None = None

    def acquire(self, *a: Any, **k: Any) -> Any:
        while True:
            self._run.sched.park("flock")
            try:
                self._real.acquire(timeout=0)
            except self._Timeout:
                if self._timeout == 0 or self._run.sched.aborting:
                    raise
                continue  # blocking acquire: stays parked at the same point (stutter)
            ent = self._run.sched.current()
            self.owner = self._run.proc_index(ent)
            self.held = True
            self._ino = self._read_inode()  # in the acquiring thread: filelock keeps its descriptor thread-local
            mine = self.inode()
            for other in self._run.flocks:
                if other is not self and other.held and other.inode() == mine:
                    # two flocks on the SAME inode at once: the OS-level hypothesis of the launcher theorems is false
                    self._run.flock_double = (other.owner, self.owner)
            if self not in self._run.flocks:
                self._run.flocks.append(self)
            return self

    def inode(self) -> tuple[int, int] | None:
        """(dev, ino) of the open file this lock object holds its flock on."""
        return self._ino if self.held else None

    def _read_inode(self) -> tuple[int, int] | None:
        try:
            fd = self._real._context.lock_file_fd
        except AttributeError as e:
            raise HarnessError("filelock internals changed: cannot read the held descriptor") from e
        if fd is None:
            return None
        st = os.fstat(fd)
        return (st.st_dev, st.st_ino)

    def release(self, force: bool = False) -> None:
        self._run.sched.park("release")
        self._real.release()
        self.held = False


class _DummyServer:
    server_id = "c33"
    protocol_name = "c33"


_P_CODE_L = {"flock": 0, "probe": 1, "unlink": 2, "popen": 3, "readline": 4, "release": 5, "done": 6}
_P_CODE_G = {"start": 10, "flock": 11, "probe": 12, "release": 13, "done": 14}
_W_CODE = {"start": 0, "wunlink": 1, "bind": 2, "listen": 3, "accepting": 4, "close": 5, "cleanup": 6}


class LauncherRun:
    """Concurrent ``launch()`` / ``gc_state_dir()`` calls for one command hash under schedule control.

    kinds[i] = False: process i calls launch(); True: process i calls gc_state_dir().
    Actions: ("proc", i) ("worker", w) ("stop", w).
    """

    def __init__(self, launcher_mod: Any, transport_mod: Any, kinds: list[bool], base_dir: str):
        self.lm = launcher_mod
        self.tm = transport_mod
        self.sched = Sched()
        self.kinds = kinds
        self.workers: list[_Worker] = []
        self.flocks: list[_SFileLock] = []
        self.flock_double: tuple[Any, Any] | None = None
        self.ino_owner: dict[int, int] = {}
        self.returns: list[dict[str, Any]] = []
        self.spawn_log: list[dict[str, Any]] = []
        self.dir = Path(tempfile.mkdtemp(prefix="c33-", dir=base_dir))
        self.saved: list[tuple[Any, str, Any]] = []
        self._patch()
        self.procs: list[Entity] = []
        argv = ("c33-worker", "--x")
        cfg = launcher_mod.LaunchConfig(worker_argv=argv, idle_timeout=5.0, state_dir=str(self.dir))
        self.hash = launcher_mod.compute_hash(argv)
        self.sock_path = self.dir / f"{self.hash}.sock"
        self.meta_path = self.dir / f"{self.hash}.meta"
        for i, g in enumerate(kinds):
            if g:
                e = self.sched.new("gc", lambda: launcher_mod.gc_state_dir(self.dir))
            else:
                e = self.sched.new("launch", lambda: launcher_mod.launch(cfg))
            self.procs.append(e)
        # set-up: each launch() runs to its first scheduling point (before lock.acquire)
        for e, g in zip(self.procs, kinds):
            if not g:
                self.sched.resume(e)
        self._check_errors()

    def _set(self, mod: Any, name: str, val: Any) -> None:
        self.saved.append((mod, name, getattr(mod, name)))
        setattr(mod, name, val)

    def _patch(self) -> None:
        lm, tm, s = self.lm, self.tm, self.sched
        real_probe, real_unlink = lm._probe, lm._unlink_stale_socket

        def probe(path: Any) -> bool:
            s.park("probe")
            return bool(real_probe(path))

        def unlink_stale(path: Any) -> None:
            s.park("unlink")
            real_unlink(path)

        self._set(lm, "_probe", probe)
        self._set(lm, "_unlink_stale_socket", unlink_stale)
        self._set(lm, "FileLock", lambda path, timeout=-1: _SFileLock(self, path, timeout))
        self._set(lm, "subprocess", _SubprocessNS(self))
        real_wunlink, real_cleanup = tm._unlink_stale_unix_socket, tm._unlink_bound_unix_socket

        def w_unlink_stale(path: str) -> None:
            s.park("wunlink")
            real_wunlink(path)

        def w_cleanup(path: str, identity: Any) -> None:
            s.park("cleanup")
            real_cleanup(path, identity)

        def accept_stub(*a: Any, **k: Any) -> None:
            s.park("accepting")

        self._set(tm, "_unlink_stale_unix_socket", w_unlink_stale)
        self._set(tm, "_unlink_bound_unix_socket", w_cleanup)
        self._set(tm, "_serve_socket_threaded", accept_stub)
        self._set(tm, "socket", _SocketNS(self))

    def close(self) -> None:
        try:
            self.sched.abort()
        finally:
            for mod, name, val in reversed(self.saved):
                setattr(mod, name, val)
            shutil.rmtree(self.dir, ignore_errors=True)

    # -- helpers ------------------------------------------------------------------------------------
    def proc_index(self, ent: Entity | None) -> int | None:
        return self.procs.index(ent) if ent in self.procs else None

    def cur_worker(self) -> _Worker | None:
        ent = self.sched.current()
        for w in self.workers:
            if w.entity is ent and ent is not None:
                return w
        return None

    def spawn_worker(self, path: str, idle: float) -> _FakePopen:
        w = _Worker(self, len(self.workers), path, idle)

        def on_bound(p: str) -> None:
            w.printed = True

        def main() -> None:
            self.tm.serve_unix(_DummyServer(), path, threaded=True, idle_timeout=idle, on_bound=on_bound)

        self.spawn_log.append({"worker": w.idx, "alive_before": [v.idx for v in self.workers if self.worker_alive(v)]})
        w.entity = self.sched.new("worker", main, obj=w)
        w.popen = _FakePopen(w)
        self.workers.append(w)
        return w.popen

    def worker_phase(self, w: _Worker) -> int:
        e = w.entity
        assert e is not None
        if e.done:
            return 7 if w.printed else 8
        return _W_CODE[e.label]

    def worker_alive(self, w: _Worker) -> bool:
        return self.worker_phase(w) <= 5

    def path_accepting(self) -> bool:
        """Independent of the repo's _probe: does a connect() to the socket path succeed right now?"""
        c = _real_socket.socket(_real_socket.AF_UNIX, _real_socket.SOCK_STREAM)
        c.settimeout(2.0)
        try:
            c.connect(str(self.sock_path))
            return True
        except OSError:
            return False
        finally:
            c.close()

    def _check_errors(self) -> None:
        for e in self.sched.entities:
            if e.error is not None and isinstance(e.error, HarnessError):
                raise e.error

    # -- schedule actions ---------------------------------------------------------------------------
    def step(self, action: tuple[Any, ...]) -> None:
        kind, i = action
        if kind == "proc":
            if i < len(self.procs):
                e = self.procs[i]
                if not e.done:
                    enabled = True
                    if e.label == "readline":
                        w = self._worker_of(e)
                        enabled = w is not None and (w.printed or (w.entity is not None and w.entity.done))
                    was = e.label
                    accepting_before = self.path_accepting() if was in ("probe", "readline") and not self.kinds[i] else None
                    if enabled:
                        self.sched.resume(e)
                    if enabled and not self.kinds[i] and was in ("probe", "readline") and e.label == "release":
                        w = self._worker_of(e) if was == "readline" else None
                        ok_path = (w is None or w.printed)
                        if ok_path:
                            # the launch is about to return the path: was a worker accepting on it at the deciding moment?
                            self.returns.append({"proc": i, "via": was, "accepting_at_decision": bool(accepting_before) if was == "probe" else bool(w is not None and w.printed and w.ready_reachable)})
        elif kind == "worker":
            if i < len(self.workers):
                w = self.workers[i]
                e = w.entity
                assert e is not None
                if not e.done and e.label != "accepting":
                    was = e.label
                    self.sched.resume(e)
                    if was == "listen" and w.printed:
                        # the ready line was just emitted: is this worker reachable through the path now?
                        w.ready_reachable = self.path_accepting() and self.fs_owner() == w.idx
        elif kind == "stop":
            if i < len(self.workers):
                w = self.workers[i]
                e = w.entity
                assert e is not None
                if not e.done and e.label == "accepting":
                    self.sched.resume(e)
        else:
            raise HarnessError(f"unknown action {action}")
        self._check_errors()

    def _worker_of(self, e: Entity) -> _Worker | None:
        # the worker this launch() spawned = the one whose Popen was created by this thread
        for w in self.workers:
            if getattr(w, "spawner", None) is e:
                return w
        return None

    def lock_holder(self) -> int | None:
        """Who holds a flock on the inode the per-hash lock PATH currently names (None: nobody / no such file)."""
        try:
            st = os.lstat(self.dir / f"{self.hash}.lock")
        except FileNotFoundError:
            return None
        for fl in self.flocks:
            if fl.held and fl.inode() == (st.st_dev, st.st_ino):
                return fl.owner
        return None

    def fs_owner(self) -> int | None:
        try:
            st = os.lstat(self.sock_path)
        except FileNotFoundError:
            return None
        owner = self.ino_owner.get(st.st_ino)
        if owner is None:
            raise HarnessError("socket path names an inode no worker bound")
        return owner

    def obs(self) -> list[int]:
        fs = self.fs_owner()
        holder = self.lock_holder()
        out = [0 if holder is None else holder + 1, 0 if fs is None else fs + 1, int(self.meta_path.exists())]
        for i, (e, g) in enumerate(zip(self.procs, self.kinds)):
            table = _P_CODE_G if g else _P_CODE_L
            if e.label not in table:
                raise HarnessError(f"process {i} parked at unexpected point {e.label}")
            code = table[e.label]
            res = 0
            if e.done and not g:
                if e.error is None:
                    res = 2 if any(getattr(w, "spawner", None) is e for w in self.workers) else 1
                    if e.result != str(self.sock_path):
                        raise HarnessError(f"launch returned {e.result!r}, expected the hash-keyed socket path")
                elif isinstance(e.error, RuntimeError):
                    res = 3
                else:
                    raise HarnessError(f"launch raised {type(e.error).__name__}: {e.error}")
            if e.done and g and e.error is not None:
                raise HarnessError(f"gc raised {type(e.error).__name__}: {e.error}")
            out += [code, res]
        out.append(99)
        for w in self.workers:
            out.append(self.worker_phase(w))
        return out


def _attach_spawner(run: LauncherRun) -> None:
    """Record which launch() thread created each worker (Popen runs in the launcher's thread)."""
    orig = run.spawn_worker

    def spawn(path: str, idle: float) -> _FakePopen:
        p = orig(path, idle)
        p.w.spawner = run.sched.current()  # type: ignore[attr-defined]
        p.w.ready_reachable = False  # type: ignore[attr-defined]
        return p

    run.spawn_worker = spawn  # type: ignore[method-assign]


def run_launcher(launcher_mod: Any, transport_mod: Any, kinds: list[bool], schedule: list[tuple[str, int]], base_dir: str) -> tuple[list[list[int]], dict[str, Any]]:
    run = LauncherRun(launcher_mod, transport_mod, kinds, base_dir)
    _attach_spawner(run)
    try:
        trace = []
        max_alive = 0
        unreachable: list[dict[str, Any]] = []
        for n, a in enumerate(schedule):
            run.step(a)
            trace.append(run.obs())
            max_alive = max(max_alive, sum(1 for w in run.workers if run.worker_alive(w)))
            if not unreachable:
                owner = run.fs_owner()
                for w in run.workers:
                    # bound-and-open listener (before listen / accepting / loop returned but not closed)
                    if run.worker_phase(w) in (3, 4, 5) and owner != w.idx:
                        unreachable.append({"step": n, "action": list(a), "worker": w.idx, "path_names_worker": owner})
        info = {
            "returns": [dict(r) for r in run.returns],
            "spawns": [dict(x) for x in run.spawn_log],
            "max_alive": max_alive,
            "flock_double": run.flock_double,
            "live_unreachable": unreachable,
            "spawn_count": len(run.workers),
        }
        return trace, info
    finally:
        run.close()
