"""Deterministic cooperative scheduler for the real ``NonceCache`` (property C23).

Every scenario thread is a real ``threading.Thread``; exactly one of {scheduler, one worker} runs
at any time (the *baton*).  A worker gives the baton back at a *scheduling point*, which is the
moment just BEFORE it would

  * call the injected clock (``NonceCache(clock=...)``) while not holding the cache lock, or
  * acquire the interposed cache lock (``cache._lock`` is replaced by :class:`SchedLock`).

A schedule is a list of naturals: ``0`` advances the logical clock by one, ``i+1`` lets worker
``i`` run from its current scheduling point to its next one (ids naming no worker, and workers
that are finished, stutter) -- the same convention as coq/lib/Sched_C23.v, so that the trace of the
real cache can be compared step by step with the Coq model (coq/model/M_Nonce.v).

Atomicity assumption (trusted): code between two scheduling points is atomic with respect to the
other scenario threads.  Under this harness it holds by construction (only the baton holder runs);
under CPython it holds for NonceCache because every access to ``_entries``/``_evicted``/``_replays``
happens while ``_lock`` is held.
"""
from __future__ import annotations

import threading
from typing import Any, Callable

WATCHDOG_S = 60.0


class HarnessError(Exception):
    """The harness itself could not drive the scenario (never a property violation)."""


class _Worker:
    def __init__(self, tid: int, program: list[int]):
        self.tid = tid
        self.program = program
        self.go = threading.Event()
        self.parked_at: str = "new"  # new | clock | lock | done | crashed
        self.has_now = False  # has read the clock for the call in progress
        self.last_now: float | None = None
        self.holds_lock = False
        self.thread: threading.Thread | None = None
        self.error: BaseException | None = None
        self.pending_event: tuple[Any, ...] | None = None


class SchedLock:
    """Stands in for ``threading.Lock`` in ``cache._lock``; a scheduling point before acquire."""

    def __init__(self, sched: "Scheduler"):
        self._real = threading.Lock()
        self._sched = sched

    def acquire(self, blocking: bool = True, timeout: float = -1) -> bool:
        w = self._sched._current()
        if w is not None:
            self._sched._yield(w, "lock")
        if not self._real.acquire(timeout=WATCHDOG_S):
            raise HarnessError("cache lock held by a parked thread (a thread reached a scheduling point inside the lock)")
        if w is not None:
            w.holds_lock = True
            self._sched.lock_sections += 1
        return True

    def release(self) -> None:
        w = self._sched._current()
        if w is not None:
            w.holds_lock = False
        self._real.release()

    def locked(self) -> bool:
        return self._real.locked()

    def __enter__(self) -> bool:
        return self.acquire()

    def __exit__(self, *a: Any) -> None:
        self.release()


class Scheduler:
    """Drives one scenario: ``programs[i]`` is the list of nonce ids worker ``i`` submits in order."""

    def __init__(self, make_cache: Callable[..., Any], ttl: float, capacity: int, programs: list[list[int]]):
        self.now = 0  # logical clock (integral)
        self.parked = threading.Event()
        self.workers = [_Worker(i, list(p)) for i, p in enumerate(programs)]
        self._by_ident: dict[int, _Worker] = {}
        self.events: list[tuple[int, int, int, int, bool]] = []  # (tid, nonce, now read, clock at locked step, ok)
        self.lock_sections = 0
        self.clock_reads = 0
        self.clock_reads_in_lock = 0
        self.cache = make_cache(ttl_seconds=ttl, capacity=capacity, clock=self.clock)
        self.lock = SchedLock(self)
        self.cache._lock = self.lock  # instance slot: no source change needed
        for w in self.workers:
            self._start(w)

    # ---- called on worker threads -------------------------------------------------------------
    def _current(self) -> _Worker | None:
        return self._by_ident.get(threading.get_ident())

    def _yield(self, w: _Worker, label: str) -> None:
        w.parked_at = label
        w.go.clear()
        self.parked.set()
        if not w.go.wait(WATCHDOG_S * 10):
            raise HarnessError("worker abandoned")

    def clock(self) -> float:
        w = self._current()
        if w is not None:
            if not w.holds_lock:
                self._yield(w, "clock")
            else:
                self.clock_reads_in_lock += 1
            self.clock_reads += 1
            w.has_now = True
            w.last_now = self.now
        return float(self.now)

    def _body(self, w: _Worker) -> None:
        self._by_ident[threading.get_ident()] = w
        try:
            for n in w.program:
                ok = self.cache.check_and_add(f"n{n}")
                # still holding the baton: the step that executed the locked body is not over yet
                w.pending_event = (w.tid, n, w.last_now, self.now, ok)
                w.has_now = False
                self._flush(w)
            w.parked_at = "done"
        except BaseException as e:  # noqa: BLE001 - reported by the driver
            w.error = e
            w.parked_at = "crashed"
        finally:
            self.parked.set()

    def _flush(self, w: _Worker) -> None:
        if w.pending_event is not None:
            self.events.append(w.pending_event)  # type: ignore[arg-type]
            w.pending_event = None

    # ---- called on the scheduler thread --------------------------------------------------------
    def _start(self, w: _Worker) -> None:
        self.parked.clear()
        t = threading.Thread(target=self._body, args=(w,), daemon=True, name=f"c23-w{w.tid}")
        w.thread = t
        t.start()
        if not self.parked.wait(WATCHDOG_S):
            raise HarnessError(f"worker {w.tid} did not reach its first scheduling point")
        self._check(w)

    def _check(self, w: _Worker) -> None:
        if w.parked_at == "crashed":
            raise HarnessError(f"worker {w.tid} raised {type(w.error).__name__}: {w.error}") from w.error

    def step(self, sid: int) -> None:
        """One schedule item."""
        if sid == 0:
            self.now += 1
            return
        i = sid - 1
        if i >= len(self.workers):
            return
        w = self.workers[i]
        if w.parked_at in ("done", "crashed"):
            return
        self.parked.clear()
        w.go.set()
        if not self.parked.wait(WATCHDOG_S):
            raise HarnessError(f"worker {w.tid} did not come back to a scheduling point (blocked at {w.parked_at})")
        self._check(w)

    def phases(self) -> list[int]:
        """0 = next call not started / clock not read yet, 1 = clock read, waiting for the lock, 2 = finished."""
        return [2 if w.parked_at == "done" else (1 if w.has_now else 0) for w in self.workers]

    def snapshot(self) -> tuple[int, list[tuple[str, float]], int, int, list[int]]:
        c = self.cache
        return (self.now, list(c._entries.items()), c._evicted, c._replays, self.phases())

    def close(self) -> None:
        """Let every unfinished worker run to completion (no more observations) and join."""
        for _ in range(10_000):
            live = [w for w in self.workers if w.parked_at not in ("done", "crashed")]
            if not live:
                break
            for w in live:
                self.parked.clear()
                w.go.set()
                self.parked.wait(WATCHDOG_S)
        for w in self.workers:
            if w.thread is not None:
                w.thread.join(WATCHDOG_S)


def run_schedule(make_cache: Callable[..., Any], ttl: int, capacity: int, programs: list[list[int]], schedule: list[int]) -> dict[str, Any]:
    """Replay one schedule against the real cache; returns the per-step snapshots and the event log."""
    s = Scheduler(make_cache, float(ttl), capacity, programs)
    snaps = []
    public = []
    try:
        for sid in schedule:
            s.step(sid)
            snaps.append(s.snapshot())
            public.append((len(s.cache), s.cache.stats()))
        events = list(s.events)
        return {
            "snaps": snaps,
            "events": events,
            "public": public,
            "clock_reads": s.clock_reads,
            "clock_reads_in_lock": s.clock_reads_in_lock,
            "lock_sections": s.lock_sections,
        }
    finally:
        s.close()
