"""C17 driver: run the REAL Falcon app of vgi_rpc.http on hand-built WSGI requests and observe
(a) the HTTP status, (b) the bytes ``_get_request_stream`` hands to the RPC layer, (c) every call the
codec code makes on zstandard / zlib with the sizes it asks for and the chunks it gets back.

Nothing here decides anything: it only builds inputs and records what the implementation did.
"""
from __future__ import annotations

import contextlib
import io
import os
import signal
import zlib as _real_zlib
from dataclasses import dataclass, field
from typing import Any, Iterator, Protocol

import falcon.testing
import pyarrow as pa
import zstandard as _zstd

from vgi_rpc.rpc import AnnotatedBatch, CallContext, OutputCollector, RpcServer, Stream, StreamState

_ORIG_ZD = _zstd.ZstdDecompressor
ARROW_CT = "application/vnd.apache.arrow.stream"

CALLS: list[bytes] = []
WATCHDOG_S = 120


@dataclass
class C17State(StreamState):
    n: int = 0

    def process(self, input: AnnotatedBatch, out: OutputCollector, ctx: CallContext) -> None:
        out.finish()


class C17Proto(Protocol):
    """f plus methods whose NAMES start with the health endpoint's name (their routes are not the health endpoint)."""

    def f(self, data: bytes) -> int: ...
    def healthz(self, data: bytes) -> int: ...
    def health_check(self, data: bytes) -> int: ...
    def health(self, data: bytes) -> int: ...
    def healthcheck(self, data: bytes) -> Stream[C17State]: ...


class C17Impl:
    def f(self, data: bytes) -> int:
        CALLS.append(data)
        return len(data)

    def healthz(self, data: bytes) -> int:
        CALLS.append(data)
        return len(data)

    def health_check(self, data: bytes) -> int:
        CALLS.append(data)
        return len(data)

    def health(self, data: bytes) -> int:
        CALLS.append(data)
        return len(data)

    def healthcheck(self, data: bytes) -> Stream[C17State]:
        CALLS.append(data)
        return Stream(output_schema=pa.schema([]), state=C17State())


# --------------------------------------------------------------------------- trace of codec-library calls
@dataclass
class Trace:
    log: list[tuple[int, int]] = field(default_factory=list)
    hdr: Any = "unset"  # "unset" | ("raise",) | ("ok", None | int)
    one: Any = "unset"  # "unset" | ("raise",) | ("ok", bytes)
    steps: list[Any] = field(default_factory=list)  # None (raise) | (bytes, bool)
    fl: Any = "unset"
    ra: Any = "unset"
    ra_fl: Any = "unset"
    eof: bool = False
    mat: int = 0
    did_readall: bool = False
    gz: Any = None  # the real decompressobj, to read .eof afterwards without logging
    max_tail: int = 0
    idle: int = 0
    spin: bool = False


T = Trace()


class SpinDetected(BaseException):
    """Raised by the recorder to abort a request whose decode loop no longer makes progress (not an Exception,
    so the middleware's ``except Exception`` cannot turn it into a 400)."""


class _ZReader:
    def __init__(self, inner: Any) -> None:
        self._r = inner

    def __enter__(self) -> "_ZReader":
        self._r.__enter__()
        return self

    def __exit__(self, *a: Any) -> Any:
        return self._r.__exit__(*a)

    def read(self, n: int = -1) -> bytes:
        if n is None or n < 0:
            T.log.append((4, 0))
            T.did_readall = True
            try:
                out = self._r.read()
            except Exception:
                T.ra = ("raise",)
                raise
            T.ra = ("ok", out)
            T.mat += len(out)
            return out
        T.log.append((3, n))
        try:
            out = self._r.read(n)
        except Exception:
            T.steps.append(None)
            raise
        T.steps.append((out, False, False))
        T.mat += len(out)
        return out


class _ZDecompressor:
    def __init__(self, *a: Any, **k: Any) -> None:
        self._d = _ORIG_ZD(*a, **k)

    def decompress(self, data: bytes, *a: Any, **k: Any) -> bytes:
        T.log.append((2, 0))
        declared = T.hdr[1] if isinstance(T.hdr, tuple) and T.hdr[0] == "ok" and T.hdr[1] is not None else None
        try:
            out = self._d.decompress(data, *a, **k)
        except Exception:
            T.one = ("raise",)
            T.mat += declared or 0  # the one-shot API allocates the declared size before decoding
            raise
        T.one = ("ok", out)
        T.mat += len(out)
        return out

    def stream_reader(self, data: Any, *a: Any, **k: Any) -> _ZReader:
        return _ZReader(self._d.stream_reader(data, *a, **k))

    def __getattr__(self, name: str) -> Any:
        return getattr(self._d, name)


class _GzObj:
    def __init__(self, inner: Any) -> None:
        self._o = inner
        T.gz = inner

    def decompress(self, data: bytes, max_length: int = 0) -> bytes:
        if max_length == 0:
            T.log.append((6, 0))
            T.did_readall = True
            try:
                out = self._o.decompress(data)
            except Exception:
                T.ra = ("raise",)
                raise
            T.ra = ("ok", out)
            T.mat += len(out)
            return out
        T.log.append((5, max_length))
        try:
            out = self._o.decompress(data, max_length)
        except Exception:
            T.steps.append(None)
            raise
        ut = bool(self._o.unconsumed_tail)
        T.steps.append((out, ut, bool(self._o.eof)))
        T.mat += len(out)
        if not out and ut and self._o.eof:
            T.idle += 1
            if T.idle > 20:
                raise SpinDetected("do.decompress() keeps returning b'' with a non-empty unconsumed_tail after end of stream")
        return out

    def flush(self, *a: Any) -> bytes:
        T.log.append((7, 0))
        try:
            out = self._o.flush(*a)
        except Exception:
            if T.did_readall:
                T.ra_fl = ("raise",)
            else:
                T.fl = ("raise",)
            raise
        if T.did_readall:
            T.ra_fl = ("ok", out)
        else:
            T.fl = ("ok", out)
        T.mat += len(out)
        T.max_tail = max(T.max_tail, len(out))
        return out

    @property
    def unconsumed_tail(self) -> bytes:
        return self._o.unconsumed_tail

    @property
    def unused_data(self) -> bytes:
        return self._o.unused_data

    @property
    def eof(self) -> bool:
        T.log.append((8, 0))
        return self._o.eof


class _ZlibShim:
    def __getattr__(self, name: str) -> Any:
        return getattr(_real_zlib, name)

    def decompressobj(self, *a: Any, **k: Any) -> _GzObj:
        return _GzObj(_real_zlib.decompressobj(*a, **k))


@contextlib.contextmanager
def instrumented() -> Iterator[None]:
    """Route the codec code's library calls through the recorders (restored on exit)."""
    import vgi_rpc._codec as codec
    import vgi_rpc.http.server._resources as resources

    orig_cs = codec._zstd_content_size
    orig_zlib = codec.zlib
    orig_grs = resources._get_request_stream

    def content_size(data: bytes) -> Any:
        T.log.append((1, 0))
        try:
            v = orig_cs(data)
        except Exception:
            T.hdr = ("raise",)
            raise
        T.hdr = ("ok", v)
        return v

    def spy(req: Any) -> Any:
        s = orig_grs(req)
        b = s.read()
        DELIVERED.append(bytes(b))
        return pa.BufferReader(b)

    codec._zstd_content_size = content_size  # type: ignore[assignment]
    codec.zlib = _ZlibShim()  # type: ignore[assignment]
    _zstd.ZstdDecompressor = _ZDecompressor  # type: ignore[misc,assignment]
    resources._get_request_stream = spy  # type: ignore[assignment]
    try:
        yield
    finally:
        codec._zstd_content_size = orig_cs
        codec.zlib = orig_zlib
        _zstd.ZstdDecompressor = _ORIG_ZD  # type: ignore[misc]
        resources._get_request_stream = orig_grs


DELIVERED: list[bytes] = []


# --------------------------------------------------------------------------- app + requests
def build_app(cap: int | None, zstd_disabled: bool, compression_level: int | None = 1, prefix: str = "") -> Any:
    from vgi_rpc.http import make_wsgi_app

    srv = RpcServer(C17Proto, C17Impl())
    old = os.environ.get("VGI_HTTP_DISABLE_ZSTD")
    try:
        if zstd_disabled:
            os.environ["VGI_HTTP_DISABLE_ZSTD"] = "1"
        else:
            os.environ.pop("VGI_HTTP_DISABLE_ZSTD", None)
        app = make_wsgi_app(
            srv, prefix=prefix, max_request_bytes=cap, compression_level=compression_level, token_key=b"k" * 32,
            enable_landing_page=False, enable_not_found_page=False, enable_describe_page=False,
        )
    finally:
        if old is None:
            os.environ.pop("VGI_HTTP_DISABLE_ZSTD", None)
        else:
            os.environ["VGI_HTTP_DISABLE_ZSTD"] = old
    return app, srv


@dataclass
class Obs:
    status: int
    content_type: str
    rpc_error: bool
    delivered: bytes | None
    trace: Trace
    method_ran: bool


def call_wsgi(app: Any, env: dict[str, Any]) -> Obs:
    global T
    T = Trace()
    del DELIVERED[:]
    del CALLS[:]
    st: dict[str, Any] = {}

    def start_response(status: str, headers: list[tuple[str, str]], exc_info: Any = None) -> Any:
        st["status"] = int(status.split()[0])
        st["headers"] = {k.lower(): v for k, v in headers}
        return lambda b: None

    def _alarm(sig: int, frm: Any) -> None:
        raise SpinDetected("request did not finish within the watchdog time")

    old_handler = signal.signal(signal.SIGALRM, _alarm)
    signal.alarm(WATCHDOG_S)
    try:
        it = app(env, start_response)
        try:
            for _ in it:
                pass
        finally:
            close = getattr(it, "close", None)
            if close:
                close()
    except SpinDetected:
        T.spin = True
        st["status"] = -2
        st["headers"] = {}
    finally:
        signal.alarm(0)
        signal.signal(signal.SIGALRM, old_handler)
    if T.gz is not None:
        T.eof = bool(T.gz.eof)
    h = st.get("headers", {})
    return Obs(st.get("status", -1), h.get("content-type", ""), h.get("x-vgi-rpc-error") == "true", DELIVERED[0] if DELIVERED else None, T, bool(CALLS))


def environ(body: bytes, ce: str | None, cl: int | None | str = "actual", path: str = "/f") -> dict[str, Any]:
    """A WSGI environ as a server presents it: cl = "actual" (Content-Length = len(body)), an int (declared
    length, honest or not) or None (no CONTENT_LENGTH key: the request a WSGI server passes on without one)."""
    headers = {"Content-Type": ARROW_CT}
    if ce is not None:
        headers["Content-Encoding"] = ce
    env = falcon.testing.create_environ(method="POST", path=path, headers=headers, body=body)
    env["wsgi.input"] = io.BytesIO(body)
    if cl == "actual":
        env["CONTENT_LENGTH"] = str(len(body))
    elif cl is None:
        env.pop("CONTENT_LENGTH", None)
    else:
        env["CONTENT_LENGTH"] = str(cl)
    if ce is not None:
        env["HTTP_CONTENT_ENCODING"] = ce
    return env


class _WSrv:
    effective_host = "127.0.0.1"
    effective_port = 8080
    server_name = "localhost"


class _WChan:
    addr = ("127.0.0.1", 5555)
    creation_time = 0

    def write_soon(self, d: bytes) -> int:
        return len(d)

    def check_client_disconnected(self) -> bool:
        return False


def waitress_environ(raw: bytes) -> dict[str, Any] | None:
    """Environ that waitress (the WSGI server ``serve_http`` uses) builds for a raw HTTP/1.1 request."""
    from waitress.adjustments import Adjustments
    from waitress.parser import HTTPRequestParser
    from waitress.task import WSGITask

    adj = Adjustments()
    srv = _WSrv()
    srv.adj = adj  # type: ignore[attr-defined]
    chan = _WChan()
    chan.server = srv  # type: ignore[attr-defined]
    p = HTTPRequestParser(adj)
    pos = 0
    while pos < len(raw) and not p.completed:
        pos += p.received(raw[pos:])
    if not p.completed or p.error is not None:
        return None
    return WSGITask(chan, p).get_environment()


def chunked_raw(body: bytes, ce: str | None, sizes: list[int], path: str = "/f") -> bytes:
    head = f"POST {path} HTTP/1.1\r\nHost: localhost\r\nContent-Type: {ARROW_CT}\r\nTransfer-Encoding: chunked\r\n"
    if ce is not None:
        head += f"Content-Encoding: {ce}\r\n"
    out = [head.encode("latin-1"), b"\r\n"]
    pos = 0
    i = 0
    while pos < len(body):
        n = max(1, sizes[i % len(sizes)])
        piece = body[pos : pos + n]
        out.append(f"{len(piece):x}\r\n".encode() + piece + b"\r\n")
        pos += len(piece)
        i += 1
    out.append(b"0\r\n\r\n")
    return b"".join(out)


# --------------------------------------------------------------------------- bodies
def zstd_honest(payload: bytes, level: int = 3) -> bytes:
    return _zstd.ZstdCompressor(level=level).compress(payload)


def zstd_nosize(payload: bytes, level: int = 3) -> bytes:
    co = _zstd.ZstdCompressor(level=level).compressobj()
    return co.compress(payload) + co.flush()


def zstd_reframe(frame: bytes, declared: int | None, fcs_bytes: int = 8) -> bytes:
    """Rewrite the frame header so that it declares ``declared`` decoded bytes (None = no size), keeping the blocks."""
    assert frame[:4] == b"\x28\xb5\x2f\xfd"
    fhd = frame[4]
    fcs_flag, single, checksum, did_flag = fhd >> 6, (fhd >> 5) & 1, (fhd >> 2) & 1, fhd & 3
    pos = 5
    wsize = None
    if not single:
        wd = frame[pos]
        pos += 1
        e, m = wd >> 3, wd & 7
        base = 1 << (10 + e)
        wsize = base + (base // 8) * m
    pos += (0, 1, 2, 4)[did_flag]
    fsz = (1 if single else 0, 2, 4, 8)[fcs_flag]
    fcs = int.from_bytes(frame[pos : pos + fsz], "little") + (256 if fsz == 2 else 0) if fsz else None
    pos += fsz
    if wsize is None:
        wsize = fcs or 0
    e = 0
    while (1 << (10 + e)) < wsize:
        e += 1
    assert did_flag == 0
    if declared is None:
        new_fhd = (0 << 6) | (checksum << 2)
        fcs_field = b""
    elif fcs_bytes == 8:
        new_fhd = (3 << 6) | (checksum << 2)
        fcs_field = declared.to_bytes(8, "little")
    else:
        assert fcs_bytes == 4 and declared < 2**32
        new_fhd = (2 << 6) | (checksum << 2)
        fcs_field = declared.to_bytes(4, "little")
    return frame[:4] + bytes([new_fhd, e << 3]) + fcs_field + frame[pos:]


def gzip_body(payload: bytes, level: int = 6) -> bytes:
    co = _real_zlib.compressobj(level, _real_zlib.DEFLATED, 31)
    return co.compress(payload) + co.flush()


# --------------------------------------------------------------------------- independent reference decoding
def ref_decode(enc: str, body: bytes) -> tuple[str, bytes, int | None, bool]:
    """Whole-input reference: (kind, decoded-or-prefix, declared zstd size, trailing data present) with kind
    "ok" = the body starts with one complete, valid gzip member / zstd frame, "truncated" = the input ended
    before the end of the member / frame, "corrupt" = the library rejected it."""
    if enc == "gzip":
        d = _real_zlib.decompressobj(31)
        out = b""
        try:
            out = d.decompress(body)
            out += d.flush()
        except Exception:
            return "corrupt", out, None, False
        return ("ok" if d.eof else "truncated"), out, None, bool(d.unused_data)
    declared = None
    try:
        cs = _zstd.get_frame_parameters(body).content_size
        declared = None if cs in (-1, 2**64 - 1) else int(cs)
    except Exception:
        return "corrupt", b"", None, False
    o = _ORIG_ZD().decompressobj()
    out = b""
    try:
        out = o.decompress(body)
    except Exception:
        return "corrupt", out, declared, False
    return ("ok" if o.eof else "truncated"), out, declared, bool(o.unused_data)
