"""C38 implementation driver: scripted transport faults against the real retry code and the real client.

Everything goes through a real ``httpx2.Client`` whose transport is ``FaultTransport``: for requests to the
*target* (method, URL suffix) it consumes a script of outcomes (raise a real httpx2 exception / answer with a
status and a Retry-After header); when the script is exhausted, or for other URLs, it answers 200 (level A) or
forwards to the in-process Falcon app through ``httpx2.WSGITransport`` (level B).  ``http://store/...`` stands for
the object store of the upload-URL flow (PUT -> 200).

``patched()`` replaces, in the namespace of vgi_rpc.http._retry only, ``random`` (scripted ``uniform``; every other
attribute access fails loudly) and ``datetime`` (fixed ``now``), so delays are reproducible.
"""
from __future__ import annotations

import contextlib
import sys
from dataclasses import dataclass
from datetime import UTC, datetime, timedelta
from email.utils import format_datetime
from pathlib import Path
from typing import Any, Iterator, Protocol

_STUBS = str(Path(__file__).resolve().parent / "stubs")
if _STUBS not in sys.path:
    sys.path.append(_STUBS)

import httpx2  # noqa: E402
import pyarrow as pa  # noqa: E402

from vgi_rpc.external import UploadUrl  # noqa: E402
from vgi_rpc.rpc import AnnotatedBatch, CallContext, OutputCollector, ProducerState, RpcServer, Stream, StreamState  # noqa: E402

DISCONNECT_MSG = "Server disconnected without sending a response."  # httpcore2/_sync/http11.py
PROTO_OTHER_MSGS = [
    "peer closed connection without sending complete message body (received 10 bytes, expected 20)",
    "peer closed connection without sending complete message body (incomplete chunked read)",
    "illegal status line",
    "",
]
TIMEOUT_CLASSES = ["ConnectTimeout", "ReadTimeout", "WriteTimeout", "PoolTimeout", "TimeoutException"]
OTHER_CLASSES = ["ReadError", "WriteError", "CloseError", "LocalProtocolError", "ProxyError", "UnsupportedProtocol", "NetworkError", "DecodingError"]
FIXED_NOW = datetime(2030, 1, 1, 0, 0, 0, tzinfo=UTC)

LOG: list[str] = []


@dataclass
class C38Exchange(StreamState):
    n: int = 0

    def process(self, input: AnnotatedBatch, out: OutputCollector, ctx: CallContext) -> None:
        LOG.append("process")
        out.emit(input.batch)

    def on_cancel(self, ctx: CallContext) -> None:
        LOG.append("on_cancel")


@dataclass
class C38Producer(ProducerState):
    left: int = 3

    def produce(self, out: OutputCollector, ctx: CallContext) -> None:
        LOG.append("produce")
        if self.left <= 0:
            out.finish()
            return
        self.left -= 1
        out.emit_pydict({"x": [self.left]})

    def on_cancel(self, ctx: CallContext) -> None:
        LOG.append("on_cancel")


_SCHEMA = pa.schema([("x", pa.int64())])


class C38Service(Protocol):
    def f(self, a: int) -> int: ...
    def g(self, a: int) -> Stream[C38Exchange]: ...
    def h(self, n: int) -> Stream[C38Producer]: ...


class C38Impl:
    def f(self, a: int) -> int:
        LOG.append("f")
        return a + 1

    def g(self, a: int) -> Stream[C38Exchange]:
        LOG.append("g")
        return Stream(output_schema=_SCHEMA, input_schema=_SCHEMA, state=C38Exchange())

    def h(self, n: int) -> Stream[C38Producer]:
        LOG.append("h")
        return Stream(output_schema=_SCHEMA, state=C38Producer(left=n))


class _Storage:
    def __init__(self) -> None:
        self.n = 0

    def generate_upload_url(self, schema: pa.Schema) -> UploadUrl:
        self.n += 1
        return UploadUrl(upload_url=f"http://store/up/{self.n}", download_url=f"http://store/down/{self.n}", expires_at=FIXED_NOW + timedelta(days=1))


def make_apps() -> dict[bool, Any]:
    """{ext_ok: wsgi app}: with / without upload-URL support."""
    from vgi_rpc.http import make_wsgi_app

    srv = RpcServer(C38Service, C38Impl())
    kw: dict[str, Any] = dict(token_key=b"k" * 32, enable_landing_page=False, enable_not_found_page=False, enable_describe_page=False)
    return {
        True: make_wsgi_app(srv, upload_url_provider=_Storage(), **kw),
        False: make_wsgi_app(srv, **kw),
    }


# ---------------------------------------------------------------------------------------------
# outcomes
# ---------------------------------------------------------------------------------------------
# ("conn",) ("timeout", cls) ("disc",) ("proto", msg) ("other", cls) ("resp", status, ra)
# ("timeout", cls, "delivered") / ("proto", msg, "delivered"): level B only -- the server processed the request, the response was lost
# ra: None | ("float", text) | ("date", delta_seconds:int) | ("garbage", text)
def ra_header(ra: Any) -> str | None:
    if ra is None:
        return None
    if ra[0] == "float" or ra[0] == "garbage":
        return ra[1]
    if ra[0] == "date":
        return format_datetime(FIXED_NOW + timedelta(seconds=ra[1]), usegmt=True)
    raise ValueError(ra)


def make_exc(o: tuple[Any, ...], request: httpx2.Request) -> Exception:
    if o[0] == "conn":
        return httpx2.ConnectError("scripted connect error", request=request)
    if o[0] == "timeout":
        return getattr(httpx2, o[1])("scripted timeout", request=request)
    if o[0] == "disc":
        return httpx2.RemoteProtocolError(DISCONNECT_MSG, request=request)
    if o[0] == "proto":
        return httpx2.RemoteProtocolError(o[1], request=request)
    if o[0] == "other":
        cls = getattr(httpx2, o[1])
        try:
            return cls("scripted", request=request)
        except TypeError:
            return cls("scripted")
    raise ValueError(o)


class FaultTransport(httpx2.BaseTransport):
    def __init__(self, inner: httpx2.BaseTransport | None = None) -> None:
        self.inner = inner
        self.script: list[tuple[Any, ...]] = []
        self.target: tuple[str, str] | None = None  # (METHOD, url suffix)
        self.log: list[tuple[str, str]] = []          # every request
        self.target_events: list[Any] = []            # per target request: the scripted outcome or ("pass", status)
        self.raised: list[tuple[Exception, tuple[Any, ...]]] = []
        self.pos = 0
        self.cancel_requests = 0                      # target requests whose body carries vgi_rpc.cancel

    def arm(self, method: str, suffix: str, script: list[tuple[Any, ...]]) -> None:
        self.target = (method, suffix)
        self.script = list(script)
        self.pos = 0
        self.target_events = []
        self.raised = []
        self.log = []
        self.cancel_requests = 0

    def is_target(self, request: httpx2.Request) -> bool:
        return self.target is not None and request.method == self.target[0] and request.url.path.endswith(self.target[1])

    def handle_request(self, request: httpx2.Request) -> httpx2.Response:
        self.log.append((request.method, str(request.url)))
        if self.is_target(request) and b"vgi_rpc.cancel" in request.content:
            self.cancel_requests += 1
        if self.is_target(request) and self.pos < len(self.script):
            o = self.script[self.pos]
            self.pos += 1
            self.target_events.append(o)
            if len(o) > 2 and o[-1] == "delivered" and o[0] != "resp" and self.inner is not None:
                # the request reaches the server and is processed; the response is lost on the way back
                self.inner.handle_request(request)
            if o[0] == "resp":
                hdrs = {}
                h = ra_header(o[2])
                if h is not None:
                    hdrs["Retry-After"] = h
                return httpx2.Response(o[1], headers=hdrs, content=b"scripted", request=request)
            exc = make_exc(o, request)
            self.raised.append((exc, o))
            raise exc
        if request.url.host == "store":
            return httpx2.Response(200, request=request)
        if self.inner is None:
            if self.is_target(request):
                self.target_events.append(("pass", 200))
            return httpx2.Response(200, content=b"default", request=request)
        resp = self.inner.handle_request(request)
        if self.is_target(request):
            self.target_events.append(("pass", resp.status_code))
        return resp

    def kind_of(self, exc: BaseException) -> tuple[Any, ...] | None:
        for e, o in self.raised:
            if e is exc:
                return o
        return None


class _FakeRandom:
    """Stands for the `random` module inside vgi_rpc.http._retry: only uniform(0, b) exists."""

    def __init__(self, fractions: list[float]) -> None:
        self.fractions = list(fractions)
        self.calls: list[tuple[Any, Any]] = []
        self.returned: list[float] = []

    def uniform(self, a: Any, b: Any) -> float:
        i = len(self.calls)
        self.calls.append((a, b))
        f = self.fractions[i] if i < len(self.fractions) else 0.0
        v = float(a + (b - a) * f)
        self.returned.append(v)
        return v

    def __getattr__(self, name: str) -> Any:
        raise AttributeError(f"C38 harness: vgi_rpc.http._retry uses random.{name}, only random.uniform is scripted")


class _FixedDateTime(datetime):
    @classmethod
    def now(cls, tz: Any = None) -> datetime:  # type: ignore[override]
        return FIXED_NOW if tz is not None else FIXED_NOW.replace(tzinfo=None)


@contextlib.contextmanager
def patched(fractions: list[float]) -> Iterator[_FakeRandom]:
    from vgi_rpc.http import _retry

    fake = _FakeRandom(fractions)
    saved = {k: _retry.__dict__.get(k) for k in ("random", "datetime")}
    if saved["random"] is None or saved["datetime"] is None:
        raise RuntimeError("C38 harness: vgi_rpc.http._retry no longer imports `random` / `datetime` as module attributes")
    _retry.random = fake  # type: ignore[attr-defined]
    _retry.datetime = _FixedDateTime  # type: ignore[attr-defined]
    try:
        yield fake
    finally:
        _retry.random = saved["random"]  # type: ignore[attr-defined]
        _retry.datetime = saved["datetime"]  # type: ignore[attr-defined]


def make_config(cfg: dict[str, Any]) -> Any:
    from vgi_rpc.http._retry import HttpRetryConfig

    return HttpRetryConfig(
        max_retries=cfg["max_retries"], backoff_base=cfg["backoff_base"], backoff_max=cfg["backoff_max"],
        retryable_status_codes=frozenset(cfg["retryable"]), retry_on_connection_error=cfg["roce"], respect_retry_after=cfg["respect"],
    )


# ---------------------------------------------------------------------------------------------
# level A: the retry loop
# ---------------------------------------------------------------------------------------------
def run_level_a(cfg: dict[str, Any], fractions: list[float], script: list[tuple[Any, ...]], via: str) -> dict[str, Any]:
    """Run _request_with_retry (via = request | post | options) and report what was observable."""
    from vgi_rpc.http import _retry

    tr = FaultTransport()
    client = httpx2.Client(transport=tr, base_url="http://test")
    sleeps: list[Any] = []
    conf = make_config(cfg)
    res: dict[str, Any] = {}
    with patched(fractions) as fake:
        try:
            if via == "options":
                tr.arm("OPTIONS", "/health", script)
                r = _retry._options_with_retry(client, "http://test/health", config=conf, _sleep=sleeps.append)
            elif via == "post":
                tr.arm("POST", "/m", script)
                r = _retry._post_with_retry(client, "http://test/m", content=b"x", headers={}, config=conf, _sleep=sleeps.append)
            else:
                tr.arm("POST", "/m", script)
                r = _retry._request_with_retry(
                    lambda: client.post("http://test/m", content=b"x"), config=conf, method_label="POST", url="http://test/m", _sleep=sleeps.append
                )
            res["final"] = ("return", r.status_code, None)
        except _retry.HttpTransientError as e:
            res["final"] = ("transient", e.status_code, e.retry_after)
        except Exception as e:  # noqa: BLE001 - classified below
            o = tr.kind_of(e)
            res["final"] = ("raise", o, type(e).__name__) if o is not None else ("crash", type(e).__name__, str(e)[:200])
    client.close()
    res["sends"] = len(tr.log)
    res["events"] = tr.target_events
    res["sleeps"] = sleeps
    res["uniform_calls"] = fake.calls
    res["jits"] = fake.returned
    return res


def run_delay(cfg: dict[str, Any], attempt: int, header: str | None, fraction: float) -> dict[str, Any]:
    from vgi_rpc.http import _retry

    conf = make_config(cfg)
    with patched([fraction]) as fake:
        parsed = None
        if header is not None:
            resp = httpx2.Response(503, headers={"retry-after": header})
            parsed = _retry._get_retry_after(resp.headers)
        d = _retry._compute_delay(attempt, conf, parsed)
    return {"parsed": parsed, "delay": d, "uniform_calls": fake.calls, "jit": fake.returned[0] if fake.returned else None}


# ---------------------------------------------------------------------------------------------
# level B: client operations
# ---------------------------------------------------------------------------------------------
OPS = {
    "unary": ("POST", "/f"),
    "init": ("POST", "/g/init"),
    "cont": ("POST", "/h/exchange"),
    "exchange": ("POST", "/g/exchange"),
    "cancel": ("POST", "/g/exchange"),
    "exchange_cancelled": ("POST", "/g/exchange"),
    "cancel_cancelled": ("POST", "/g/exchange"),
}


def run_level_b(apps: dict[bool, Any], op: str, cfg: dict[str, Any] | None, script: list[tuple[Any, ...]], ext_ok: bool) -> dict[str, Any]:
    from vgi_rpc.http import http_connect
    from vgi_rpc.http._retry import HttpTransientError
    from vgi_rpc.rpc import RpcError

    tr = FaultTransport(httpx2.WSGITransport(app=apps[ext_ok]))
    client = httpx2.Client(transport=tr, base_url="http://test")
    conf = make_config(cfg) if cfg is not None else None
    method, suffix = OPS[op]
    res: dict[str, Any] = {}
    del LOG[:]
    batch = AnnotatedBatch(batch=pa.record_batch({"x": [1, 2]}, schema=_SCHEMA))
    with http_connect(C38Service, client=client, retry=conf, compression_level=None) as proxy:
        try:
            if op == "unary":
                tr.arm(method, suffix, script)
                proxy.f(a=1)
            elif op == "init":
                tr.arm(method, suffix, script)
                proxy.g(a=1)
            elif op == "cont":
                s = proxy.h(n=3)
                tr.arm(method, suffix, script)
                for _ in range(4):
                    b, _tok = s.next_with_token()
                    if tr.target_events or b is None:
                        break
            else:
                s = proxy.g(a=1)
                if op.endswith("_cancelled"):
                    s.cancel()
                tr.arm(method, suffix, script)
                del LOG[:]
                if op.startswith("exchange"):
                    s.exchange(batch)
                else:
                    s.cancel()
            res["final"] = ("ok",)
        except HttpTransientError as e:
            res["final"] = ("transient", e.status_code)
        except RpcError as e:
            res["final"] = ("rpcerror", e.error_type, str(e.error_message)[:120])
        except Exception as e:  # noqa: BLE001
            o = tr.kind_of(e)
            res["final"] = ("raise", o, type(e).__name__) if o is not None else ("crash", type(e).__name__, str(e)[:200])
    client.close()
    res["target_sends"] = sum(1 for (m, u) in tr.log if m == method and u.split("?")[0].endswith(suffix))
    res["events"] = tr.target_events
    res["aux"] = [(m, u) for (m, u) in tr.log if not (m == method and u.split("?")[0].endswith(suffix))]
    res["server_log"] = list(LOG)
    return res


# ---------------------------------------------------------------------------------------------
# histories of operations on one stream session
# ---------------------------------------------------------------------------------------------
STARTS = {"live": ("g", {"a": 1}), "producer": ("h", {"n": 3}), "finished": ("h", {"n": 0})}


def run_history(apps: dict[bool, Any], cfg: dict[str, Any] | None, start: str, ops: list[str], script: list[tuple[Any, ...]], ext_ok: bool) -> dict[str, Any]:
    """init a stream, then exchange() / cancel() / close() in the given order on the SAME session; every request to the
    session's exchange URL consumes the script.  Per operation: requests issued, final, server-side hooks that ran."""
    from vgi_rpc.http import http_connect
    from vgi_rpc.http._retry import HttpTransientError
    from vgi_rpc.rpc import RpcError

    tr = FaultTransport(httpx2.WSGITransport(app=apps[ext_ok]))
    client = httpx2.Client(transport=tr, base_url="http://test")
    conf = make_config(cfg) if cfg is not None else None
    method, kwargs = STARTS[start]
    suffix = f"/{method}/exchange"
    batch = AnnotatedBatch(batch=pa.record_batch({"x": [1, 2]}, schema=_SCHEMA))
    per_op: list[dict[str, Any]] = []
    with http_connect(C38Service, client=client, retry=conf, compression_level=None) as proxy:
        s = getattr(proxy, method)(**kwargs)
        state0 = {"finished": bool(s._finished), "has_token": s._state_bytes is not None}
        tr.arm("POST", suffix, script)
        del LOG[:]
        for op in ops:
            n0, e0, c0, l0 = len(tr.log), len(tr.target_events), tr.cancel_requests, len(LOG)
            try:
                if op == "exchange":
                    s.exchange(batch)
                elif op == "cancel":
                    s.cancel()
                elif op == "close":
                    s.close()
                else:
                    raise ValueError(op)
                final: tuple[Any, ...] = ("ok",)
            except HttpTransientError as e:
                final = ("transient", e.status_code)
            except RpcError as e:
                final = ("rpcerror", e.error_type, str(e.error_message)[:120])
            except Exception as e:  # noqa: BLE001
                o = tr.kind_of(e)
                final = ("raise", o, type(e).__name__) if o is not None else ("crash", type(e).__name__, str(e)[:200])
            reqs = tr.log[n0:]
            per_op.append({
                "op": op, "final": final,
                "target_sends": sum(1 for (m, u) in reqs if m == "POST" and u.split("?")[0].endswith(suffix)),
                "cancel_requests": tr.cancel_requests - c0,
                "events": tr.target_events[e0:],
                "aux": [(m, u) for (m, u) in reqs if not (m == "POST" and u.split("?")[0].endswith(suffix))],
                "server": LOG[l0:],
            })
    client.close()
    return {"state0": state0, "ops": per_op, "cancel_requests_total": tr.cancel_requests, "server_log": list(LOG)}
