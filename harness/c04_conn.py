"""C04 driver: call HISTORIES on one real connection, with connection-state observation.

Built on harness/interp.py (interpreter service, ``_play``, ``Recorder``); additive only.

* ``Link(kind, mode)`` -- one real connection (pipe | unix | tcp, in-process serve thread; subprocess) to the real
  ``RpcServer`` serving ``InterpV`` (= ``Interp`` + a declared ``protocol_version``), with four client proxies over
  the SAME transport:
      main        the matching protocol
      unknown     same call shapes under method names the server does not have       -> "unknown method"
      badparam    same method names, an extra parameter the server does not declare   -> "parameter rejection"
      badversion  same methods, protocol_version 2.0.0 against the server's 1.2.0      -> "version rejection"
* ``Link.run(via, script)`` -- run one interp script; a hang is decided from the STATE of the two threads, not from a
  timer: the client thread sits in a read syscall on the server->client descriptor, nothing is pending on it, and the
  server thread is gone or itself sits in a read on the empty client->server descriptor (sampled twice, no context
  switch in between).  That state is stable (nobody else can write), so ``["blocked"]`` is exact and load-independent;
  a generous wall-clock deadline is only the fallback.
* ``Link.state()`` -- destructive observation of the connection after the last call: the unread server->client bytes
  parsed into message kinds (S schema, E end-of-stream, X exception-level batch, L log batch, D data batch), whether
  client->server bytes are unread, and where the serve thread is: "top" (inside ``_read_request`` at the top of
  ``serve``), "stream" (still inside ``_serve_stream``), "dead:<exception class>" or "returned" (``serve`` ended).

The serve thread is NOT helped when ``serve`` ends: like ``vgi_rpc.rpc.serve_pipe`` the transport stays open, so a
client waiting for a reply from a dead serve loop blocks (socket servers close the connection instead; then the
client sees a TransportError -- either way not its response).
"""
from __future__ import annotations

import contextlib
import fcntl
import os
import platform
import socket
import struct
import sys
import termios
import threading
import time
from typing import Any, ClassVar, Protocol

import pyarrow as pa

from harness import interp as I
from harness.interp import ExchState, Hdr, ProdState
from vgi_rpc.rpc import RpcConnection, RpcError, RpcServer, Stream


# --------------------------------------------------------------------------- protocols (module level: type hints are resolved)
class InterpV(I.Interp, Protocol):
    """The served protocol: Interp with a declared application protocol version."""

    protocol_version: ClassVar[str] = "1.2.0"


class InterpV2(I.Interp, Protocol):
    """A client built against another major version."""

    protocol_version: ClassVar[str] = "2.0.0"


class InterpUnknown(Protocol):
    """A client that believes in methods the server does not have."""

    protocol_version: ClassVar[str] = "1.2.0"

    def nosuch_unary(self, pid: int) -> int: ...

    def nosuch_producer(self, pid: int) -> Stream[ProdState]: ...

    def nosuch_producer_h(self, pid: int) -> Stream[ProdState, Hdr]: ...

    def nosuch_exchange(self, pid: int) -> Stream[ExchState]: ...

    def nosuch_exchange_h(self, pid: int) -> Stream[ExchState, Hdr]: ...


class InterpBadParam(Protocol):
    """A client whose methods carry a parameter the server does not declare."""

    protocol_version: ClassVar[str] = "1.2.0"

    def unary(self, pid: int, bogus: int) -> int: ...

    def producer(self, pid: int, bogus: int) -> Stream[ProdState]: ...

    def producer_h(self, pid: int, bogus: int) -> Stream[ProdState, Hdr]: ...

    def exchange(self, pid: int, bogus: int) -> Stream[ExchState]: ...

    def exchange_h(self, pid: int, bogus: int) -> Stream[ExchState, Hdr]: ...


class _Renamed:
    """Adapter: the interp script's method names -> a proxy's differently named / parameterised methods."""

    def __init__(self, proxy: Any, prefix: str = "", extra: dict[str, Any] | None = None) -> None:
        self._proxy, self._prefix, self._extra = proxy, prefix, extra or {}

    def __getattr__(self, name: str) -> Any:
        f = getattr(self._proxy, self._prefix + name)
        extra = self._extra
        return lambda **kw: f(**kw, **extra)


# --------------------------------------------------------------------------- more exception classes for interpreter programs
class InterpRpcError(RpcError):
    """An RpcError subclass raised by an IMPLEMENTATION (e.g. re-raised from its own upstream RPC)."""

    def __init__(self, message: str) -> None:
        super().__init__("InterpFailure", message, "")


# The classes the serve loop / the client treat specially when THEY see them on the transport: an implementation whose own
# backend I/O fails raises exactly these.  Added to interp's table (additive; keys = type(exc).__name__ as sent on the wire).
EXTRA_EXC: dict[str, type[BaseException]] = {
    "BrokenPipeError": BrokenPipeError,
    "ConnectionResetError": ConnectionResetError,
    "ConnectionAbortedError": ConnectionAbortedError,
    "OSError": OSError,
    "TimeoutError": TimeoutError,
    "EOFError": EOFError,
    "ArrowInvalid": pa.ArrowInvalid,
    "StopIteration": StopIteration,
    "InterpRpcError": InterpRpcError,
}
for _k, _v in EXTRA_EXC.items():
    I.EXC_TABLE.setdefault(_k, _v)


def _on_cancel(self: Any, ctx: Any) -> None:
    """interp's on_cancel + an optional program key ``cancel_raise: [class, message]`` (hook failure)."""
    I.CALLS.append(("cancel", self.pid, self.i))
    exc = I.lookup(self.pid).get("cancel_raise")
    if exc:
        raise I.make_exc(*exc)


I.ProdState.on_cancel = _on_cancel  # type: ignore[method-assign]
I.ExchState.on_cancel = _on_cancel  # type: ignore[method-assign]

VIAS = ("main", "unknown", "badparam", "badversion")
REJECT_TYPE = {"unknown": "MethodNotImplementedError", "badparam": "TypeError", "badversion": "ProtocolVersionError"}

_SERVER: list[RpcServer] = []


def get_server() -> RpcServer:
    if not _SERVER:
        _SERVER.append(RpcServer(InterpV, I.InterpImpl()))
    return _SERVER[0]


# --------------------------------------------------------------------------- thread / descriptor state
_READ_SYSCALLS = {0, 45, 47, 17, 19}  # x86_64: read, recvfrom, recvmsg, pread64, readv
_HAVE_PROC = platform.machine() == "x86_64" and os.path.exists("/proc/self/task")


def _in_read_on(tid: int | None, fd: int, pid: Any = "self") -> bool:
    if tid is None:
        return False
    try:
        with open(f"/proc/{pid}/task/{tid}/syscall") as fh:
            parts = fh.read().split()
        return len(parts) >= 2 and parts[0].isdigit() and int(parts[0]) in _READ_SYSCALLS and int(parts[1], 16) == fd
    except (OSError, ValueError):
        return False


def _switches(tid: int | None, pid: Any = "self") -> int:
    if tid is None:
        return -1
    try:
        with open(f"/proc/{pid}/task/{tid}/status") as fh:
            return sum(int(l.split()[1]) for l in fh if "ctxt_switches" in l)
    except (OSError, ValueError):
        return -1


def _pending(fd: int) -> int:
    buf = fcntl.ioctl(fd, termios.FIONREAD, struct.pack("i", 0))
    return int(struct.unpack("i", buf)[0])


EOS = b"\xff\xff\xff\xff\x00\x00\x00\x00"


def parse_kinds(data: bytes) -> str:
    """Unread Arrow IPC bytes -> message kinds (see module docstring); '?' = not a message boundary."""
    out = []
    off = 0
    while off < len(data):
        if data[off : off + 8] == EOS:
            out.append("E")
            off += 8
            continue
        try:
            rd = pa.BufferReader(data[off:])
            msg = pa.ipc.read_message(rd)
            n = rd.tell()
        except Exception:  # noqa: BLE001
            out.append("?")
            break
        if msg.type == "schema":
            out.append("S")
        elif msg.type == "record batch":
            md = msg.metadata.to_pybytes()
            if b"vgi_rpc.log_level" in md:
                out.append("X" if b"EXCEPTION" in md else "L")
            else:
                out.append("D")
        else:
            out.append("?")
        off += n
    return "".join(out)


class Link:
    """One real connection plus everything needed to watch it."""

    def __init__(self, kind: str, mode: str = "record") -> None:
        from vgi_rpc.rpc import make_pipe_pair
        from vgi_rpc.rpc._transport import make_tcp_pair, make_unix_pair

        self.kind, self.mode = kind, mode
        self.rec = I.Recorder(mode)
        self.poisoned = False
        self.exit: str | None = None
        self.srv_tid: int | None = None
        self.proc: Any = None
        if kind == "subprocess":
            from vgi_rpc.rpc import SubprocessTransport

            if not os.environ.get(I.PROGRAMS_ENV):
                raise RuntimeError("dump_programs(path) must be called before opening a subprocess transport")
            self.ct: Any = SubprocessTransport([sys.executable, "-m", "harness.c04_worker"])
            self.st: Any = None
            self.thread: threading.Thread | None = None
            self.proc = self.ct.proc
        else:
            self.ct, self.st = {"pipe": make_pipe_pair, "unix": make_unix_pair, "tcp": make_tcp_pair}[kind]()
            server = get_server()

            def serve() -> None:
                self.srv_tid = threading.get_native_id()
                try:
                    server.serve(self.st)
                    self.exit = "returned"
                except BaseException as e:  # noqa: BLE001 - an exception escaping serve() is an observation
                    self.exit = "dead:" + type(e).__name__

            self.thread = threading.Thread(target=serve, daemon=True, name=f"c04-serve-{kind}")
            self.thread.start()
        mk = lambda proto: RpcConnection(proto, self.ct, on_log=self.rec.on_log).__enter__()  # noqa: E731
        self.proxies = {
            "main": mk(InterpV),
            "unknown": _Renamed(mk(InterpUnknown), prefix="nosuch_"),
            "badparam": _Renamed(mk(InterpBadParam), extra={"bogus": 1}),
            "badversion": mk(InterpV2),
        }
        self.cfd = self.ct.reader.fileno()
        self.sfd = self.st.reader.fileno() if self.st is not None else -1
        self.wfd = self.ct.writer.fileno()

    # ---- quiescence
    def _server_quiet(self) -> bool:
        """The serving side is gone, or sits in a read on its (empty) request descriptor."""
        if self.thread is None:
            if self.proc.poll() is not None:
                return True
            return _in_read_on(self.proc.pid, 0, self.proc.pid) and _pending(self.wfd) == 0
        if not self.thread.is_alive():
            return True
        return _in_read_on(self.srv_tid, self.sfd) and _pending(self.sfd) == 0

    def _server_switches(self) -> int:
        return _switches(self.proc.pid, self.proc.pid) if self.thread is None else _switches(self.srv_tid)

    def _wait_server_quiet(self, deadline: float) -> bool:
        while time.time() < deadline:
            if self._server_quiet():
                a = self._server_switches()
                time.sleep(0.002)
                if self._server_quiet() and self._server_switches() == a:
                    return True
            time.sleep(0.001)
        return False

    def run(self, via: str, script: list[Any], timeout: float = 60.0, fallback_block: float = 5.0, close_after_exception: bool = True) -> list[list[Any]]:
        """Run one interp script through proxy ``via``; the (cut) client trace.  A hang is ``["blocked"]``.

        ``close_after_exception``: when the on_log callback's exception leaves tick()/exchange() the session is closed,
        as ``with session:`` would do (the exception raised by that close(), if any, is dropped).
        """
        self.session_open = False
        if self.poisoned:
            return [["blocked"]]
        ev: list[list[Any]] = []
        self.rec.events = ev
        hooks: dict[str, Any] = {}
        proxy = self.proxies[via]
        tid: list[int] = []

        def body() -> None:
            tid.append(threading.get_native_id())
            try:
                I._play(proxy, script, ev, hooks)
            except RpcError as e:
                ev.append(["error", e.error_type, e.error_message])
            except I.CallbackBoom:
                if not ev or ev[-1] != ["cb_raised"]:
                    ev.append(["cb_raised"])
                sess = hooks.get("session")
                if close_after_exception and sess is not None:
                    with contextlib.suppress(BaseException):
                        sess.close()
            except BaseException as e:  # noqa: BLE001
                ev.append(["client_exc", type(e).__name__, str(e)[:200]])

        t = threading.Thread(target=body, daemon=True, name="c04-script")
        t0 = time.time()
        t.start()
        deadline = t0 + timeout
        blocked = False
        while True:
            t.join(0.002)
            if not t.is_alive():
                break
            now = time.time()
            if now > deadline:
                blocked = True
                break
            if not _HAVE_PROC:
                if now - t0 > fallback_block:       # no /proc: wall clock only
                    blocked = True
                    break
                continue
            if tid and _in_read_on(tid[0], self.cfd) and _pending(self.cfd) == 0 and self._server_quiet():
                if self.thread is None and self.proc.poll() is not None:
                    continue                        # the worker exited: the read is about to see EOF
                c0, s0 = _switches(tid[0]), self._server_switches()
                time.sleep(0.01)
                if (t.is_alive() and _in_read_on(tid[0], self.cfd) and _pending(self.cfd) == 0 and self._server_quiet()
                        and not (self.thread is None and self.proc.poll() is not None)
                        and _switches(tid[0]) == c0 and self._server_switches() == s0):
                    blocked = True
                    break
        self._script_thread = t
        if blocked:
            self.poisoned = True
            return I.cut(list(ev) + [["blocked"]])
        self._wait_server_quiet(time.time() + 30.0)
        sess = hooks.get("session")
        self.session_open = sess is not None and not getattr(sess, "_closed", True)
        return I.cut(list(ev))

    # ---- state (destructive)
    def _drain_nonblocking(self, reader: Any, sock: Any, fd: int) -> bytes:
        chunks = []
        try:
            if sock is not None:
                sock.setblocking(False)
            else:
                os.set_blocking(fd, False)
            while True:
                try:
                    b = reader.read1(1 << 16)
                except (BlockingIOError, OSError):
                    break
                if not b:
                    break
                chunks.append(b)
        finally:
            with contextlib.suppress(Exception):
                if sock is not None:
                    sock.setblocking(True)
                else:
                    os.set_blocking(fd, True)
        return b"".join(chunks)

    def state(self) -> dict[str, Any]:
        """Where the connection stands now (call once, after the last script; consumes the unread bytes)."""
        if self.thread is None:
            alive = self.proc.poll() is None
            return {"srv": "subprocess-alive" if alive else "subprocess-exited", "s2c": None, "c2s_unread": None}
        srv: str
        if not self.thread.is_alive():
            srv = self.exit or "returned"
        else:
            fr = sys._current_frames().get(self.thread.ident or 0)
            names = []
            while fr is not None:
                names.append(fr.f_code.co_name)
                fr = fr.f_back
            srv = "stream" if "_serve_stream" in names else ("top" if "_read_request" in names else "other:" + ",".join(names[:4]))
        if self.poisoned:
            s2c = ""
        else:
            s2c = parse_kinds(self._drain_nonblocking(self.ct.reader, getattr(self.ct, "_sock", None), self.cfd))
        c2s_unread = False
        if not self.thread.is_alive():
            c2s_unread = bool(self._drain_nonblocking(self.st.reader, getattr(self.st, "_sock", None), self.sfd))
        return {"srv": srv, "s2c": s2c.replace("S", ""), "s2c_raw": s2c, "c2s_unread": c2s_unread}

    # ---- teardown
    def close(self) -> None:
        if self.thread is None:
            t = getattr(self, "_script_thread", None)
            if t is not None and t.is_alive():
                with contextlib.suppress(Exception):
                    self.proc.kill()            # ends the pipes below the client's buffered reader: its read sees EOF
                t.join(5.0)
            with contextlib.suppress(Exception):
                self.ct.close()
            return
        # unblock whoever still sits in a read: end both directions below the buffered readers
        for tr in (self.st, self.ct):
            sock = getattr(tr, "_sock", None)
            if sock is not None:
                with contextlib.suppress(OSError):
                    sock.shutdown(socket.SHUT_RDWR)
            else:
                with contextlib.suppress(Exception):
                    tr.writer.close()
        t = getattr(self, "_script_thread", None)
        if t is not None:
            t.join(5.0)
        self.thread.join(5.0)
        for tr in (self.ct, self.st):
            if (t is None or not t.is_alive()) and not self.thread.is_alive():
                with contextlib.suppress(Exception):
                    tr.close()

    def __enter__(self) -> "Link":
        return self

    def __exit__(self, *a: Any) -> None:
        self.close()


def run_history(kind: str, mode: str, calls: list[tuple[str, list[Any]]], want_state: bool = True) -> dict[str, Any]:
    """Fresh connection; the calls in order (stops after a blocked call); traces, final state."""
    with Link(kind, mode) as link:
        traces = []
        for via, sc in calls:
            traces.append(link.run(via, sc))
            if link.poisoned:
                break
        st = link.state() if want_state else None
        return {"traces": traces, "state": st, "exit": link.exit}
