"""C31 second leg: the real aiohttp client of fetch_url against an in-process origin (aiointercept).

The origin is a table  (method, url-without-userinfo-and-fragment) -> responder(range_header) -> (status, headers, body).
Everything aiohttp does for real (URL handling incl. userinfo -> Authorization, framing, pooling, its own log
records and exception texts) is exercised here; the scripted session of c31_origin.py stands for it elsewhere.
"""
from __future__ import annotations

import asyncio
import logging
import threading
from typing import Any
from urllib.parse import urlsplit, urlunsplit

from harness.c31_origin import _LogCapture, render_exception


def _run_sync(coro: Any) -> None:
    err: list[BaseException] = []

    def target() -> None:
        loop = asyncio.new_event_loop()
        try:
            loop.run_until_complete(coro)
        except BaseException as e:  # noqa: BLE001
            err.append(e)
        finally:
            loop.close()

    t = threading.Thread(target=target, name="c31-aiointercept-lifecycle")
    t.start()
    t.join()
    if err:
        raise err[0]


def server_url(url: str) -> str:
    p = urlsplit(url)
    netloc = p.netloc.rpartition("@")[2]
    return urlunsplit((p.scheme, netloc, p.path, p.query, ""))


def run_real(url: str, cfg_kwargs: dict[str, Any], validator: Any, origin: dict[tuple[str, str], Any], timeout_s: float = 60.0) -> dict[str, Any]:
    from aiointercept import CallbackResult, aiointercept

    import vgi_rpc.external_fetch as ef

    seen: list[dict[str, Any]] = []
    mock = aiointercept(mock_external_urls=True)
    _run_sync(mock.start())
    logcap = _LogCapture()
    root = logging.getLogger()
    old = root.level
    root.addHandler(logcap)
    root.setLevel(logging.DEBUG)
    obs: dict[str, Any] = {"result": None, "error": None}
    try:
        for (method, u), responder in origin.items():
            def cb(url_: Any, *, _m: str = method, _u: str = u, _r: Any = responder, **kw: Any) -> Any:
                hdrs = kw.get("headers", {}) or {}
                rng = hdrs.get("Range")
                seen.append({"method": _m, "url": _u, "range": rng, "authorization": hdrs.get("Authorization")})
                status, headers, body = _r(rng)
                return CallbackResult(status=status, headers=headers, body=body, content_type=None if any(k.lower() == "content-type" for k in headers) else "application/octet-stream")

            mock.add(server_url(u), method=method, callback=cb, repeat=True)
        box: dict[str, Any] = {}
        with ef.FetchConfig(**cfg_kwargs) as cfg:
            def call() -> None:
                try:
                    box["data"] = ef.fetch_url(url, cfg, url_validator=validator)
                except BaseException as e:  # noqa: BLE001
                    box["exc"] = e

            th = threading.Thread(target=call, daemon=True, name="c31-real-fetch")
            th.start()
            th.join(timeout_s)
            if th.is_alive():
                obs["error"] = {"type": "HANG", "str": "fetch_url did not return (watchdog)", "traceback": "", "status": None}
            elif "exc" in box:
                obs["error"] = render_exception(box["exc"])
            else:
                obs["result"] = box["data"]
    finally:
        root.removeHandler(logcap)
        root.setLevel(old)
        _run_sync(mock.stop())
    obs["seen"] = seen
    obs["logs"] = logcap.records
    return obs
