"""C29 driver: call histories on the REAL shm-pipe transport (and on a plain pipe), allocation table read from the
segment header after every call.

History grammar (JSON-able)
---------------------------
spec   := [shape, n, tag]                      a batch: shape in SHAPES, n rows, tag selects the values
call   := ["unary", {"size": int, "fill": int, "exclog": bool, "raise": bool, "req": None | int}]
              size/fill: the bytes result; req = k: a peer that offers the request batch (pad of k bytes) to shm
        | ["stream", {"in": shape | None, "out": shape, "steps": [turn...], "after": "close" | "cancel"}]
        | ["release", i]                         the caller releases the i-th batch it still holds (newest first)
turn   := {"in": spec | None, "bad": bool, "exclog": bool, "cb": bool, "out": spec | "raise" | "finish", "rel": bool}
          exclog: process() logs at EXCEPTION level before its batch; cb: it logs at INFO level a message on which the
          client's on_log callback raises (also accepted in a unary call) -- both make the client abandon the read
          before the data batch, which the following close()/cancel() (unary: the drain) then meets
          bad: the input is sent under a wrong field name (the server's _coerce_input_batch refuses it)

Per call the driver reports: deliveries [(code, content key)] (0 request at the server, 1 stream input at the server's
process(), 2 unary result at the client, 3 stream output at the client), the client trace, the allocation table.
"""
from __future__ import annotations

import contextlib
import functools
import hashlib
import struct
import time
import threading
from dataclasses import dataclass
from typing import Any, Protocol

import pyarrow as pa
from pyarrow import ipc

import vgi_rpc.shm as shm_mod
from vgi_rpc.log import Level
from vgi_rpc.metadata import (
    REQUEST_VERSION,
    REQUEST_VERSION_KEY,
    RPC_METHOD_KEY,
    SHM_SEGMENT_NAME_KEY,
    SHM_SEGMENT_SIZE_KEY,
    SHM_SOURCE_KEY,
)
from vgi_rpc.rpc import (
    AnnotatedBatch,
    CallContext,
    OutputCollector,
    RpcConnection,
    RpcError,
    RpcServer,
    ShmPipeTransport,
    Stream,
    StreamState,
    make_pipe_pair,
)
from vgi_rpc.utils import IPC_WRITE_OPTIONS, ValidatedReader, IpcValidation

# ---------------------------------------------------------------------------
# batch shapes
# ---------------------------------------------------------------------------
_WIDE = 120
SCHEMAS: dict[str, pa.Schema] = {
    "i8": pa.schema([pa.field("v", pa.int8())]),
    "i64": pa.schema([pa.field("v", pa.int64())]),
    "dict": pa.schema([pa.field("d", pa.dictionary(pa.int8(), pa.string()))]),
    "ldict": pa.schema([pa.field("l", pa.list_(pa.dictionary(pa.int32(), pa.string())))]),
    "zero": pa.schema([]),
    "wide": pa.schema([pa.field(f"c{i:03d}_{'x' * 24}", pa.int8()) for i in range(_WIDE)]),
    "mix": pa.schema([pa.field("v", pa.int8()), pa.field("d", pa.dictionary(pa.int8(), pa.string()))]),
}
SHAPES = list(SCHEMAS)


def _int_array(values: bytes, typ: pa.DataType) -> pa.Array:
    return pa.Array.from_buffers(typ, len(values) // (typ.bit_width // 8), [None, pa.py_buffer(values)])


@functools.lru_cache(maxsize=512)
def make_batch(shape: str, n: int, tag: int) -> pa.RecordBatch:
    """The batch a spec stands for (immutable, cached; built from buffers, not from Python lists)."""
    sch = SCHEMAS[shape]
    t = tag % 100
    if shape == "i8":
        return pa.RecordBatch.from_arrays([_int_array(bytes([t]) * n, pa.int8())], schema=sch)
    if shape == "i64":
        return pa.RecordBatch.from_arrays([_int_array(t.to_bytes(8, "little") * n, pa.int64())], schema=sch)
    words = [f"w{t}_{k}" for k in range(3)]
    if shape in ("dict", "mix"):
        idx = _int_array((bytes([0, 1, 2]) * (n // 3 + 1))[:n], pa.int8())
        arr = pa.DictionaryArray.from_arrays(idx, pa.array(words))
        if shape == "dict":
            return pa.RecordBatch.from_arrays([arr], schema=sch)
        return pa.RecordBatch.from_arrays([_int_array(bytes([t]) * n, pa.int8()), arr], schema=sch)
    if shape == "ldict":
        # the dictionary grows with the tag: large tags make the dictionary messages outgrow the 4096-byte slack
        big = [f"w{t}_{k:05d}" for k in range(3 + (600 if tag >= 100 else 0))]
        values = pa.DictionaryArray.from_arrays(pa.array([i % len(big) for i in range(2 * n)], type=pa.int32()), pa.array(big))
        arr = pa.ListArray.from_arrays(pa.array(list(range(0, 2 * n + 1, 2)), type=pa.int32()), values)
        return pa.RecordBatch.from_arrays([arr], schema=sch)
    if shape == "zero":
        return pa.RecordBatch.from_arrays([_int_array(bytes(n), pa.int8())], names=["x"]).select([])
    if shape == "wide":
        col = _int_array(bytes([t]) * n, pa.int8())
        return pa.RecordBatch.from_arrays([col for _ in range(_WIDE)], schema=sch)
    raise ValueError(shape)


def _hash_array(h: Any, col: pa.Array) -> Any:
    """Feed a canonical rendering of the values of ``col`` to ``h``; returns a short preview."""
    typ = col.type
    if col.null_count == 0 and pa.types.is_integer(typ):
        w = typ.bit_width // 8  # the values buffer of a null-free integer array is canonical
        h.update(b"raw:" + str(typ).encode())
        h.update(memoryview(col.buffers()[1])[col.offset * w : (col.offset + len(col)) * w])
        return col.slice(0, 2).to_pylist()
    if pa.types.is_dictionary(typ) and col.null_count == 0 and col.dictionary.null_count == 0:
        # what the application sees are the decoded values (the type, with its index width, is in the schema string)
        h.update(b"dict:")
        return _hash_array(h, col.cast(typ.value_type))
    if col.null_count == 0 and col.offset == 0 and (pa.types.is_string(typ) or pa.types.is_binary(typ)):
        _, offsets, data = col.buffers()
        n = len(col)
        end = int.from_bytes(memoryview(offsets)[4 * n : 4 * n + 4], "little") if n else 0
        h.update(b"str:" + str(typ).encode())
        h.update(memoryview(offsets)[: 4 * (n + 1)])
        if data is not None:
            h.update(memoryview(data)[:end])
        return col.slice(0, 2).to_pylist()
    vals = col.to_pylist()
    h.update(b"py:" + repr(vals).encode())
    return vals[:2]


def content_key(batch: pa.RecordBatch) -> str:
    """Everything of a batch an application can see (schema incl. types, row count, every value), condensed."""
    h = hashlib.sha1()
    head = [_hash_array(h, batch.column(i)) for i in range(batch.num_columns)]
    return f"{batch.schema.to_string(show_field_metadata=True, show_schema_metadata=True)[:200]}|{batch.num_rows}|{repr(head[:2])[:60]}|{h.hexdigest()[:20]}"


def raw_digest(batch: pa.RecordBatch) -> str:
    """Digest of the memory a batch views (cheap; detects any change under a batch that is still held)."""
    h = hashlib.sha1()
    for col in batch.columns:
        for buf in col.buffers():
            if buf is not None:
                h.update(memoryview(buf))
        if pa.types.is_dictionary(col.type):
            for buf in col.dictionary.buffers():
                if buf is not None:
                    h.update(memoryview(buf))
    return h.hexdigest()


def has_top_level_dictionary(schema: pa.Schema) -> bool:
    return any(pa.types.is_dictionary(f.type) for f in schema)


def measure(batch: pa.RecordBatch) -> dict[str, Any]:
    """Arrow's own numbers for a batch (environment facts the model takes as input), computed with pyarrow only."""
    sink = pa.BufferOutputStream()
    w = ipc.RecordBatchStreamWriter(sink, batch.schema, options=IPC_WRITE_OPTIONS)
    w.write_batch(batch)
    w.close()
    stream = sink.getvalue().size
    sink0 = pa.BufferOutputStream()
    w0 = ipc.RecordBatchStreamWriter(sink0, batch.schema, options=IPC_WRITE_OPTIONS)
    w0.close()
    schema_msg = sink0.getvalue().size - 8
    return {
        "rows": batch.num_rows,
        "nbytes": batch.nbytes,
        "dict": has_top_level_dictionary(batch.schema),
        "msg": ipc.get_record_batch_size(batch),
        "ser": stream - schema_msg - 8,
        "stream": stream,
    }


# ---------------------------------------------------------------------------
# the service
# ---------------------------------------------------------------------------
PROGRAMS: dict[int, dict[str, Any]] = {}
SERVER_OBS: list[list[Any]] = []
_PROGRESS = [0.0]  # monotonic time of the last completed unit of work (either side); read by the watchdog


def _tick() -> None:
    _PROGRESS[0] = time.monotonic()



def _turn(state: Any, batch_in: AnnotatedBatch | None, out: OutputCollector, ctx: CallContext) -> None:
    _tick()
    prog = PROGRAMS[state.pid]
    steps = prog["steps"]
    i = state.i
    state.i = i + 1
    if batch_in is not None:
        SERVER_OBS.append([1, content_key(batch_in.batch)])
    if i >= len(steps):
        if prog["in"] is None:
            out.finish()
        else:
            out.emit(make_batch(prog["out"], 0, 0))
        return
    t = steps[i]
    if t.get("exclog"):
        ctx.client_log(Level.EXCEPTION, f"exclog-{i}")
    if t.get("cb"):
        ctx.client_log(Level.INFO, f"{CB_MARK}-{i}")
    o = t["out"]
    if o == "raise":
        raise ValueError(f"turn {i} raises")
    if o == "finish":
        out.finish()
        return
    out.emit(make_batch(*o), metadata=t.get("meta") or None)


@dataclass
class C29Prod(StreamState):
    """Producer cursor."""

    pid: int
    i: int = 0

    def process(self, input: AnnotatedBatch, out: OutputCollector, ctx: CallContext) -> None:  # noqa: A002
        _turn(self, None, out, ctx)


@dataclass
class C29Exch(StreamState):
    """Exchange cursor."""

    pid: int
    i: int = 0

    def process(self, input: AnnotatedBatch, out: OutputCollector, ctx: CallContext) -> None:  # noqa: A002
        _turn(self, input, out, ctx)


class C29Svc(Protocol):
    """One unary method with a sizeable request and result, one producer, one exchange."""

    def un(self, pid: int, pad: bytes) -> bytes: ...

    def pr(self, pid: int) -> Stream[C29Prod]: ...

    def ex(self, pid: int) -> Stream[C29Exch]: ...


class C29Impl:
    def un(self, pid: int, pad: bytes, ctx: CallContext) -> bytes:
        _tick()
        prog = PROGRAMS[pid]
        SERVER_OBS.append([0, req_key(len(pad), pad == bytes([REQ_FILL]) * len(pad))])
        if prog.get("exclog"):
            ctx.client_log(Level.EXCEPTION, "exclog-unary")
        if prog.get("cb"):
            ctx.client_log(Level.INFO, f"{CB_MARK}-unary")
        if prog.get("raise"):
            raise ValueError("unary raises")
        return bytes([prog["fill"] % 256]) * int(prog["size"])

    def pr(self, pid: int) -> Stream[C29Prod]:
        prog = PROGRAMS[pid]
        return Stream(output_schema=SCHEMAS[prog["out"]], state=C29Prod(pid=pid))

    def ex(self, pid: int) -> Stream[C29Exch]:
        prog = PROGRAMS[pid]
        return Stream(output_schema=SCHEMAS[prog["out"]], state=C29Exch(pid=pid), input_schema=SCHEMAS[prog["in"]])


REQ_FILL = 7
CB_MARK = "cbraise"


class CallbackBoom(Exception):
    """Raised by the client's on_log callback for a log message that starts with CB_MARK."""


def on_log(msg: Any) -> None:
    if str(msg.message).startswith(CB_MARK):
        raise CallbackBoom(msg.message)



def req_key(n: int, intact: bool = True) -> str:
    return f"req|{n}|{intact}"


_SERVER: list[RpcServer] = []


def server() -> RpcServer:
    if not _SERVER:
        _SERVER.append(RpcServer(C29Svc, C29Impl()))
    return _SERVER[0]


def unary_result_batch(size: int, fill: int) -> pa.RecordBatch:
    from vgi_rpc.rpc import rpc_methods

    sch = rpc_methods(C29Svc)["un"].result_schema
    return pa.RecordBatch.from_arrays([pa.array([bytes([fill % 256]) * size], type=sch.field(0).type)], schema=sch)


def unary_request_batch(pid: int, pad: bytes) -> pa.RecordBatch:
    from vgi_rpc.rpc import rpc_methods

    sch = rpc_methods(C29Svc)["un"].params_schema
    return pa.RecordBatch.from_arrays([pa.array([{"pid": pid, "pad": pad}[f.name]], type=f.type) for f in sch], schema=sch)


# ---------------------------------------------------------------------------
# segment header, read without the allocator class
# ---------------------------------------------------------------------------
def read_table(seg: Any) -> list[tuple[int, int]]:
    buf = seg.buf
    (num,) = struct.unpack_from("<I", buf, 16)
    return [struct.unpack_from("<QQ", buf, 24 + 16 * i) for i in range(num)]


def _app_meta(cm: pa.KeyValueMetadata | None) -> dict[str, str] | None:
    if cm is None:
        return None
    out = {}
    for k, v in cm.items():
        if k == SHM_SOURCE_KEY:
            continue  # provenance of the resolve, not part of what was sent (reading recorded in props/C29.py)
        out[k.decode(errors="replace")] = v.decode(errors="replace")
    return out or None


def _via_shm(ab: AnnotatedBatch) -> bool:
    return ab.custom_metadata is not None and ab.custom_metadata.get(SHM_SOURCE_KEY) is not None


# ---------------------------------------------------------------------------
# running a history
# ---------------------------------------------------------------------------
_PID = 1


@dataclass
class Held:
    ab: AnnotatedBatch
    key: str
    via_shm: bool
    digest: str = ""


def _raw_unary(ct: Any, seg: Any, pid: int, pad: bytes) -> Any:
    """A peer that routes the request batch through shm when it is large enough (what a non-Python client does);
    the response is read by the real client code."""
    from vgi_rpc.rpc import rpc_methods
    from vgi_rpc.rpc._wire import _read_unary_response
    from vgi_rpc.utils import new_ipc_stream

    info = rpc_methods(C29Svc)["un"]
    batch = unary_request_batch(pid, pad)
    md = {RPC_METHOD_KEY: b"un", REQUEST_VERSION_KEY: REQUEST_VERSION}
    if seg is not None:
        md[SHM_SEGMENT_NAME_KEY] = seg.name.encode()
        md[SHM_SEGMENT_SIZE_KEY] = str(seg.size).encode()
    cm: pa.KeyValueMetadata | None = pa.KeyValueMetadata(md)
    if seg is not None:
        batch, cm = shm_mod.maybe_write_to_shm(batch, cm, seg)
    with new_ipc_stream(ct.writer, info.params_schema) as w:
        w.write_batch(batch, custom_metadata=cm)
    reader = ValidatedReader(ipc.open_stream(ct.reader), IpcValidation.FULL)
    return _read_unary_response(reader, info, on_log, None, shm=seg)


def run_history(history: list[Any], *, use_shm: bool, seg_size: int = 1 << 20, thresh: int = 1, timeout: float = 90.0, hard_cap: float = 1800.0) -> dict[str, Any]:
    """Run one history on a fresh connection.  Returns per-call records and the segment's actual size."""
    res: dict[str, Any] = {"calls": [], "total": None, "hang": False, "server_died": None, "final_table": None, "stale": []}
    seg = None
    old_thresh = shm_mod.SHM_MIN_BATCH_BYTES
    shm_mod.SHM_MIN_BATCH_BYTES = int(thresh)
    cp, sp = make_pipe_pair()
    if use_shm:
        seg = shm_mod.ShmSegment.create(int(seg_size))
        res["total"] = seg.size
        ct: Any = ShmPipeTransport(cp, seg)
        st: Any = ShmPipeTransport(sp, seg)
    else:
        ct, st = cp, sp
    died: list[BaseException] = []

    def serve() -> None:
        try:
            server().serve(st)
        except BaseException as e:  # noqa: BLE001
            died.append(e)

    th = threading.Thread(target=serve, daemon=True, name="c29-serve")
    th.start()
    held: list[Held] = []
    global _PID
    base_pid = _PID
    _PID += len(history) + 1

    def body() -> None:
        with RpcConnection(C29Svc, ct, on_log=on_log) as px:
            for ci, call in enumerate(history):
                kind, arg = call[0], call[1]
                pid = base_pid + ci
                trace: list[Any] = []
                deliv: list[list[Any]] = []
                SERVER_OBS.clear()
                try:
                    if kind == "unary":
                        PROGRAMS[pid] = arg
                        if arg.get("req") is not None:
                            pad = bytes([REQ_FILL]) * int(arg["req"])
                            v = _raw_unary(ct, seg, pid, pad)
                        else:
                            v = px.un(pid=pid, pad=b"")
                        key = content_key(unary_result_batch(len(v), v[0] if v else 0)) if v == v[:1] * len(v) else f"garbled:{v[:16]!r}"
                        trace.append(["result", key])
                        deliv.append([2, key])
                    elif kind == "stream":
                        PROGRAMS[pid] = arg
                        sess = px.pr(pid=pid) if arg["in"] is None else px.ex(pid=pid)
                        try:
                            for t in arg["steps"]:
                                if arg["in"] is None:
                                    try:
                                        ab = sess.tick()
                                    except StopIteration:
                                        trace.append(["done"])
                                        break
                                else:
                                    b_in = make_batch(*t["in"])
                                    if t.get("bad"):
                                        b_in = b_in.rename_columns([f"not_{n}" for n in b_in.schema.names])
                                    ab = sess.exchange(AnnotatedBatch(batch=b_in))
                                key = content_key(ab.batch)
                                trace.append(["batch", key, _app_meta(ab.custom_metadata)])
                                deliv.append([3, key])
                                _tick()
                                if t.get("rel"):
                                    ab.release()
                                elif _via_shm(ab):
                                    # release() of a batch that arrived inline is a no-op: only shm batches are "held"
                                    held.insert(0, Held(ab, key, True, raw_digest(ab.batch)))
                        finally:
                            if arg.get("after") == "cancel":
                                sess.cancel()
                            else:
                                sess.close()
                    elif kind == "release":
                        if arg < len(held):
                            held.pop(arg).ab.release()
                    else:
                        raise ValueError(kind)
                except RpcError as e:
                    trace.append(["error", e.error_type, str(e.error_message)[:120]])
                except CallbackBoom as e:
                    trace.append(["callback_raised", str(e)])
                # batches still held must still read as they did on arrival
                for h in held:
                    if raw_digest(h.ab.batch) != h.digest:
                        res["stale"].append([ci, h.key[:80]])
                _tick()
                srv = [list(x) for x in SERVER_OBS]
                res["calls"].append(
                    {
                        "deliveries": _interleave(srv, deliv) if kind == "stream" else ((srv if arg.get("req") is not None else []) + deliv if kind == "unary" else []),
                        "trace": trace,
                        "server": srv,
                        "table": read_table(seg) if seg is not None else [],
                        "held_shm": sum(1 for h in held if h.via_shm),
                    }
                )
            for h in list(held):
                h.ab.release()
            held.clear()
            res["final_table"] = read_table(seg) if seg is not None else []

    exc: list[BaseException] = []

    def guarded() -> None:
        try:
            body()
        except BaseException as e:  # noqa: BLE001
            exc.append(e)

    t = threading.Thread(target=guarded, daemon=True, name="c29-client")
    _tick()
    t.start()
    # Watchdog: a hang is "no unit of work (call, turn, delivered batch) completed on either side for `timeout`
    # seconds while the process hardly used any CPU" -- a history that is merely slow on a loaded machine keeps
    # ticking or keeps burning CPU and is never reported.  `hard_cap` bounds the whole history.
    t0 = time.monotonic()
    mark, cpu_mark = _PROGRESS[0], time.process_time()
    while t.is_alive():
        t.join(0.5)
        now = time.monotonic()
        if _PROGRESS[0] != mark:
            mark, cpu_mark = _PROGRESS[0], time.process_time()
        elif now - mark > timeout:
            if time.process_time() - cpu_mark < 0.02 * (now - mark):
                res["hang"] = True
                res["hang_detail"] = f"no progress for {now - mark:.0f}s, {time.process_time() - cpu_mark:.1f}s CPU in that window, {len(res['calls'])} calls done"
                break
            mark, cpu_mark = now, time.process_time()  # still computing: open a new window
        if now - t0 > hard_cap:
            res["hang"] = True
            res["hang_detail"] = f"history exceeded {hard_cap:.0f}s ({len(res['calls'])} calls done)"
            break
    with contextlib.suppress(Exception):
        ct.close()
    th.join(timeout=3)
    with contextlib.suppress(Exception):
        st.close()
    if t.is_alive():
        t.join(2)
    shm_mod.SHM_MIN_BATCH_BYTES = old_thresh
    if exc:
        res["client_exc"] = f"{type(exc[0]).__name__}: {exc[0]}"[:300]
    if died:
        res["server_died"] = f"{type(died[0]).__name__}: {died[0]}"[:300]
    held.clear()
    if seg is not None:
        with contextlib.suppress(Exception):
            seg.unlink()
        with contextlib.suppress(Exception):
            seg.close()
    return res


def _interleave(srv: list[list[Any]], cli: list[list[Any]]) -> list[list[Any]]:
    """Lockstep order of a stream call: input j at the server, then output j at the client."""
    out: list[list[Any]] = []
    i = j = 0
    while i < len(srv) or j < len(cli):
        if i < len(srv):
            out.append(srv[i])
            i += 1
        if j < len(cli):
            out.append(cli[j])
            j += 1
    return out


def probe_refused_request(request_version: bytes = b"999") -> list[tuple[int, int]]:
    """A peer routes its request batch through shm but names a request_version the server refuses before it
    resolves the pointer.  Returns the allocation table afterwards (observation only, see props/C29.py)."""
    from vgi_rpc.rpc import rpc_methods
    from vgi_rpc.utils import new_ipc_stream

    old = shm_mod.SHM_MIN_BATCH_BYTES
    shm_mod.SHM_MIN_BATCH_BYTES = 1
    seg = shm_mod.ShmSegment.create(1 << 20)
    cp, sp = make_pipe_pair()
    ct, st = ShmPipeTransport(cp, seg), ShmPipeTransport(sp, seg)
    def serve() -> None:
        with contextlib.suppress(BaseException):
            server().serve(st)

    th = threading.Thread(target=serve, daemon=True)
    th.start()
    try:
        info = rpc_methods(C29Svc)["un"]
        batch = unary_request_batch(1, bytes([REQ_FILL]) * 5000)
        cm = pa.KeyValueMetadata({RPC_METHOD_KEY: b"un", REQUEST_VERSION_KEY: request_version})
        batch, cm = shm_mod.maybe_write_to_shm(batch, cm, seg)
        with new_ipc_stream(ct.writer, info.params_schema) as w:
            w.write_batch(batch, custom_metadata=cm)
        done: list[Any] = []

        def rd() -> None:
            r = ipc.open_stream(ct.reader)
            with contextlib.suppress(StopIteration):
                while True:
                    r.read_next_batch()
            done.append(1)

        t = threading.Thread(target=rd, daemon=True)
        t.start()
        t.join(10)
        return [tuple(x) for x in read_table(seg)]
    finally:
        shm_mod.SHM_MIN_BATCH_BYTES = old
        with contextlib.suppress(Exception):
            ct.close()
        th.join(3)
        with contextlib.suppress(Exception):
            st.close()
        with contextlib.suppress(Exception):
            seg.unlink()
        with contextlib.suppress(Exception):
            seg.close()
