"""Minimal pure-Python msgpack (spec subset) for the C03 check only: nil, bool, int, float64, str, bin, array, map.

The real ``msgpack`` wheel is not installed in the sandbox, so the compact state codec of vgi_rpc/utils.py could not run at
all.  This stand-in follows https://github.com/msgpack/msgpack/blob/master/spec.md for the formats the codec uses and mirrors
the exceptions of msgpack-python that ``serialize_compact`` / ``deserialize_compact`` catch (TypeError for an unsupported
type, OverflowError for an int outside [-2**63, 2**64), ValueError family for undecodable input).  It is on ``sys.path`` of
harness/c03_compact_driver.py only.
"""
from __future__ import annotations

import struct
from typing import Any

version = (0, 0, 0, "c03-stub")


def _pack(o: Any, out: bytearray, use_bin_type: bool) -> None:
    if o is None:
        out.append(0xC0)
    elif o is True:
        out.append(0xC3)
    elif o is False:
        out.append(0xC2)
    elif isinstance(o, int):
        if 0 <= o < 128:
            out.append(o)
        elif -32 <= o < 0:
            out += struct.pack("b", o)
        elif 0 <= o < 2**8:
            out += b"\xcc" + struct.pack(">B", o)
        elif 0 <= o < 2**16:
            out += b"\xcd" + struct.pack(">H", o)
        elif 0 <= o < 2**32:
            out += b"\xce" + struct.pack(">I", o)
        elif 0 <= o < 2**64:
            out += b"\xcf" + struct.pack(">Q", o)
        elif -(2**7) <= o:
            out += b"\xd0" + struct.pack(">b", o)
        elif -(2**15) <= o:
            out += b"\xd1" + struct.pack(">h", o)
        elif -(2**31) <= o:
            out += b"\xd2" + struct.pack(">i", o)
        elif -(2**63) <= o:
            out += b"\xd3" + struct.pack(">q", o)
        else:
            raise OverflowError("Integer value out of range")
    elif isinstance(o, float):
        out += b"\xcb" + struct.pack(">d", o)
    elif isinstance(o, str):
        b = o.encode("utf-8")  # UnicodeEncodeError (a ValueError) for lone surrogates, as msgpack-python
        n = len(b)
        if n < 32:
            out.append(0xA0 | n)
        elif n < 2**8:
            out += b"\xd9" + struct.pack(">B", n)
        elif n < 2**16:
            out += b"\xda" + struct.pack(">H", n)
        else:
            out += b"\xdb" + struct.pack(">I", n)
        out += b
    elif isinstance(o, (bytes, bytearray, memoryview)):
        b = bytes(o)
        n = len(b)
        if not use_bin_type:
            raise TypeError("stub supports use_bin_type=True only")
        if n < 2**8:
            out += b"\xc4" + struct.pack(">B", n)
        elif n < 2**16:
            out += b"\xc5" + struct.pack(">H", n)
        else:
            out += b"\xc6" + struct.pack(">I", n)
        out += b
    elif isinstance(o, (list, tuple)):
        n = len(o)
        if n < 16:
            out.append(0x90 | n)
        elif n < 2**16:
            out += b"\xdc" + struct.pack(">H", n)
        else:
            out += b"\xdd" + struct.pack(">I", n)
        for x in o:
            _pack(x, out, use_bin_type)
    elif isinstance(o, dict):
        n = len(o)
        if n < 16:
            out.append(0x80 | n)
        elif n < 2**16:
            out += b"\xde" + struct.pack(">H", n)
        else:
            out += b"\xdf" + struct.pack(">I", n)
        for k, x in o.items():
            _pack(k, out, use_bin_type)
            _pack(x, out, use_bin_type)
    else:
        raise TypeError(f"can not serialize {type(o).__name__!r} object")


def packb(o: Any, use_bin_type: bool = True, **_kw: Any) -> bytes:
    out = bytearray()
    _pack(o, out, use_bin_type)
    return bytes(out)


class ExtraData(ValueError):
    pass


class FormatError(ValueError):
    pass


def _take(d: bytes, p: int, n: int) -> tuple[bytes, int]:
    if p + n > len(d):
        raise ValueError("Unpack failed: incomplete input")
    return d[p : p + n], p + n


def _unpack(d: bytes, p: int, raw: bool) -> tuple[Any, int]:
    if p >= len(d):
        raise ValueError("Unpack failed: incomplete input")
    t = d[p]
    p += 1
    if t < 0x80:
        return t, p
    if t >= 0xE0:
        return t - 256, p
    if 0x80 <= t <= 0x8F:
        return _map(d, p, t & 0x0F, raw)
    if 0x90 <= t <= 0x9F:
        return _arr(d, p, t & 0x0F, raw)
    if 0xA0 <= t <= 0xBF:
        b, p = _take(d, p, t & 0x1F)
        return (b if raw else b.decode("utf-8")), p
    if t == 0xC0:
        return None, p
    if t == 0xC2:
        return False, p
    if t == 0xC3:
        return True, p
    if t in (0xC4, 0xC5, 0xC6):
        w = {0xC4: 1, 0xC5: 2, 0xC6: 4}[t]
        nb, p = _take(d, p, w)
        b, p = _take(d, p, int.from_bytes(nb, "big"))
        return b, p
    if t == 0xCA:
        b, p = _take(d, p, 4)
        return struct.unpack(">f", b)[0], p
    if t == 0xCB:
        b, p = _take(d, p, 8)
        return struct.unpack(">d", b)[0], p
    if t in (0xCC, 0xCD, 0xCE, 0xCF):
        w = {0xCC: 1, 0xCD: 2, 0xCE: 4, 0xCF: 8}[t]
        b, p = _take(d, p, w)
        return int.from_bytes(b, "big"), p
    if t in (0xD0, 0xD1, 0xD2, 0xD3):
        w = {0xD0: 1, 0xD1: 2, 0xD2: 4, 0xD3: 8}[t]
        b, p = _take(d, p, w)
        return int.from_bytes(b, "big", signed=True), p
    if t in (0xD9, 0xDA, 0xDB):
        w = {0xD9: 1, 0xDA: 2, 0xDB: 4}[t]
        nb, p = _take(d, p, w)
        b, p = _take(d, p, int.from_bytes(nb, "big"))
        return (b if raw else b.decode("utf-8")), p
    if t in (0xDC, 0xDD):
        nb, p = _take(d, p, 2 if t == 0xDC else 4)
        return _arr(d, p, int.from_bytes(nb, "big"), raw)
    if t in (0xDE, 0xDF):
        nb, p = _take(d, p, 2 if t == 0xDE else 4)
        return _map(d, p, int.from_bytes(nb, "big"), raw)
    raise FormatError(f"unsupported type byte 0x{t:02x}")


def _arr(d: bytes, p: int, n: int, raw: bool) -> tuple[Any, int]:
    out = []
    for _ in range(n):
        x, p = _unpack(d, p, raw)
        out.append(x)
    return out, p


def _map(d: bytes, p: int, n: int, raw: bool) -> tuple[Any, int]:
    out = {}
    for _ in range(n):
        k, p = _unpack(d, p, raw)
        if not isinstance(k, (str, bytes)):
            raise ValueError(f"{type(k).__name__} is not allowed for map key when strict_map_key=True")
        x, p = _unpack(d, p, raw)
        out[k] = x
    return out, p


def unpackb(data: Any, raw: bool = False, **_kw: Any) -> Any:
    d = bytes(data)
    o, p = _unpack(d, 0, raw)
    if p != len(d):
        raise ExtraData("unpack(b) received extra data.")
    return o
