"""C18 harness: payload descriptions, frame builders, recording proxies around the real codec
libraries, and the driver that runs vgi_rpc._codec.decompress on one (frame, cap).

Nothing here decides the property; props/C18.py does.
"""
from __future__ import annotations

import contextlib
import gzip as _gzipmod
import io
import signal
import types
import zlib as _real_zlib
from typing import Any, Iterator

import zstandard

UNKNOWN = 18446744073709551615

# ---------------------------------------------------------------------------
# payload descriptions, mirrored by M_Codec.expand
# ---------------------------------------------------------------------------
Seg = tuple  # ("lit", bytes) | ("rep", bytes, k) | ("xs", seed, k)


def xs_bytes(seed: int, k: int) -> bytes:
    x = seed
    out = bytearray(k)
    for i in range(k):
        x ^= (x << 13) & 0xFFFFFFFF
        x ^= x >> 17
        x ^= (x << 5) & 0xFFFFFFFF
        out[i] = (x >> 8) & 255
    return bytes(out)


def expand(spec: list[Seg]) -> bytes:
    parts = []
    for s in spec:
        if s[0] == "lit":
            parts.append(s[1])
        elif s[0] == "rep":
            parts.append(s[1] * s[2])
        elif s[0] == "xs":
            parts.append(xs_bytes(s[1], s[2]))
        else:
            raise ValueError(s)
    return b"".join(parts)


def spec_json(spec: list[Seg]) -> list[Any]:
    return [[s[0], s[1].hex(), *s[2:]] if s[0] != "xs" else list(s) for s in spec]


def spec_from_json(js: list[Any]) -> list[Seg]:
    return [tuple([s[0], bytes.fromhex(s[1]), *s[2:]]) if s[0] != "xs" else tuple(s) for s in js]


def coq_bytes(b: bytes) -> str:
    return "([" + ";".join(str(x) for x in b) + "]%N)" if b else "[]"


def coq_spec(spec: list[Seg]) -> str:
    items = []
    for s in spec:
        if s[0] == "lit":
            items.append(f"Lit {coq_bytes(s[1])}")
        elif s[0] == "rep":
            items.append(f"Rep {coq_bytes(s[1])} {s[2]}%N")
        else:
            items.append(f"Xs {s[1]}%N {s[2]}%N")
    return "[" + "; ".join(items) + "]"


# ---------------------------------------------------------------------------
# frame builders (every compressor the property names: one-shot and streaming)
# ---------------------------------------------------------------------------
def _pieces(d: bytes, cuts: list[int]) -> list[bytes]:
    pts = [0] + sorted(c for c in cuts if 0 <= c <= len(d)) + [len(d)]
    return [d[a:b] for a, b in zip(pts, pts[1:])]


def zstd_frame(kind: str, d: bytes, level: int | None, cuts: list[int]) -> bytes:
    from vgi_rpc import _codec

    lv = 3 if level is None else level
    if kind == "api":  # the function under test (one-shot, size-declaring)
        return _codec.compress(_codec.Encoding.ZSTD, d, level=level)
    if kind == "nosize":  # one-shot compressor told not to store the size
        return zstandard.ZstdCompressor(level=lv, write_content_size=False).compress(d)
    if kind == "checksum":
        return zstandard.ZstdCompressor(level=lv, write_checksum=True).compress(d)
    if kind == "cobj":  # streaming compressor, size unknown up-front
        co = zstandard.ZstdCompressor(level=lv).compressobj()
        out = []
        for k, p in enumerate(_pieces(d, cuts)):
            out.append(co.compress(p))
            if k % 2 == 0 and len(cuts) > 0:
                out.append(co.flush(zstandard.COMPRESSOBJ_FLUSH_BLOCK))
        out.append(co.flush())
        return b"".join(out)
    if kind == "cobj_sized":  # streaming compressor that was told the size
        co = zstandard.ZstdCompressor(level=lv).compressobj(size=len(d))
        out = [co.compress(p) for p in _pieces(d, cuts)]
        out.append(co.flush())
        return b"".join(out)
    if kind == "writer":
        b = io.BytesIO()
        with zstandard.ZstdCompressor(level=lv).stream_writer(b, closefd=False) as w:
            for p in _pieces(d, cuts):
                w.write(p)
        return b.getvalue()
    if kind == "arrow":  # Arrow's CompressedOutputStream (always size-less)
        import pyarrow as pa

        sink = pa.BufferOutputStream()
        with pa.CompressedOutputStream(sink, "zstd") as s:
            for p in _pieces(d, cuts):
                s.write(p)
        return sink.getvalue().to_pybytes()
    raise ValueError(kind)


def gzip_frame(kind: str, d: bytes, level: int | None, cuts: list[int]) -> bytes:
    from vgi_rpc import _codec

    lv = 6 if level is None else level
    if kind == "api":
        return _codec.compress(_codec.Encoding.GZIP, d, level=level)
    if kind == "gzipmod":  # the stdlib gzip module (different header)
        return _gzipmod.compress(d, compresslevel=lv if 0 <= lv <= 9 else 6, mtime=0)
    if kind == "sync":  # streaming compressor with sync / full flushes between pieces
        co = _real_zlib.compressobj(lv, _real_zlib.DEFLATED, 31)
        out = []
        for k, p in enumerate(_pieces(d, cuts)):
            out.append(co.compress(p))
            out.append(co.flush(_real_zlib.Z_SYNC_FLUSH if k % 2 == 0 else _real_zlib.Z_FULL_FLUSH))
        out.append(co.flush(_real_zlib.Z_FINISH))
        return b"".join(out)
    raise ValueError(kind)


# ---------------------------------------------------------------------------
# what the libraries answer, asked independently of vgi_rpc._codec
# ---------------------------------------------------------------------------
def zstd_answers(f: bytes) -> dict[str, Any]:
    raw = zstandard.get_frame_parameters(f).content_size
    try:
        one: bytes | None = zstandard.ZstdDecompressor().decompress(f)
    except zstandard.ZstdError:
        one = None
    try:
        with zstandard.ZstdDecompressor().stream_reader(f) as r:
            stream: bytes | None = r.read()
    except zstandard.ZstdError:
        stream = None
    return {"raw": int(raw), "oneshot": one, "stream": stream}


def gzip_answers(f: bytes) -> dict[str, Any]:
    do = _real_zlib.decompressobj(31)
    try:
        out: bytes | None = do.decompress(f) + do.flush()
    except _real_zlib.error:
        out = None
    return {"stream": out, "eof": bool(do.eof)}


# ---------------------------------------------------------------------------
# recording proxies
# ---------------------------------------------------------------------------
class Trace:
    def __init__(self) -> None:
        self.reads: list[tuple[int, int]] = []  # zstd reader.read(n) -> len
        self.oneshot = 0
        self.decs: list[tuple[int, int, bool, bool]] = []  # zlib decompress(inbuf, n) -> (n, len, tail non-empty, eof)
        self.uncapped_dec = 0
        self.flush: list[int] = []
        self.fed_in_order = True
        self.sentinel_minus1 = False
        self.frame: bytes = b""
        self._pos = 0


TRACE: Trace | None = None


class _RecReader:
    def __init__(self, inner: Any) -> None:
        self._inner = inner

    def __enter__(self) -> "_RecReader":
        self._inner.__enter__()
        return self

    def __exit__(self, *a: Any) -> Any:
        return self._inner.__exit__(*a)

    def read(self, size: int = -1) -> bytes:
        chunk = self._inner.read(size)
        if TRACE is not None:
            TRACE.reads.append((size, len(chunk)))
        return chunk

    def __getattr__(self, name: str) -> Any:
        return getattr(self._inner, name)


_RealZstdDecompressor = zstandard.ZstdDecompressor
_real_get_frame_parameters = zstandard.get_frame_parameters


class _RecZstdDecompressor:
    def __init__(self, *a: Any, **k: Any) -> None:
        self._d = _RealZstdDecompressor(*a, **k)

    def stream_reader(self, *a: Any, **k: Any) -> _RecReader:
        return _RecReader(self._d.stream_reader(*a, **k))

    def decompress(self, *a: Any, **k: Any) -> bytes:
        if TRACE is not None:
            TRACE.oneshot += 1
        return self._d.decompress(*a, **k)

    def __getattr__(self, name: str) -> Any:
        return getattr(self._d, name)


def _rec_get_frame_parameters(data: Any, *a: Any, **k: Any) -> Any:
    p = _real_get_frame_parameters(data, *a, **k)
    if TRACE is not None and TRACE.sentinel_minus1 and p.content_size == UNKNOWN:
        # the spelling older python-zstandard / the cffi backend use for "size not stored"
        return types.SimpleNamespace(content_size=-1, window_size=p.window_size, dict_id=p.dict_id, has_checksum=p.has_checksum)
    return p


class _RecDecompressObj:
    def __init__(self, *a: Any, **k: Any) -> None:
        self._o = _real_zlib.decompressobj(*a, **k)

    @property
    def unconsumed_tail(self) -> bytes:
        return self._o.unconsumed_tail

    @property
    def unused_data(self) -> bytes:
        return self._o.unused_data

    @property
    def eof(self) -> bool:
        return self._o.eof

    def decompress(self, *args: Any, **kw: Any) -> bytes:
        inbuf = args[0]
        out = self._o.decompress(*args, **kw)
        t = TRACE
        if t is not None:
            if inbuf != t.frame[t._pos:]:
                t.fed_in_order = False
            t._pos += len(inbuf) - len(self._o.unconsumed_tail)
            if len(args) >= 2 or "max_length" in kw:
                n = args[1] if len(args) >= 2 else kw["max_length"]
                t.decs.append((int(n), len(out), bool(self._o.unconsumed_tail), bool(self._o.eof)))
                if len(t.decs) > 200000:
                    raise Hang()
            else:
                t.uncapped_dec += 1
        return out

    def flush(self, *a: Any) -> bytes:
        out = self._o.flush(*a)
        if TRACE is not None:
            TRACE.flush.append(len(out))
        return out


@contextlib.contextmanager
def recording() -> Iterator[None]:
    """Route vgi_rpc._codec's use of zstandard / zlib through the recording proxies."""
    from vgi_rpc import _codec

    proxy_zlib = types.SimpleNamespace(**{k: getattr(_real_zlib, k) for k in dir(_real_zlib) if not k.startswith("__")})
    proxy_zlib.decompressobj = _RecDecompressObj
    saved = (_codec.zlib, zstandard.ZstdDecompressor, zstandard.get_frame_parameters)
    _codec.zlib = proxy_zlib  # type: ignore[assignment]
    zstandard.ZstdDecompressor = _RecZstdDecompressor  # type: ignore[misc,assignment]
    zstandard.get_frame_parameters = _rec_get_frame_parameters  # type: ignore[assignment]
    try:
        yield
    finally:
        _codec.zlib, zstandard.ZstdDecompressor, zstandard.get_frame_parameters = saved  # type: ignore[misc,assignment]


class Hang(BaseException):
    pass


def _on_alarm(*_a: Any) -> None:
    raise Hang()


WATCHDOG_S = 20.0


def run_decompress(codec: str, frame: bytes, cap: int | None, *, trace: bool, sentinel_minus1: bool = False) -> tuple[str, bytes | None, str, Trace | None]:
    """-> (class, bytes or None, exception text, trace).  class in ok | limit | error | hang."""
    global TRACE
    from vgi_rpc import _codec

    enc = {"zstd": _codec.Encoding.ZSTD, "gzip": _codec.Encoding.GZIP, "identity": _codec.Encoding.IDENTITY}[codec]
    t: Trace | None = None
    if trace or sentinel_minus1:
        t = Trace()
        t.frame = frame
        t.sentinel_minus1 = sentinel_minus1
    TRACE = t
    old = signal.signal(signal.SIGALRM, _on_alarm)
    signal.setitimer(signal.ITIMER_REAL, WATCHDOG_S)
    try:
        out = _codec.decompress(enc, frame, max_output_size=cap)
        return "ok", out, "", t
    except Hang:
        return "hang", None, f"no return within {WATCHDOG_S} s", t
    except _codec.DecompressionLimitExceeded as e:
        ok_class = isinstance(e, _codec.DecompressionError)
        return ("limit" if ok_class else "limit-not-a-DecompressionError"), None, str(e), t
    except Exception as e:  # noqa: BLE001 - every other escape is one class for the model
        return "error", None, f"{type(e).__name__}: {e}", t
    finally:
        signal.setitimer(signal.ITIMER_REAL, 0)
        signal.signal(signal.SIGALRM, old)
        TRACE = None
