"""C17 interleaving leg: two requests on ONE real Falcon app, request A parked between two bounded decoder
reads while request B is served completely, then A resumes (deterministic baton, no timing).

The scheduling point needs no interposition on the code under test and cannot be bypassed by a cached /
shared decoder object: thread A runs under ``sys.setprofile`` and parks in the profile callback when it is
about to make its k-th C call ``ZstdDecompressionReader.read`` / ``zlib.Decompress.decompress`` (the bounded
reads of the two chunk loops of vgi_rpc/_codec.py).  Only one thread is ever inside a codec library.

Observables per request (kept per thread): HTTP status, the bytes ``_get_request_stream`` hands to the RPC
layer, whether the method ran.  Nothing here decides anything.
"""
from __future__ import annotations

import contextlib
import sys
import threading
from dataclasses import dataclass
from typing import Any, Iterator

import pyarrow as pa

WATCHDOG_S = 60.0

_BOUNDED_READS = {("ZstdDecompressionReader", "read"), ("Decompress", "decompress")}

_delivered: dict[int, list[bytes]] = {}


@dataclass
class Outcome:
    status: int
    refused: bool  # the middlewares answered, _get_request_stream was never reached
    delivered: bytes | None
    rpc_error: bool
    reads: int  # bounded decoder reads this request made
    parked: bool = False
    detail: str = ""

    def verdict(self) -> tuple[Any, ...]:
        return (self.status, self.refused, self.delivered, self.rpc_error)


@contextlib.contextmanager
def spy_delivered() -> Iterator[None]:
    """Record, per thread, what _get_request_stream returns (restored on exit)."""
    import vgi_rpc.http.server._resources as resources

    orig = resources._get_request_stream

    def spy(req: Any) -> Any:
        s = orig(req)
        b = s.read()
        _delivered.setdefault(threading.get_ident(), []).append(bytes(b))
        return pa.BufferReader(b)

    resources._get_request_stream = spy  # type: ignore[assignment]
    try:
        yield
    finally:
        resources._get_request_stream = orig


def _serve(app: Any, env: dict[str, Any], counter: list[int] | None = None) -> Outcome:
    """Run one WSGI request on the calling thread."""
    me = threading.get_ident()
    _delivered[me] = []
    st: dict[str, Any] = {}

    def start_response(status: str, headers: list[tuple[str, str]], exc_info: Any = None) -> Any:
        st["status"] = int(status.split()[0])
        st["headers"] = {k.lower(): v for k, v in headers}
        return lambda b: None

    detail = ""
    try:
        it = app(env, start_response)
        try:
            for _ in it:
                pass
        finally:
            close = getattr(it, "close", None)
            if close:
                close()
    except Exception as e:  # noqa: BLE001 - an escaped exception is an observable
        st.setdefault("status", -1)
        detail = f"{type(e).__name__}: {e}"[:200]
    got = _delivered.pop(me, [])
    h = st.get("headers", {})
    return Outcome(st.get("status", -1), not got, got[0] if got else None, h.get("x-vgi-rpc-error") == "true", counter[0] if counter else 0, detail=detail)


def _is_bounded_read(arg: Any) -> bool:
    self_ = getattr(arg, "__self__", None)
    return self_ is not None and (type(self_).__name__, getattr(arg, "__name__", "")) in _BOUNDED_READS


def serve_alone(app: Any, env: dict[str, Any]) -> Outcome:
    """Serve the request on a fresh thread without parking, counting its bounded reads."""
    box: list[Outcome] = []
    counter = [0]

    def prof(frame: Any, event: str, arg: Any) -> None:
        if event == "c_call" and _is_bounded_read(arg):
            counter[0] += 1

    def body() -> None:
        sys.setprofile(prof)
        try:
            box.append(_serve(app, env, counter))
        finally:
            sys.setprofile(None)

    t = threading.Thread(target=body, daemon=True)
    t.start()
    t.join(WATCHDOG_S)
    if t.is_alive() or not box:
        return Outcome(-3, True, None, False, counter[0], detail="watchdog: request did not finish")
    return box[0]


def serve_interleaved(app: Any, env_a: dict[str, Any], env_b: dict[str, Any], park_before_read: int) -> tuple[Outcome, Outcome]:
    """A runs on its own thread and parks just before its ``park_before_read``-th (0-based) bounded decoder read;
    B is then served completely on the calling thread; A resumes.  Returns (outcome A, outcome B)."""
    parked = threading.Event()
    resume = threading.Event()
    done = threading.Event()
    box: list[Outcome] = []
    counter = [0]
    state = {"parked": False}

    def prof(frame: Any, event: str, arg: Any) -> None:
        if event == "c_call" and _is_bounded_read(arg):
            if counter[0] == park_before_read and not state["parked"]:
                state["parked"] = True
                parked.set()
                resume.wait(WATCHDOG_S)
            counter[0] += 1

    def body() -> None:
        sys.setprofile(prof)
        try:
            box.append(_serve(app, env_a, counter))
        finally:
            sys.setprofile(None)
            done.set()
            parked.set()  # A finished without reaching the parking point

    t = threading.Thread(target=body, daemon=True)
    t.start()
    if not parked.wait(WATCHDOG_S):
        resume.set()
        return Outcome(-3, True, None, False, counter[0], detail="watchdog: A neither parked nor finished"), Outcome(-3, True, None, False, 0)
    out_b = _serve(app, env_b)
    resume.set()
    if not done.wait(WATCHDOG_S) or not box:
        return Outcome(-3, True, None, False, counter[0], parked=state["parked"], detail="watchdog: A did not finish after resuming"), out_b
    out_a = box[0]
    out_a.parked = state["parked"]
    return out_a, out_b
