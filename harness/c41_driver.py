"""C41 driver: the REAL threaded socket servers (serve_unix / serve_tcp, threaded=True, max_connections) under
client-side schedule control, with an implementation-side gauge of the connections inside ``RpcServer.serve``.

Service = the generic interpreter service of harness/interp.py (programs as data).  Each client connection runs a
*connection script* = a list of calls

    ["unary", pid] | ["iterate", method, pid, k, after] | ["exchange", method, pid, n, after]

(after in stop|close|cancel|abandon; abandon only as the last call of a connection) one *client step* at a time:

    idle, next call unary            -> the whole unary call                       (1 step)
    idle, next call a stream         -> open the session (reads the header stream of a *_h method)   (1 step)
    stream open, reads left          -> one next() / exchange()                    (1 step; ends the call when the
                                        stream is exhausted or raises)
    stream open, no reads left       -> close() / cancel() / nothing (abandon)     (1 step, ends the call)
    no call left                     -> disconnect                                 (1 step)

These are exactly the steps of the Coq machine ``cstep`` (coq/model/M_ConnIso.v), so a *schedule* (list of connection
ids) means the same thing on both sides.  Server-side steps (the connection thread acquiring a slot of the
max_connections semaphore and entering ``serve``; ``serve`` returning) happen on their own in the real server; the
controller waits for them and records them where they occurred, which yields the *observed linearisation* -- the
schedule the model is then run on.

Gauge: ``GaugedServer.serve`` (a subclass wrapper, no source change) records enter / exit of ``serve`` per connection,
identified by the peer address of the accepted socket (clients bind their end to a known name / port).
"""
from __future__ import annotations

import contextlib
import os
import queue
import socket
import threading
import time
from typing import Any

from harness import interp as I
from vgi_rpc.rpc import RpcConnection, RpcError, RpcServer
from vgi_rpc.rpc._transport import TcpTransport, UnixTransport, serve_tcp, serve_unix

STEP_TIMEOUT = float(os.environ.get("VERIF_C41_STEP_TIMEOUT", "90"))


class Hang(Exception):
    """A wait of the controller timed out (observable, not a harness hang)."""


class EarlyExit(Exception):
    """serve() of a connection returned although its client is still connected and has not finished its script."""


class Gauge:
    """Connections currently inside RpcServer.serve, with the order of enter / exit events."""

    def __init__(self) -> None:
        self.cond = threading.Condition()
        self.active: set[Any] = set()
        self.hw = 0
        self.events: list[tuple[str, Any]] = []
        self.unknown_peers = 0
        self.raise_keys: set[Any] = set()  # fault injection: serve() of these connections raises when it is done
        # first-bind tracing (RpcServer._notify_transport / on_serve_start), per handler thread
        self.thread_key: dict[int, Any] = {}  # handler thread ident -> connection key
        self.lock_waits: set[int] = set()  # threads that reached `with self._transport_lock`
        self.notify_done: set[int] = set()  # threads whose _notify_transport call returned
        self.hooks: list[dict[str, Any]] = []  # on_serve_start invocations: {ident, gate, released, done}

    def enter(self, key: Any) -> None:
        with self.cond:
            self.active.add(key)
            self.hw = max(self.hw, len(self.active))
            self.events.append(("enter", key))
            self.cond.notify_all()

    def exit(self, key: Any) -> None:
        with self.cond:
            self.active.discard(key)
            self.events.append(("exit", key))
            self.cond.notify_all()

    def wait_for(self, pred: Any, timeout: float = STEP_TIMEOUT) -> bool:
        with self.cond:
            return self.cond.wait_for(pred, timeout)

    def note(self, what: str, ident: int) -> None:
        with self.cond:
            getattr(self, what).add(ident)
            self.cond.notify_all()

    def ident_of(self, key: Any) -> int | None:
        for t, k in self.thread_key.items():
            if k == key:
                return t
        return None


class TracedLock:
    """Stands in for RpcServer._transport_lock: records which handler threads reached the lock (trace point only)."""

    def __init__(self, gauge: Gauge) -> None:
        self._lock = threading.Lock()
        self._gauge = gauge

    def acquire(self, *a: Any, **k: Any) -> bool:
        self._gauge.note("lock_waits", threading.get_ident())
        return self._lock.acquire(*a, **k)

    def release(self) -> None:
        self._lock.release()

    def locked(self) -> bool:
        return self._lock.locked()

    def __enter__(self) -> bool:
        return self.acquire()

    def __exit__(self, *exc: Any) -> None:
        self.release()


class C41Impl(I.InterpImpl):
    """The interpreter service plus worker state that the documented one-shot ``on_serve_start`` hook (re)initialises.

    Unary programs carrying ``"kv": ["put", key, int] | ["get", key]`` write / read the worker-local store
    (put answers 0, get answers the stored int or -1); every other program is the plain interpreter.
    With ``park`` set the hook is a scheduling point: it announces itself on the gauge and waits for the controller.
    """

    def __init__(self, gauge: Gauge, park: bool) -> None:
        self.gauge, self.park = gauge, park
        self.store: dict[str, int] | None = None
        self.starts = 0
        self._lock = threading.Lock()

    def on_serve_start(self, kind: Any) -> None:
        g = self.gauge
        h = {"ident": threading.get_ident(), "gate": threading.Event(), "released": False, "done": False}
        with g.cond:
            g.hooks.append(h)
            g.cond.notify_all()
        if self.park:
            h["gate"].wait(STEP_TIMEOUT)
        with self._lock:
            self.store = {}  # fresh worker-local store
            self.starts += 1
        with g.cond:
            h["done"] = True
            g.cond.notify_all()

    def unary(self, pid: int, ctx: Any) -> int:  # type: ignore[override]
        prog = I.lookup(pid)
        kv = prog.get("kv")
        if kv is None:
            return super().unary(pid, ctx)
        I._emit_logs(prog.get("logs") or [], ctx.client_log)
        with self._lock:
            assert self.store is not None, "worker store used before on_serve_start"
            if kv[0] == "put":
                self.store[kv[1]] = int(kv[2])
                return 0
            return int(self.store.get(kv[1], -1))


def _peer_key(transport: Any) -> Any:
    try:
        name = transport._sock.getpeername()
    except OSError:
        return None
    if isinstance(name, bytes):
        name = name.decode()
    if isinstance(name, tuple):
        return ("tcp", name[1])
    return ("unix", name)


class GaugedServer(RpcServer):
    """RpcServer whose ``serve`` reports connection start / end to a gauge (trace points, no behaviour change)."""

    gauge: Gauge

    def serve(self, transport: Any) -> None:  # type: ignore[override]
        key = _peer_key(transport)
        g = self.gauge
        if key is None:
            g.unknown_peers += 1
            key = ("anon", id(transport))
        with g.cond:
            g.thread_key[threading.get_ident()] = key
        g.enter(key)
        try:
            super().serve(transport)
            if key in g.raise_keys:
                # injected fault: an exception escaping serve() -- what _handle's except / finally is there for
                raise RuntimeError("c41: injected failure of serve()")
        finally:
            g.exit(key)


    def _notify_transport(self, kind: Any, capabilities: Any) -> None:
        try:
            super()._notify_transport(kind, capabilities)
        finally:
            self.gauge.note("notify_done", threading.get_ident())


_HANDLE_SEQ = [0]


class ServerHandle:
    """One threaded server (kind, max_connections).  Long-lived ones are reused by all cases of a configuration;
    ``park_hook`` ones are fresh servers for the first-bind scenarios (on_serve_start is a scheduling point)."""

    def __init__(self, kind: str, maxc: int | None, tmpdir: str, park_hook: bool = False) -> None:
        self.kind, self.maxc, self.tmpdir, self.park_hook = kind, maxc, tmpdir, park_hook
        self.gauge = Gauge()
        self.impl = C41Impl(self.gauge, park_hook)
        self.server = GaugedServer(I.Interp, self.impl)
        self.server.gauge = self.gauge
        self.server._transport_lock = TracedLock(self.gauge)  # type: ignore[assignment]
        _HANDLE_SEQ[0] += 1
        seq = _HANDLE_SEQ[0]
        self.addr: Any = None
        self.died: list[BaseException] = []
        bound = threading.Event()

        def main() -> None:
            try:
                if kind == "unix":
                    path = os.path.join(tmpdir, f"srv-{maxc}-{seq}.sock")
                    serve_unix(self.server, path, threaded=True, max_connections=maxc, on_bound=lambda p: (setattr(self, "addr", p), bound.set()))
                else:
                    serve_tcp(self.server, "127.0.0.1", 0, threaded=True, max_connections=maxc, on_bound=lambda h, p: (setattr(self, "addr", (h, p)), bound.set()))
            except BaseException as e:  # noqa: BLE001 - the acceptor dying is an observation
                self.died.append(e)
                bound.set()

        self.thread = threading.Thread(target=main, daemon=True, name=f"c41-acceptor-{kind}-{maxc}")
        self.thread.start()
        if not bound.wait(STEP_TIMEOUT) or self.addr is None:
            raise RuntimeError(f"server {kind}/{maxc} did not bind: {self.died}")

    def connect(self, name: str, seg: Any = None) -> tuple[Any, Any]:
        """Connect a client whose end is bound to a known address; returns (peer key, transport).

        With ``seg`` (a client-owned ShmSegment) the client side is a ShmPipeTransport: every request advertises the
        segment (vgi_rpc.shm_segment_name/size) and batches travel through it -- the server's dynamic attach path."""
        key, tr = self._connect(name)
        if seg is not None:
            from vgi_rpc.rpc import ShmPipeTransport

            tr = ShmPipeTransport(tr, seg)
        return key, tr

    def _connect(self, name: str) -> tuple[Any, Any]:
        if self.kind == "unix":
            s = socket.socket(socket.AF_UNIX, socket.SOCK_STREAM)
            path = os.path.join(self.tmpdir, name)
            with contextlib.suppress(FileNotFoundError):
                os.unlink(path)
            s.bind(path)
            s.connect(self.addr)
            return ("unix", path), UnixTransport(s)
        s = socket.socket(socket.AF_INET, socket.SOCK_STREAM)
        s.bind(("127.0.0.1", 0))
        key = ("tcp", s.getsockname()[1])
        s.connect(self.addr)
        return key, TcpTransport(s)


# --------------------------------------------------------------------------- one client connection
class Client:
    """A client connection stepping through its script; every step runs on the client's own thread."""

    def __init__(self, cid: int, calls: list[list[Any]], is_crash: Any = None) -> None:
        self.cid, self.calls = cid, calls
        self.is_crash = is_crash or (lambda call: False)
        self.opened_crash = False  # the step just taken sent a request that makes serve() raise
        self.idx = 0
        self.sess: Any = None  # open stream: dict(it, left, after, kind)
        self.cur: list[list[Any]] = []  # events of the call in progress
        self.traces: list[list[list[Any]]] = []
        self.poisoned = False
        self.key: Any = None
        self.transport: Any = None
        self.proxy: Any = None
        self.rec = I.Recorder("record")
        self.rec.events = self.cur
        self.inbox: queue.Queue[str] = queue.Queue()
        self.done_ev = threading.Event()
        self.pending = False
        self.steps_done = 0
        self.thread = threading.Thread(target=self._loop, daemon=True, name=f"c41-client-{cid}")
        self.thread.start()

    # script position -------------------------------------------------------
    def finished(self) -> bool:
        return self.sess is None and (self.idx >= len(self.calls) or self.poisoned)

    def _end_call(self) -> None:
        self.traces.append(I.cut(list(self.cur)))
        if any(e[0] in ("blocked", "conn_lost", "client_exc", "cb_raised") for e in self.traces[-1]):
            self.poisoned = True
        self.cur = []
        self.rec.events = self.cur
        self.sess = None
        self.idx += 1

    def _guard(self, fn: Any) -> bool:
        """Run one client action; True = the call goes on, False = it ended with an error."""
        try:
            fn()
            return True
        except RpcError as e:
            if e.error_type == "TransportError":
                # the server side of the connection is gone (EOF / EPIPE): no more bytes will ever come
                self.cur.append(["conn_lost"])
            else:
                self.cur.append(["error", e.error_type, e.error_message])
        except StopIteration:
            self.cur.append(["done"])
        except BaseException as e:  # noqa: BLE001 - anything else escaping the client API is an observation
            self.cur.append(["client_exc", type(e).__name__, str(e)[:200]])
        return False

    def _step(self) -> None:
        ev = self.cur
        self.opened_crash = False
        if self.sess is None:
            call = self.calls[self.idx]
            if call[0] == "unary":
                self._guard(lambda: ev.append(["result", self.proxy.unary(pid=call[1])]))
                self._end_call()
                return
            op, method, pid, k, after = call[:5]
            box: dict[str, Any] = {}
            self.opened_crash = bool(self.is_crash(call))

            def open_() -> None:
                s = getattr(self.proxy, method)(pid=pid)
                box["s"] = s
                if I.METHOD_HEADER[method]:
                    ev.append(["header", getattr(s.header, "h", None)])

            if not self._guard(open_):
                self._end_call()
                return
            s = box["s"]
            self.sess = {"s": s, "it": iter(s) if op == "iterate" else None, "left": None if after == "stop" else k, "after": after, "j": 0}
            return
        z = self.sess
        if z["left"] == 0:
            if z["after"] == "close":
                self._guard(z["s"].close)
            elif z["after"] == "cancel":
                self._guard(z["s"].cancel)
            self._end_call()
            return
        if z["it"] is not None:
            ok = self._guard(lambda: self._take(next(z["it"])))
        else:
            ok = self._guard(lambda: self._take(z["s"].exchange(I.input_batch(z["j"]))))
            z["j"] += 1
        if not ok:
            self._end_call()
            return
        if z["left"] is not None:
            z["left"] -= 1

    def _take(self, ab: Any) -> None:
        self.cur.append(I._batch_event(ab))
        rel = getattr(ab, "release", None)  # a batch that travelled through shared memory gives its region back
        if callable(rel):
            rel()

    def _loop(self) -> None:
        while True:
            cmd = self.inbox.get()
            if cmd == "quit":
                return
            try:
                self._step()
            except BaseException as e:  # noqa: BLE001 - harness bug guard: never lose the completion signal
                self.cur.append(["client_exc", "harness:" + type(e).__name__, str(e)[:200]])
                self.poisoned = True
            self.steps_done += 1
            self.done_ev.set()

    # controller side -------------------------------------------------------
    def release(self) -> None:
        self.done_ev.clear()
        self.inbox.put("step")

    def wait(self, timeout: float = STEP_TIMEOUT) -> bool:
        return self.done_ev.wait(timeout)

    def disconnect(self) -> None:
        with contextlib.suppress(Exception):
            self.transport.close()

    def quit(self) -> None:
        self.inbox.put("quit")


# --------------------------------------------------------------------------- the controller
def run_case(handle: ServerHandle, scripts: list[list[list[Any]]], rng: Any, tag: str, presend: bool = True,
             fixed_schedule: list[int] | None = None, is_crash: Any = None, serve_raises: tuple[int, ...] = (),
             arrivals_during_first_bind: int = 1, shm_segment: Any = None) -> dict[str, Any]:
    """Run the connection scripts concurrently under a seeded client-side schedule.

    Returns {"traces": per connection list of per-call traces, "schedule": observed linearisation (list of connection
    ids, one per model step), "served": connections inside serve after each of those steps, "hw": high-water mark of
    the gauge, "phases": final phase per connection, "anomalies": [...]}.
    """
    g = handle.gauge
    maxc = handle.maxc
    n = len(scripts)
    anomalies: list[str] = []
    probes: dict[int, Any] = {}
    if not g.wait_for(lambda: not g.active, STEP_TIMEOUT):
        anomalies.append("gauge-not-idle-at-case-start")
    with g.cond:
        g.hw = 0
        g.events.clear()
    clients = [Client(i, scripts[i], is_crash) for i in range(n)]
    phase = ["fresh"] * n
    schedule: list[int] = []
    served: list[int] = []
    stutters = 0
    fixed = list(fixed_schedule) if fixed_schedule is not None else None
    hook_seen_at = -1
    arrivals = max(1, min(n, arrivals_during_first_bind))

    def entered(c: Client) -> bool:
        return ("enter", c.key) in g.events

    def exited(c: Client) -> bool:
        return ("exit", c.key) in g.events

    def log(i: int) -> None:
        # served is derived from the observed enter / exit events (phase bookkeeping); the gauge's own high-water
        # mark is reported separately and must agree with it
        schedule.append(i)
        served.append(sum(1 for p in phase if p == "serving"))
        with g.cond:
            gone = [j for j in range(n) if phase[j] == "serving" and ("exit", clients[j].key) in g.events]
        if gone:
            raise EarlyExit(f"connection {gone[0]}: serve() returned while its client was still connected (after {clients[gone[0]].steps_done} client steps)")

    def full() -> bool:
        with g.cond:
            return maxc is not None and len(g.active) >= maxc

    def await_enter(i: int) -> None:
        c = clients[i]
        if not g.wait_for(lambda: entered(c)):
            raise Hang(f"connection {i}: a slot is free but serve() was not entered")
        phase[i] = "serving"
        log(i)
        if handle.park_hook:
            settle()
        if c.pending and (not handle.park_hook or passed_notify(i)):
            if not c.wait():
                raise Hang(f"connection {i}: request sent while queued was not answered after the connection got its slot")
            c.pending = False
            after_step(i)

    # ---- first-bind scheduling (fresh servers with park_hook): on_serve_start is a scheduling point
    def parked() -> list[dict[str, Any]]:
        with g.cond:
            return [h for h in g.hooks if not h["released"] and not h["done"]]

    def passed_notify(j: int) -> bool:
        """The handler thread of connection j is past RpcServer._notify_transport (it can answer requests)."""
        with g.cond:
            t = g.ident_of(clients[j].key)
            return t is not None and t in g.notify_done

    def settled(j: int) -> bool:
        with g.cond:
            t = g.ident_of(clients[j].key)
            if t is None:
                return False
            if t in g.notify_done:
                return True
            open_hooks = [h for h in g.hooks if not h["done"]]
            if any(h["ident"] == t for h in open_hooks):
                return True  # inside the hook
            return t in g.lock_waits and bool(open_hooks)  # waiting for the bind lock held by the hook's thread

    def settle() -> None:
        for j in range(n):
            if phase[j] == "serving" and not g.wait_for(lambda j=j: settled(j)):
                raise Hang(f"connection {j}: its handler neither finished binding the transport nor waits for it")

    def release_hooks(hs: list[dict[str, Any]]) -> None:
        for h in hs:
            h["released"] = True
            h["gate"].set()
        for h in hs:
            if not g.wait_for(lambda h=h: h["done"]):
                raise Hang("on_serve_start did not return after it was released")
        settle()

    def after_step(i: int) -> None:
        """Log a client step of a served connection; a step that made serve() raise ends the server side at once."""
        c = clients[i]
        if c.opened_crash and phase[i] == "serving":
            if not g.wait_for(lambda: exited(c)):
                raise Hang(f"connection {i}: serve() was expected to raise but did not return")
            phase[i] = "zombie"
        log(i)

    def hand_over() -> None:
        """A slot was released: the real semaphore picks one of the queued connections."""
        while True:
            queued = [j for j in range(n) if phase[j] == "queued"]
            if not queued:
                return
            with g.cond:
                order = [k for (e, k) in g.events if e == "enter"]
            firsts = sorted((j for j in queued if clients[j].key in order), key=lambda j: order.index(clients[j].key))
            if firsts:
                await_enter(firsts[0])
                continue
            if full():
                return
            # a slot is free (or being released right now) and nobody took it yet
            if not g.wait_for(lambda: any(entered(clients[j]) for j in queued)):
                raise Hang("a slot is free and connections are queued, but none entered serve()")

    try:
        while any(p != "done" for p in phase):
            live = [i for i in range(n) if phase[i] != "done"]
            i = -1
            if handle.park_hook:
                settle()
                ph_ = parked()
                if ph_:
                    blocked = {j for j in range(n) if phase[j] == "serving" and not passed_notify(j)}
                    if not any(h["released"] for h in g.hooks):
                        # the very first bind: let `arrivals` connections arrive while the hook is still running
                        fresh = [j for j in live if phase[j] == "fresh"]
                        if sum(1 for p in phase if p != "fresh") >= arrivals or not fresh:
                            release_hooks(ph_)
                            continue
                        i = rng.choice(fresh)
                    else:
                        # the hook runs AGAIN while connections are being served: let one of them take a step, then let it finish
                        if hook_seen_at < 0:
                            hook_seen_at = len(schedule)
                        pick = [j for j in live if phase[j] in ("serving", "zombie") and j not in blocked and not clients[j].pending]
                        pick = pick or [j for j in live if phase[j] == "fresh"]
                        if len(schedule) > hook_seen_at or not pick:
                            release_hooks(ph_)
                            hook_seen_at = -1
                            continue
                        i = rng.choice(pick)
                else:
                    # a request sent while the handler was still binding the transport is answered now
                    for j in range(n):
                        if phase[j] == "serving" and clients[j].pending and passed_notify(j):
                            if not clients[j].wait():
                                raise Hang(f"connection {j}: request sent during the bind was not answered")
                            clients[j].pending = False
                            after_step(j)
            if i >= 0:
                pass
            elif fixed:
                i = fixed.pop(0)
                if i >= n or phase[i] == "done":
                    continue
            else:
                movable = [i for i in live if phase[i] != "queued"]
                if movable and (stutters >= 4 * n or rng.random() < 0.8 or len(movable) == len(live)):
                    i = rng.choice(movable)
                else:
                    i = rng.choice(live)
            c = clients[i]
            if phase[i] == "fresh":
                c.key, c.transport = handle.connect(f"{tag}-c{i}.sock", shm_segment)
                if i in serve_raises:
                    g.raise_keys.add(c.key)
                c.proxy = RpcConnection(I.Interp, c.transport, on_log=c.rec.on_log).__enter__()
                phase[i] = "queued"
                log(i)
                hand_over()
                continue
            if phase[i] == "queued":
                # all slots are taken: the connection waits.  Optionally its client already sends the next request.
                hand_over()
                if phase[i] != "queued":
                    continue
                stutters += 1
                if stutters > 200 * n:
                    raise Hang(f"livelock: phases {phase}, gauge {sorted(map(str, g.active))}, events {g.events}, keys {[x.key for x in clients]}, fin {[x.finished() for x in clients]} idx {[x.idx for x in clients]}")
                log(i)
                if presend and not c.pending and not c.finished() and rng.random() < 0.5:
                    c.pending = True
                    c.release()
                continue
            # serving, or zombie (serve() of this connection raised earlier: the client runs on alone)
            if c.finished():
                c.disconnect()
                if not g.wait_for(lambda: exited(c)):
                    raise Hang(f"connection {i}: client disconnected but serve() did not return")
                phase[i] = "done"
                log(i)
                # the slot is released right after serve() returns; give it to a queued connection
                hand_over()
                continue
            c.release()
            if not c.wait():
                raise Hang(f"connection {i}: client step {c.steps_done} did not return although the connection is being served")
            after_step(i)
            hand_over()
    except EarlyExit as e:
        anomalies.append(f"serve-ended-before-client-disconnected: {e}")
    except Hang as e:
        anomalies.append(f"hang: {e}")
        # what do the clients of the unfinished connections see now?  (a connection whose accepted socket was lost or
        # handed to the wrong handler answers with EOF / reset instead of its results)
        for c in clients:
            if c.transport is None or c.finished():
                continue
            if not c.pending:
                c.release()
            if c.wait(min(STEP_TIMEOUT, 10.0)):
                c.pending = False
                probes[c.cid] = [list(t) for t in c.traces] + ([list(c.cur)] if c.cur else [])
            else:
                probes[c.cid] = "no answer"
    finally:
        for h_ in list(g.hooks):
            h_["released"] = True
            h_["gate"].set()
        for c in clients:
            c.quit()
            if c.transport is not None:
                c.disconnect()
            if c.key is not None and c.key[0] == "unix":
                with contextlib.suppress(OSError):
                    os.unlink(c.key[1])
    for c in clients:
        g.raise_keys.discard(c.key)
    # every connection that entered serve must leave it once its client is gone
    if not g.wait_for(lambda: not g.active, STEP_TIMEOUT):
        anomalies.append("connections-still-inside-serve-after-all-clients-disconnected")
    with g.cond:
        hw = g.hw
        events = list(g.events)
    keys = {c.key: c.cid for c in clients if c.key is not None}
    gl = [(e, keys.get(k, -1)) for e, k in events]
    if g.unknown_peers:
        anomalies.append("peer-address-unavailable")
    return {
        "traces": [c.traces for c in clients],
        "partial": [list(c.cur) for c in clients],
        "schedule": schedule,
        "served": served,
        "hw": hw,
        "phases": phase,
        "gauge_events": gl,
        "probes": probes,
        "hook_runs": handle.impl.starts,
        "anomalies": anomalies,
    }
