"""Subprocess worker for C04: the interpreter service under the versioned protocol (stdin/stdout pipes)."""
from __future__ import annotations


def main() -> None:
    from vgi_rpc.rpc import RpcServer, run_server

    from harness.c04_conn import InterpV
    from harness.interp import InterpImpl

    run_server(RpcServer(InterpV, InterpImpl()))


if __name__ == "__main__":
    main()
