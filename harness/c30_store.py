"""C30 harness: the repo's own fake object store (vgi_rpc.conformance.fake_storage) served over loopback HTTP,
wrapped by a *corruption injector*.

The wrapper is a WSGI layer in front of ``fake_storage.make_app``.  For every blob id a script may be installed:
a list of variants, one per fetch attempt (fetch_url probes with HEAD and then GETs; a HEAD opens an attempt and the GET that
follows sees the same variant).  A variant is ``None`` (the object does not exist: 404) or ``(body_bytes, content_encoding | None)``.
The last variant repeats.  Without a script the store serves whatever was PUT (faithful storage).

Everything the code under test does goes through the real ``FakeStorageBackend.upload`` (httpx2 POST /alloc + PUT)
and the real ``vgi_rpc.external_fetch.fetch_url`` (aiohttp HEAD + GET + content decoding).
"""
from __future__ import annotations

import threading
from typing import Any, Callable, Iterable
from wsgiref.simple_server import make_server

from vgi_rpc.conformance import fake_storage as fs

Variant = tuple[bytes, str | None] | None


class Store:
    """A running fake-storage service with storage-side fault injection."""

    def __init__(self) -> None:
        self.blobs = fs._BlobStore()
        self.scripts: dict[str, list[Variant]] = {}
        self.gets: dict[str, int] = {}
        self.heads: dict[str, int] = {}
        self.last_get: dict[str, Variant] = {}  # what the most recent GET of a blob was answered with
        self.order: list[str] = []  # blob ids in order of first PUT
        self.mutator: Callable[[bytes, str | None], Variant] | None = None
        self.orig: dict[str, Variant] = {}
        self._lock = threading.Lock()
        placeholder: Any = lambda environ, start_response: [b""]  # noqa: E731
        self._server = make_server("127.0.0.1", 0, placeholder, handler_class=fs._SilentHandler)
        self.base_url = f"http://127.0.0.1:{self._server.server_address[1]}"
        inner = fs.make_app(self.base_url, self.blobs)
        self._server.set_app(self._wrap(inner))
        self._thread = threading.Thread(target=self._server.serve_forever, name="c30-fake-storage", daemon=True)
        self._thread.start()
        self.backend = fs.FakeStorageBackend(self.base_url)

    # -- fault injection -------------------------------------------------------
    def _wrap(self, inner: Callable[..., Iterable[bytes]]) -> Callable[..., Iterable[bytes]]:
        def app(environ: dict[str, Any], start_response: Any) -> Iterable[bytes]:
            method = str(environ["REQUEST_METHOD"]).upper()
            path = str(environ["PATH_INFO"])
            blob_id = None
            for prefix in ("/download/", "/blob/"):
                if path.startswith(prefix):
                    blob_id = path[len(prefix):]
            if blob_id is not None and method in ("GET", "HEAD"):
                with self._lock:
                    script = self.scripts.get(blob_id)
                    if method == "HEAD":
                        # fetch_url probes with HEAD before every GET (non-presigned URL): a HEAD opens an attempt
                        self.heads[blob_id] = self.heads.get(blob_id, 0) + 1
                    if script is None and self.mutator is not None and method == "HEAD":
                        # storage-side corruption of everything that is fetched (end-to-end scenarios)
                        if blob_id not in self.orig:
                            self.orig[blob_id] = self.blobs.get(blob_id)
                        v0 = self.orig[blob_id]
                        if v0 is not None:
                            v1 = self.mutator(v0[0], v0[1])
                            with self.blobs._lock:
                                if v1 is None:
                                    self.blobs._blobs.pop(blob_id, None)
                                else:
                                    self.blobs._blobs[blob_id] = (v1[0], v1[1])
                    if script is not None:
                        k = min(max(self.heads.get(blob_id, 1) - 1, 0), len(script) - 1)
                        v = script[k]
                        with self.blobs._lock:
                            if v is None:
                                self.blobs._blobs.pop(blob_id, None)
                            else:
                                self.blobs._blobs[blob_id] = (v[0], v[1])
                    if method == "GET":
                        self.gets[blob_id] = self.gets.get(blob_id, 0) + 1
                        self.last_get[blob_id] = self.blobs.get(blob_id)
            if method == "PUT" and path.startswith("/upload/"):
                with self._lock:
                    bid = path[len("/upload/"):]
                    if bid not in self.order:
                        self.order.append(bid)
            return inner(environ, start_response)

        return app

    def script(self, blob_id: str, variants: list[Variant]) -> None:
        with self._lock:
            self.scripts[blob_id] = list(variants)
            self.gets[blob_id] = 0
            self.heads[blob_id] = 0
            self.last_get.pop(blob_id, None)

    def clear_scripts(self) -> None:
        with self._lock:
            self.scripts.clear()
            self.gets.clear()
            self.heads.clear()
            self.last_get.clear()

    # -- direct access -----------------------------------------------------------
    def put(self, body: bytes, enc: str | None = None) -> str:
        """Storage-side creation of an object (no client involved); returns its download URL."""
        bid = self.blobs.allocate()
        self.blobs.put(bid, body, enc)
        with self._lock:
            self.order.append(bid)
        return f"{self.base_url}/download/{bid}"

    def get(self, url_or_id: str) -> Variant:
        return self.blobs.get(self.blob_id(url_or_id))

    @staticmethod
    def blob_id(url_or_id: str) -> str:
        return url_or_id.rsplit("/", 1)[-1]

    def object_count(self) -> int:
        return len(self.blobs._blobs)

    def close(self) -> None:
        self._server.shutdown()
        self._server.server_close()
        self._thread.join(timeout=5)
