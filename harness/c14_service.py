"""C14 driver: three exchange-stream methods behind several REAL Falcon apps that share one token key, each app with
its own call-state cache, a header-driven authenticator and ONE logical clock for the token layer and the cache.

Everything is module level because the HTTP app resolves the type hints of the service methods.

  ex(a, label)  cursor ExState, call state ExCall(label)         (declares call-state type ExCall)
  ey(a, label)  cursor EyState, no call state                    (declares none)
  ez(a, label)  cursor EzState, call state ExCall(label)         (declares ExCall too)
  ew(a, label)  cursor EwState, call state WCall(label)          (declares WCall; a WCall is FALSY but not None:
                                                                  it defines __len__ == 0, like a projection wrapper
                                                                  with an empty column list)
The three cursor classes have the same fields, so a cursor of one deserializes at the endpoint of another: what
differs between the endpoints is only what the cache-miss path checks (the declared call-state type).
"""
from __future__ import annotations

import base64
from dataclasses import dataclass
from typing import Any, ClassVar, Protocol

import pyarrow as pa

from vgi_rpc.rpc import AnnotatedBatch, AuthContext, CallContext, OutputCollector, RpcServer, Stream, StreamState
from vgi_rpc.utils import ArrowSerializableDataclass

ARROW_CT = "application/vnd.apache.arrow.stream"
OUT_SCHEMA = pa.schema([("y", pa.int64()), ("x", pa.int64()), ("lab", pa.int64())])
IN_SCHEMA = pa.schema([("x", pa.int64())])
METHODS = ["ex", "ey", "ez", "ew"]
CALL_TYPES = {"ExCall": 1, "WCall": 2}


@dataclass(frozen=True)
class ExCall(ArrowSerializableDataclass):
    """Immutable per-stream call state (travels in the call token, or sits in the cache)."""

    label: int = 0


@dataclass(frozen=True)
class WCall(ArrowSerializableDataclass):
    """A call state whose truth value is False although it is not None."""

    label: int = 0

    def __len__(self) -> int:
        return 0


class _Base(StreamState):
    n: int

    def bind_call_state(self, call_state: Any) -> None:
        object.__setattr__(self, "_call", call_state)

    def process(self, input: AnnotatedBatch, out: OutputCollector, ctx: CallContext) -> None:
        self.n += 1
        call = getattr(self, "_call", None)
        x = input.batch.column("x")[0].as_py()
        out.emit_pydict({"y": [self.n], "x": [x], "lab": [0 if call is None else call.label]})


@dataclass
class ExState(_Base):
    CALL_STATE_TYPE: ClassVar[type[ArrowSerializableDataclass] | None] = ExCall
    n: int = 0


@dataclass
class EyState(_Base):
    n: int = 0


@dataclass
class EzState(_Base):
    CALL_STATE_TYPE: ClassVar[type[ArrowSerializableDataclass] | None] = ExCall
    n: int = 0


@dataclass
class EwState(_Base):
    CALL_STATE_TYPE: ClassVar[type[ArrowSerializableDataclass] | None] = WCall
    n: int = 0


class C14Protocol(Protocol):
    def ex(self, a: int, label: int) -> Stream[ExState]: ...
    def ey(self, a: int, label: int) -> Stream[EyState]: ...
    def ez(self, a: int, label: int) -> Stream[EzState]: ...
    def ew(self, a: int, label: int) -> Stream[EwState]: ...


class C14Impl:
    def ex(self, a: int, label: int) -> Stream[ExState]:
        if a == 999:
            raise ValueError("init refused")
        return Stream(output_schema=OUT_SCHEMA, state=ExState(n=a), input_schema=IN_SCHEMA, call_state=ExCall(label=label))

    def ey(self, a: int, label: int) -> Stream[EyState]:
        if a == 999:
            raise ValueError("init refused")
        return Stream(output_schema=OUT_SCHEMA, state=EyState(n=a), input_schema=IN_SCHEMA)

    def ez(self, a: int, label: int) -> Stream[EzState]:
        if a == 999:
            raise ValueError("init refused")
        return Stream(output_schema=OUT_SCHEMA, state=EzState(n=a), input_schema=IN_SCHEMA, call_state=ExCall(label=label))


    def ew(self, a: int, label: int) -> Stream[EwState]:
        if a == 999:
            raise ValueError("init refused")
        return Stream(output_schema=OUT_SCHEMA, state=EwState(n=a), input_schema=IN_SCHEMA, call_state=WCall(label=label))


# ---- identities -------------------------------------------------------------
# None = anonymous; otherwise (domain | None, principal | None) of an authenticated AuthContext
IDENT_HEADER = "X-C14-Ident"


def ident_header(i: Any) -> dict[str, str]:
    if i is None:
        return {}
    d, p = i
    enc = lambda s: "-" if s is None else "+" + base64.urlsafe_b64encode(s.encode()).decode()  # noqa: E731
    return {IDENT_HEADER: enc(d) + "," + enc(p)}


def authenticate(req: Any) -> AuthContext:
    h = req.get_header(IDENT_HEADER)
    if h is None:
        return AuthContext.anonymous()
    parts = h.split(",")
    dec = lambda s: None if s == "-" else base64.urlsafe_b64decode(s[1:].encode()).decode()  # noqa: E731
    return AuthContext(domain=dec(parts[0]), authenticated=True, principal=dec(parts[1]))


def auth_of(i: Any) -> AuthContext:
    if i is None:
        return AuthContext.anonymous()
    return AuthContext(domain=i[0], authenticated=True, principal=i[1])


# ---- logical clock: the hook the property names ("the check substitutes the time function seen by the token module")
class Clock:
    """Stands in for the ``time`` module inside _state_token (token timestamps) and _app_stream (cache now)."""

    def __init__(self, real: Any) -> None:
        self._real = real
        self.now: float | None = None
        self.reads = 0

    def time(self) -> float:
        self.reads += 1
        return float(self._real.time()) if self.now is None else self.now

    def __getattr__(self, name: str) -> Any:
        return getattr(self._real, name)


def install_clock() -> Clock:
    import vgi_rpc.http.server._app_stream as aps
    import vgi_rpc.http.server._state_token as st

    if isinstance(st.time, Clock):
        clk = st.time
    else:
        clk = Clock(st.time)
        st.time = clk  # type: ignore[assignment]
    aps.time = clk  # type: ignore[assignment]
    return clk


def make_app(key: bytes, ttl: int, cache_entries: int, **kw: Any) -> tuple[Any, Any, Any]:
    """One worker: (falcon app, RpcServer, its _CallStateCache).

    The cache object is captured while make_wsgi_app constructs its _HttpRpcApp (the factory keeps no public handle).
    """
    import vgi_rpc.http.server._factory as F
    from vgi_rpc.http import make_wsgi_app

    server = RpcServer(C14Protocol, C14Impl())
    captured: list[Any] = []
    orig = F._HttpRpcApp

    def capture(*a: Any, **k: Any) -> Any:
        h = orig(*a, **k)
        captured.append(h)
        return h

    F._HttpRpcApp = capture  # type: ignore[misc,assignment]
    try:
        app = make_wsgi_app(
            server,
            prefix="",
            token_key=key,
            authenticate=authenticate,
            token_ttl=ttl,
            call_state_cache_entries=cache_entries,
            enable_landing_page=False,
            enable_not_found_page=False,
            enable_describe_page=False,
            **kw,
        )
    finally:
        F._HttpRpcApp = orig  # type: ignore[misc]
    if len(captured) != 1:
        raise RuntimeError(f"make_wsgi_app built {len(captured)} _HttpRpcApp objects")
    return app, server, captured[0]._call_state_cache
