"""Low-level drivers that run the REAL implementation on hand-built wire bytes.

Socket family: ``RpcServer.serve_one`` / ``serve`` over an in-memory ``PipeTransport`` (BytesIO in,
BytesIO out) -- the byte protocol is the one every socket transport carries.
HTTP: the real Falcon app through ``falcon.testing.TestClient``.
"""
from __future__ import annotations

import io
from typing import Any

import pyarrow as pa
from pyarrow import ipc

from vgi_rpc.metadata import REQUEST_VERSION, REQUEST_VERSION_KEY, RPC_METHOD_KEY


def request_bytes(
    method: str | None,
    schema: pa.Schema,
    row: dict[str, Any] | None,
    metadata: dict[bytes, bytes] | None = None,
    *,
    request_version: bytes | None = REQUEST_VERSION,
    n_rows: int = 1,
) -> bytes:
    """A complete request IPC stream (schema + 1 batch + EOS) with arbitrary custom metadata."""
    arrays = []
    for f in schema:
        v = (row or {}).get(f.name)
        arrays.append(pa.array([v] * n_rows, type=f.type))
    batch = pa.RecordBatch.from_arrays(arrays, schema=schema)
    md: dict[bytes, bytes] = {}
    if method is not None:
        md[RPC_METHOD_KEY] = method.encode()
    if request_version is not None:
        md[REQUEST_VERSION_KEY] = request_version
    if metadata:
        md.update(metadata)
    sink = io.BytesIO()
    with ipc.new_stream(sink, schema) as w:
        w.write_batch(batch, custom_metadata=pa.KeyValueMetadata(md) if md else None)
    return sink.getvalue()


def tick_stream_bytes(n: int, schema: pa.Schema | None = None, metadata: list[dict[bytes, bytes] | None] | None = None) -> bytes:
    """An input IPC stream of n zero-row tick batches (producer lockstep), then EOS."""
    schema = schema or pa.schema([])
    sink = io.BytesIO()
    with ipc.new_stream(sink, schema) as w:
        for i in range(n):
            b = pa.RecordBatch.from_arrays([pa.array([], type=f.type) for f in schema], schema=schema)
            md = metadata[i] if metadata and i < len(metadata) else None
            w.write_batch(b, custom_metadata=pa.KeyValueMetadata(md) if md else None)
    return sink.getvalue()


def read_streams(data: bytes) -> list[list[tuple[int, dict[bytes, bytes], pa.RecordBatch]]]:
    """Parse back-to-back IPC streams: per stream a list of (rows, metadata, batch)."""
    out = []
    buf = io.BytesIO(data)
    while buf.tell() < len(data):
        try:
            r = ipc.open_stream(buf)
        except Exception:
            out.append([(-1, {b"__unparseable__": data[buf.tell():][:64]}, None)])  # type: ignore[list-item]
            break
        cur = []
        while True:
            try:
                b, md = r.read_next_batch_with_custom_metadata()
            except StopIteration:
                break
            cur.append((b.num_rows, dict(md) if md is not None else {}, b))
        out.append(cur)
    return out


def serve_bytes(server: Any, data: bytes, *, loop: bool = False) -> tuple[bytes, BaseException | None]:
    """Feed ``data`` to the real server over an in-memory pipe transport; return (reply bytes, escaped exception)."""
    from vgi_rpc.rpc import PipeTransport

    rd = io.BytesIO(data)
    wr = io.BytesIO()
    t = PipeTransport(rd, wr)
    exc: BaseException | None = None
    try:
        if loop:
            server.serve(t)
        else:
            server.serve_one(t)
    except BaseException as e:  # noqa: BLE001
        exc = e
    return wr.getvalue(), exc


def error_of(stream: list[tuple[int, dict[bytes, bytes], Any]]) -> tuple[str, str, str | None] | None:
    """(exception type, message, error_kind) of the first EXCEPTION-level batch of a response stream."""
    import json

    for rows, md, _ in stream:
        lvl = md.get(b"vgi_rpc.log_level")
        if lvl == b"EXCEPTION":
            extra = md.get(b"vgi_rpc.log_extra")
            ty = ""
            if extra:
                try:
                    ty = json.loads(extra).get("exception_type", "")
                except Exception:
                    ty = "?"
            kind = md.get(b"vgi_rpc.error_kind")
            return ty, md.get(b"vgi_rpc.log_message", b"").decode("utf-8", "replace"), kind.decode() if kind else None
    return None
