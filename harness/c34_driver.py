"""C34 driver: run interpreter scripts against the real server and capture what the property is about.

* records  : what leaves ``VgiAccessLogFormatter`` on the ``vgi_rpc.access`` logger (parsed JSON objects)
* requests : on HTTP every POST the client makes (path, HTTP status, X-VGI-RPC-Error flag, the slice of
             ``interp.CALLS`` the request caused); on the socket family one entry per script
* trace    : the client's observation (harness/interp.py)

The interpreter service (harness/interp.py, not edited) is used as is; two of its caches are pre-populated from here:
the server is built with ``enable_describe=True`` and the in-process HTTP client is wrapped by ``Tap``.
"""
from __future__ import annotations

import contextlib
import io
import json
import logging
import time
from typing import Any

from harness import interp

ACCESS = "vgi_rpc.access"


class Capture(logging.Handler):
    """Formats every record with the real access-log formatter and keeps the parsed line."""

    def __init__(self, cap: int, instant: float | None = None) -> None:
        super().__init__(level=logging.DEBUG)
        from vgi_rpc.logging_utils import VgiAccessLogFormatter

        self.fmt = VgiAccessLogFormatter(max_record_bytes=cap)
        self.lines: list[dict[str, Any]] = []
        self.raw_sizes: list[int] = []
        self.raw: list[logging.LogRecord] = []
        self.instant = instant

    def emit(self, record: logging.LogRecord) -> None:
        if self.instant is not None:
            # the record-creation instant is an input of the case: what logging stamped is replaced before formatting
            restamp(record, self.instant)
        self.raw.append(record)
        text = self.fmt.format(record)
        self.raw_sizes.append(len(text.encode("utf-8")))
        self.lines.append(json.loads(text))


TOKEN_KEY = b"verif-interp-token-key-0123456789"


def restamp(record: logging.LogRecord, instant: float) -> None:
    """Give a LogRecord the creation instant ``instant`` (seconds since the epoch), as LogRecord.__init__ would."""
    record.created = instant
    record.msecs = (instant - int(instant)) * 1000.0


def format_at(template: logging.LogRecord, instant: float, cap: int = 1 << 20) -> tuple[str, dict[str, Any]]:
    """A copy of a captured access-log LogRecord, stamped at ``instant``, through the real VgiAccessLogFormatter."""
    from vgi_rpc.logging_utils import VgiAccessLogFormatter

    rec = logging.makeLogRecord(dict(template.__dict__))
    restamp(rec, instant)
    text = VgiAccessLogFormatter(max_record_bytes=cap).format(rec)
    return text, json.loads(text)


class Tap:
    """Wraps the in-process HTTP client: remembers every POST and what it caused.

    other : a second app instance sharing token_key; every request that is not an /init goes there (a cold worker:
            the call-state cache of that process never saw the stream's /init, the client's call token is reopened)
    evict : before every /exchange request the stream's own /init body is replayed with the access logger silenced;
            with a call-state cache of one entry this evicts the stream (another stream was opened in between)
    """

    def __init__(self, inner: Any, other: Any = None, evict: bool = False) -> None:
        self._inner = inner
        self._other = other
        self._evict = evict
        self._last_init: Any = None
        self.prefix = getattr(inner, "prefix", "")
        self.posts: list[dict[str, Any]] = []
        self.count: Any = lambda: 0
        self.stderr = io.StringIO()

    def post(self, url: str, *, content: bytes, headers: dict[str, str]) -> Any:
        from urllib.parse import urlparse

        path = urlparse(url).path
        target = self._inner
        if path.endswith("/init"):
            self._last_init = (url, content, dict(headers))
        elif path.endswith("/exchange"):
            if self._other is not None:
                target = self._other
            if self._evict and self._last_init is not None:
                lg = logging.getLogger(ACCESS)
                lvl = lg.level
                lg.setLevel(logging.CRITICAL)
                try:
                    with contextlib.redirect_stderr(io.StringIO()):
                        u, c, h = self._last_init
                        self._inner.post(u, content=c, headers=h)
                finally:
                    lg.setLevel(lvl)
        n0 = len(interp.CALLS)
        r0 = self.count()
        # Falcon prints the traceback of an unhandled exception to wsgi.errors (= sys.stderr at call time): keep it
        self.stderr = io.StringIO()
        with contextlib.redirect_stderr(self.stderr):
            r = target.post(url, content=content, headers=headers)
        hdrs = {k.lower(): v for k, v in dict(r.headers).items()}
        self.posts.append(
            {
                "path": path,
                "status": r.status_code,
                "rpc_error": hdrs.get("x-vgi-rpc-error", "").lower() == "true",
                "ctype": hdrs.get("content-type", ""),
                "calls": [list(c) for c in interp.CALLS[n0:]],
                "recs": [r0, self.count()],
            }
        )
        return r

    def __getattr__(self, name: str) -> Any:
        return getattr(self._inner, name)


_READY = False


def setup() -> None:
    """Describe-enabled interpreter server shared by every transport of this process."""
    global _READY
    if _READY:
        return
    from vgi_rpc.rpc import RpcServer

    interp._SERVERS[False] = RpcServer(interp.Interp, interp.InterpImpl(), enable_describe=True)
    _READY = True


CACHE_MODES = ("warm", "nocache", "cold", "evict")


def http_tap(cfg: dict[str, Any]) -> Tap:
    """The (cached) tapped client for an HTTP configuration.

    cfg["c34_cache"]: warm (default: one app, default call-state cache) | nocache (call_state_cache_entries=0) |
    cold (continuations go to a second app sharing token_key) | evict (one-entry cache, the entry is evicted before
    every continuation).  interp.open_transport ignores the extra key but caches the client under it.
    """
    c = {**interp.HTTP_DEFAULT, **cfg}
    key = json.dumps(c, sort_keys=True)
    cur = interp._HTTP_CLIENTS.get(key)
    if isinstance(cur, Tap):
        return cur
    mode = c.get("c34_cache", "warm")
    if mode == "warm":
        if cur is None:
            with interp.open_transport("http", cfg):
                pass
            cur = interp._HTTP_CLIENTS[key]
        tap = Tap(cur)
    else:
        from vgi_rpc.http._testing import make_sync_client

        assert c["compression"] is None and not c["externalize"], "cache modes are run uncompressed, without externalisation"

        def mk(entries: int) -> Any:
            return make_sync_client(
                interp.get_server(False),
                token_key=TOKEN_KEY,
                max_response_bytes=c["max_response_bytes"],
                compression_level=None,
                enable_landing_page=False,
                enable_describe_page=False,
                enable_not_found_page=False,
                call_state_cache_entries=entries,
            )

        if mode == "nocache":
            tap = Tap(mk(0))
        elif mode == "cold":
            tap = Tap(mk(4096), other=mk(4096))
        elif mode == "evict":
            tap = Tap(mk(1), evict=True)
        else:
            raise ValueError(f"unknown cache mode {mode!r}")
    interp._HTTP_CLIENTS[key] = tap
    return tap


def describe_request_bytes() -> bytes:
    import pyarrow as pa
    from harness.rawrpc import request_bytes

    return request_bytes("__describe__", pa.schema([]), None, {})


def run_history(kind: str, cfg: dict[str, Any] | None, debug: bool, cap: int, items: list[Any], instant: float | None = None) -> dict[str, Any]:
    """Run a list of items on one transport under one capture.

    item = ["script", program, script] | ["describe"] | ["raw", path, body_hex]   (the last two: HTTP only)
    Returns {"records": [...], "requests": [...], "traces": [...]}; a request is
    {"item": i, "path", "status", "rpc_error", "calls", "recs"} (HTTP) or {"item": i, "calls", "script", "recs"} (sockets);
    recs = [a, b): the records written while the request was served.
    """
    setup()
    logger = logging.getLogger(ACCESS)
    saved = (logger.level, logger.propagate, list(logger.handlers))
    cap_h = Capture(cap, instant)
    requests: list[dict[str, Any]] = []
    traces: list[Any] = []
    tap = http_tap(cfg or {}) if kind == "http" else None
    if tap is not None:
        tap.count = lambda: len(cap_h.lines)
    try:
        logger.handlers = [cap_h]
        logger.propagate = False
        logger.setLevel(logging.DEBUG if debug else logging.INFO)
        for i, it in enumerate(items):
            if it[0] == "script":
                prog, script = it[1], it[2]
                interp.register(1000 + i, prog)
                sc = list(script)
                if sc[0] == "unary":
                    sc[1] = 1000 + i
                else:
                    sc[2] = 1000 + i
                if tap is not None:
                    tap.posts = []
                n0 = len(interp.CALLS)
                r0 = len(cap_h.lines)
                expected = r0 + 1
                with interp.open_transport(kind, cfg) as conn:
                    tr = interp.run_script(conn, sc, timeout=20.0)
                    if kind != "http":
                        # the socket server writes its record after the reply: wait for it (bounded)
                        t_end = time.time() + 3.0
                        while len(cap_h.lines) < expected and time.time() < t_end:
                            time.sleep(0.01)
                traces.append(tr)
                if tap is not None:
                    for p in tap.posts:
                        requests.append({"item": i, **p})
                else:
                    time.sleep(0.02)
                    requests.append({"item": i, "calls": [list(c) for c in interp.CALLS[n0:]], "script": sc, "recs": [r0, len(cap_h.lines)]})
            elif it[0] == "describe":
                assert tap is not None
                tap.posts = []
                tap.post("http://test/__describe__", content=describe_request_bytes(), headers={"Content-Type": "application/vnd.apache.arrow.stream"})
                traces.append(None)
                requests.extend({"item": i, **p} for p in tap.posts)
            elif it[0] == "raw":
                assert tap is not None
                tap.posts = []
                tap.post("http://test" + it[1], content=bytes.fromhex(it[2]), headers={"Content-Type": "application/vnd.apache.arrow.stream"})
                traces.append(None)
                requests.extend({"item": i, **p} for p in tap.posts)
            else:
                raise ValueError(it[0])
    finally:
        logger.setLevel(saved[0])
        logger.propagate = saved[1]
        logger.handlers = saved[2]
    return {"records": cap_h.lines, "requests": requests, "traces": traces, "sizes": cap_h.raw_sizes, "raw": cap_h.raw}
