"""Minimal stand-in for the `tenacity` package (NOT installed in this sandbox).

Only what vgi_rpc/external.py uses: Retrying(stop=, wait=, retry=, reraise=True)(fn, *args),
stop_after_attempt, wait_fixed, wait_exponential, retry_if_exception_type.  Semantics: call fn; on an exception
matching `retry` sleep `wait` and try again until `stop` says so; then re-raise the last exception.
This file is part of the verification harness (trusted base), not of the code under test.
"""
from __future__ import annotations

import time
from typing import Any, Callable


class stop_after_attempt:  # noqa: N801 - mirrors the tenacity name
    def __init__(self, max_attempt_number: int) -> None:
        self.max_attempt_number = max_attempt_number


class wait_fixed:  # noqa: N801
    def __init__(self, wait: float) -> None:
        self.wait = float(wait)

    def __call__(self, attempt: int) -> float:
        return self.wait


class wait_exponential:  # noqa: N801
    def __init__(self, multiplier: float = 1, min: float = 0, max: float = 60.0, exp_base: float = 2) -> None:  # noqa: A002
        self.multiplier, self.min, self.max, self.exp_base = multiplier, min, max, exp_base

    def __call__(self, attempt: int) -> float:
        return max(self.min, min(self.max, self.multiplier * self.exp_base ** (attempt - 1)))


class retry_if_exception_type:  # noqa: N801
    def __init__(self, exception_types: Any = Exception) -> None:
        self.exception_types = exception_types

    def __call__(self, exc: BaseException) -> bool:
        return isinstance(exc, self.exception_types)


class RetryError(Exception):
    pass


class Retrying:
    def __init__(self, stop: Any = None, wait: Any = None, retry: Any = None, reraise: bool = False, **_: Any) -> None:
        self.stop, self.wait, self.retry, self.reraise = stop, wait, retry, reraise

    def __call__(self, fn: Callable[..., Any], *args: Any, **kwargs: Any) -> Any:
        attempt = 0
        while True:
            attempt += 1
            try:
                return fn(*args, **kwargs)
            except BaseException as exc:  # noqa: BLE001
                retryable = self.retry(exc) if self.retry is not None else isinstance(exc, Exception)
                limit = self.stop.max_attempt_number if self.stop is not None else 1
                if not retryable or attempt >= limit:
                    if self.reraise or not retryable:
                        raise
                    raise RetryError(str(exc)) from exc
                delay = self.wait(attempt) if self.wait is not None else 0.0
                if delay > 0:
                    time.sleep(delay)
