"""C25 driver: a sticky-session service behind the REAL Falcon app (``make_wsgi_app(enable_sticky=True)``).

* one app instance = one worker (own ``server_id``, own registry, own or shared token key)
* header-driven authenticator (anonymous / (domain, principal))
* invocation log: every method body that runs appends (worker, method, tag of ctx.session or None)
* logical clock (``_sticky.time``) and scripted session-id source (``_sticky.secrets``) so that histories are
  deterministic and session-id collisions between workers can be staged
* the reaper thread is never started: the slot of the middleware holds an unstarted real ``_ReaperThread``; eviction
  by the reaper is driven by calling the real ``registry.drain_expired()``.

Everything is module level because the HTTP app resolves the type hints of the service methods.
"""
from __future__ import annotations

import base64
from typing import Any, Protocol

from vgi_rpc.rpc import AuthContext, CallContext, RpcServer

ARROW_CT = "application/vnd.apache.arrow.stream"
LOG: list[tuple[str, str, str | None, str | None]] = []  # (worker, method, tag of ctx.session, ctx.session_id)
CLOSED: list[str] = []
SEEN_HEADER: list[str | None] = []  # the VGI-Session header value as the app sees it (recorded by the authenticator)


class SessState:
    """Session state object; ``tag`` names the session, ``close`` is the eviction hook."""

    def __init__(self, tag: str) -> None:
        self.tag = tag

    def close(self) -> None:
        CLOSED.append(self.tag)


class C25Service(Protocol):
    def open_s(self, ttl: int, tag: str) -> int: ...
    def open_x(self, mode: int, ttl_value: int, tag: str) -> int: ...
    def use(self, x: int) -> str: ...
    def use_close(self, x: int) -> str: ...


class C25Impl:
    def __init__(self, worker: str) -> None:
        self.worker = worker

    def open_s(self, ttl: int, tag: str, ctx: CallContext) -> int:
        LOG.append((self.worker, "open_s", None, None))
        ctx.open_session(SessState(tag), ttl=float(ttl))
        return 0

    def open_x(self, mode: int, ttl_value: int, tag: str, ctx: CallContext) -> int:
        """Per-call TTL shapes: mode 0 = ttl omitted (None), 1 = float(ttl_value / 1000), 2 = int ttl_value (seconds)."""
        LOG.append((self.worker, "open_x", None, None))
        if mode == 0:
            ctx.open_session(SessState(tag))
        elif mode == 1:
            ctx.open_session(SessState(tag), ttl=ttl_value / 1000.0)
        else:
            ctx.open_session(SessState(tag), ttl=ttl_value)  # type: ignore[arg-type]
        return 0

    def use(self, x: int, ctx: CallContext) -> str:
        s = ctx.session
        tag = s.tag if isinstance(s, SessState) else None
        LOG.append((self.worker, "use", tag, ctx.session_id))
        return "" if tag is None else tag

    def use_close(self, x: int, ctx: CallContext) -> str:
        s = ctx.session
        tag = s.tag if isinstance(s, SessState) else None
        LOG.append((self.worker, "use_close", tag, ctx.session_id))
        if tag is not None:
            ctx.close_session()
        return "" if tag is None else tag


# ---- identities -------------------------------------------------------------
# None = anonymous; otherwise (domain | None, principal | None) of an authenticated AuthContext
Identity = tuple[str | None, str | None] | None
IDENT_HEADER = "X-C25-Ident"


def ident_header(i: Identity) -> dict[str, str]:
    if i is None:
        return {}
    d, p = i
    enc = lambda s: "-" if s is None else "+" + base64.urlsafe_b64encode(s.encode()).decode()  # noqa: E731
    return {IDENT_HEADER: enc(d) + "," + enc(p)}


def authenticate(req: Any) -> AuthContext:
    SEEN_HEADER.append(req.get_header("VGI-Session"))
    h = req.get_header(IDENT_HEADER)
    if h is None:
        return AuthContext.anonymous()
    parts = h.split(",")
    dec = lambda s: None if s == "-" else base64.urlsafe_b64decode(s[1:].encode()).decode()  # noqa: E731
    return AuthContext(domain=dec(parts[0]), authenticated=True, principal=dec(parts[1]))


# ---- logical clock and scripted session ids ------------------------------------
class Clock:
    """Stands in for the ``time`` module inside vgi_rpc.http.server._sticky."""

    def __init__(self, real: Any) -> None:
        self._real = real
        self.now = 0.0
        self.reads = 0

    def time(self) -> float:
        self.reads += 1
        return float(self.now)

    def __getattr__(self, name: str) -> Any:
        return getattr(self._real, name)


class Secrets:
    """Stands in for the ``secrets`` module inside vgi_rpc.http.server._sticky."""

    def __init__(self, real: Any) -> None:
        self._real = real
        self.script: list[bytes] = []

    def token_bytes(self, n: int | None = None) -> bytes:
        if self.script:
            b = self.script.pop(0)
            if n is not None and len(b) != n:
                raise RuntimeError(f"scripted session id has {len(b)} bytes, {n} were asked for")
            return b
        return bytes(self._real.token_bytes(n))

    def __getattr__(self, name: str) -> Any:
        return getattr(self._real, name)


def install_shims() -> tuple[Clock, Secrets]:
    import vgi_rpc.http.server._sticky as st

    if not isinstance(st.time, Clock):
        st.time = Clock(st.time)  # type: ignore[assignment]
    if not isinstance(st.secrets, Secrets):
        st.secrets = Secrets(st.secrets)  # type: ignore[assignment]
    return st.time, st.secrets  # type: ignore[return-value]


class Worker:
    """One worker process: real RpcServer + real sticky-enabled Falcon app."""

    def __init__(self, name: str, server_id: str, key: bytes, default_ttl: float = 300.0) -> None:
        import falcon.testing

        from vgi_rpc.http import make_wsgi_app
        from vgi_rpc.http.server import _sticky

        self.name = name
        self.server_id = server_id
        self.key = key
        self.default_ttl = default_ttl
        self.server = RpcServer(C25Service, C25Impl(name), server_id=server_id)
        self.app = make_wsgi_app(
            self.server, prefix="", enable_sticky=True, sticky_default_ttl=default_ttl, token_key=key, authenticate=authenticate,
            enable_landing_page=False, enable_not_found_page=False, enable_describe_page=False,
        )
        self.mw = next(m.__self__ for grp in self.app._middleware for m in grp if isinstance(getattr(m, "__self__", None), _sticky._StickyMiddleware))
        self.registry = self.mw._registry
        # an unstarted real reaper in the slot keeps _ensure_reaper from starting a free-running one
        self.mw._reaper = _sticky._ReaperThread(self.registry, tick_seconds=1.0)
        self.client = falcon.testing.TestClient(self.app)
        self.schemas = {m: self.server._methods[m].params_schema for m in ("open_s", "open_x", "use", "use_close")}
