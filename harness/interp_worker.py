"""Subprocess worker serving the interpreter service (programs from $VERIF_INTERP_PROGRAMS).

    python -m harness.interp_worker                 # stdin/stdout pipes (SubprocessTransport)
    python -m harness.interp_worker --unix PATH     # raw framing over a Unix socket
    python -m harness.interp_worker --tcp PORT      # raw framing over loopback TCP

Argument parsing is vgi_rpc.rpc.run_server's.
"""
from __future__ import annotations


def main() -> None:
    from vgi_rpc.rpc import RpcServer, run_server

    from harness.interp import Interp, InterpImpl

    run_server(RpcServer(Interp, InterpImpl()))


if __name__ == "__main__":
    main()
