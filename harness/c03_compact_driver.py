"""C03 driver for the stream-state bytes functions of vgi_rpc/http/server/_state_token.py.

``state_cases`` runs ``_serialize_state_bytes`` -> ``_resolve_state_cls`` -> ``_deserialize_state_bytes`` on generated
classes / instances (single-state and union-state methods) and returns, per case, the Coq input term, what the real code
did (first byte of the payload, outcome) and what the property's own predicate says about it.

Run as a module (``python -m harness.c03_compact_driver SEED TIER OUT.json``) with harness/stubs_C03 on PYTHONPATH it does
the same with a pure-Python stand-in for ``msgpack`` importable, i.e. with the compact codec enabled -- the only way the
"with msgpack" half of the property can execute in this sandbox.
"""
from __future__ import annotations

import json
import random
import struct
import sys
from typing import Any


def state_cases(gen: Any, rng: Any, n_classes: int, n_inst: int) -> dict[str, Any]:
    from harness import c03_types as H
    from vgi_rpc import utils as U
    from vgi_rpc.http.server import _state_token as ST
    from vgi_rpc.utils import IpcValidation

    have = bool(U._HAVE_MSGPACK)
    cases: list[tuple[str, str]] = []
    violations: list[dict[str, Any]] = []
    stats = {"state_cases": 0, "compact_used": 0, "arrow_used": 0, "union": 0, "flat_classes": 0}
    pool: list[Any] = []
    for i in range(n_classes):
        r = rng.random()
        if r < 0.55:  # flat classes: the compact codec's domain
            n = rng.choice([0, 1, 2, 3, 4])
            force = []
            for _ in range(n):
                T = gen.gen_scalar()
                force.append(("o", T) if rng.random() < 0.35 else T)
            if rng.random() < 0.4:  # a transient field among them
                force.insert(rng.randrange(len(force) + 1), ("transient", rng.choice([("s", "int"), ("l", ("s", "int")), ("o", ("s", "float"))])))
            cd = gen.gen_class(0, force=force)
        elif r < 0.75:
            cd = gen.gen_class(0)
        else:
            cd = gen.gen_class(rng.choice([1, 2]))
        pool.append(cd)
    for cd in pool:
        if cd.flat:
            stats["flat_classes"] += 1
        for _ in range(n_inst):
            x = gen.gen_instance(cd)
            union: list[Any] = []
            if rng.random() < 0.4:
                others = [rng.choice(pool) for _ in range(rng.choice([1, 2, 3]))]
                others = [o for o in others if o.cid != cd.cid]
                union = list(others)
                union.insert(rng.randrange(len(union) + 1), cd)
                if rng.random() < 0.15 and len(union) >= 2:
                    union.append(cd)  # the class listed twice: index() picks the first occurrence
                stats["union"] += 1
            info: Any = tuple(u.pycls for u in union) if union else cd.pycls
            first = 257
            try:
                b = ST._serialize_state_bytes(x, info)
                inner = b
                if union:
                    if b[:1] != ST._UNION_STATE_MARKER:
                        violations.append({"key": "union-state-envelope-without-marker", "what": "union state bytes do not start with the union marker", "replay": {"class": cd.name, "bytes": b[:8].hex()}})
                    tag = struct.unpack("<H", b[1:3])[0]
                    if union[tag].cid != cd.cid:
                        violations.append({"key": "union-state-tag-names-another-class", "what": "tag does not index the instance's class", "replay": {"class": cd.name, "tag": tag}})
                    inner = b[3:]
                first = inner[0] if inner else 256
                cls2, raw = ST._resolve_state_cls(b, info)
                y = ST._deserialize_state_bytes(cls2, raw, IpcValidation.FULL)
                out = (0, gen.render(y, ("c", cd.cid)))
                if first == U.COMPACT_MARKER[0]:
                    stats["compact_used"] += 1
                else:
                    stats["arrow_used"] += 1
                # the property's own predicate
                if not H.deep_eq(y, x):
                    violations.append({"key": ("compact-state-bytes-roundtrip-differs" if first == 1 else H.finding_key(gen, cd, x, y)), "what": "state read back from its bytes differs from the state written",
                                       "replay": {"class": describe(gen, cd), "instance": repr(x)[:600], "restored": repr(y)[:600], "first_byte": first}})
                if first == U.COMPACT_MARKER[0]:
                    ya = cd.pycls.deserialize_from_bytes(x.serialize_to_bytes())
                    if not H.deep_eq(y, ya):
                        violations.append({"key": "compact-decodes-differently-from-arrow", "what": "compact codec and Arrow codec decode the same instance to different objects",
                                           "replay": {"class": describe(gen, cd), "instance": repr(x)[:600], "compact": repr(y)[:600], "arrow": repr(ya)[:600]}})
            except Exception as e:  # noqa: BLE001 - the outcome is the observation
                out = (H.classify(e), "VNone")
                violations.append({"key": H.finding_key(gen, cd, x, exc=e), "what": f"in-domain state cannot be written / read back: {type(e).__name__}: {str(e)[:200]}",
                                   "replay": {"class": describe(gen, cd), "instance": repr(x)[:600]}})
            ts = "[" + "; ".join(f"cls_{u.cid}" for u in union) + "]"
            inp = f"(ce_all, {ts}, cls_{cd.cid}, {gen.render(x, ('c', cd.cid))})"
            cases.append((inp, f"({first}, ({out[0]}, {out[1]}))"))
            stats["state_cases"] += 1
    return {"have_msgpack": have, "cases": cases, "violations": violations, "stats": stats}


def describe(gen: Any, cd: Any) -> dict[str, Any]:
    return {"name": cd.name, "fields": [{"name": f.name, "kind": f.kind, "annotation": str(gen.annotation(f.T)), "default": None if f.default is None else f.default[0]} for f in cd.fields]}


def main() -> None:
    seed, tier, out = sys.argv[1], sys.argv[2], sys.argv[3]
    from harness import c03_types as H

    rng = random.Random(f"C03-compact-{seed}")
    gen = H.Gen(rng, first_cid=500000)
    n = 60 if tier == "quick" else 400
    res = state_cases(gen, rng, n, 3)
    res["header"] = gen.coq_header()
    import msgpack  # the stand-in

    res["msgpack"] = str(getattr(msgpack, "version", "?"))
    with open(out, "w") as fh:
        json.dump(res, fh)


if __name__ == "__main__":
    main()
