"""C03 driver for the stream-state bytes functions of vgi_rpc/http/server/_state_token.py.

``state_cases`` runs ``_serialize_state_bytes`` -> ``_resolve_state_cls`` -> ``_deserialize_state_bytes`` on generated
classes / instances (single-state and union-state methods) and returns, per case, the Coq input term, what the real code
did (first byte of the payload, outcome) and what the property's own predicate says about it.

Run as a module (``python -m harness.c03_compact_driver SEED TIER OUT.json``) with harness/stubs_C03 on PYTHONPATH it does
the same with a pure-Python stand-in for ``msgpack`` importable, i.e. with the compact codec enabled -- the only way the
"with msgpack" half of the property can execute in this sandbox.
"""
from __future__ import annotations

import json
import random
import struct
import sys
from typing import Any


def state_cases(gen: Any, rng: Any, n_classes: int, n_inst: int) -> dict[str, Any]:
    from harness import c03_types as H
    from vgi_rpc import utils as U
    from vgi_rpc.http.server import _state_token as ST
    from vgi_rpc.utils import IpcValidation

    have = bool(U._HAVE_MSGPACK)
    cases: list[tuple[str, str]] = []
    violations: list[dict[str, Any]] = []
    stats = {"state_cases": 0, "compact_used": 0, "arrow_used": 0, "union": 0, "flat_classes": 0}
    pool: list[Any] = []
    for i in range(n_classes):
        r = rng.random()
        if r < 0.55:  # flat classes: the compact codec's domain
            n = rng.choice([0, 1, 2, 3, 4])
            force = []
            for _ in range(n):
                T = gen.gen_scalar()
                force.append(("o", T) if rng.random() < 0.35 else T)
            if rng.random() < 0.4:  # a transient field among them
                force.insert(rng.randrange(len(force) + 1), ("transient", rng.choice([("s", "int"), ("l", ("s", "int")), ("o", ("s", "float"))])))
            cd = gen.gen_class(0, force=force)
        elif r < 0.75:
            cd = gen.gen_class(0)
        else:
            cd = gen.gen_class(rng.choice([1, 2]))
        pool.append(cd)
    for cd in pool:
        if cd.flat:
            stats["flat_classes"] += 1
        for _ in range(n_inst):
            x = gen.gen_instance(cd)
            union: list[Any] = []
            if rng.random() < 0.4:
                others = [rng.choice(pool) for _ in range(rng.choice([1, 2, 3]))]
                others = [o for o in others if o.cid != cd.cid]
                union = list(others)
                union.insert(rng.randrange(len(union) + 1), cd)
                if rng.random() < 0.15 and len(union) >= 2:
                    union.append(cd)  # the class listed twice: index() picks the first occurrence
                stats["union"] += 1
            info: Any = tuple(u.pycls for u in union) if union else cd.pycls
            first = 257
            try:
                b = ST._serialize_state_bytes(x, info)
                inner = b
                if union:
                    if b[:1] != ST._UNION_STATE_MARKER:
                        violations.append({"key": "union-state-envelope-without-marker", "what": "union state bytes do not start with the union marker", "replay": {"class": cd.name, "bytes": b[:8].hex()}})
                    tag = struct.unpack("<H", b[1:3])[0]
                    if union[tag].cid != cd.cid:
                        violations.append({"key": "union-state-tag-names-another-class", "what": "tag does not index the instance's class", "replay": {"class": cd.name, "tag": tag}})
                    inner = b[3:]
                first = inner[0] if inner else 256
                cls2, raw = ST._resolve_state_cls(b, info)
                y = ST._deserialize_state_bytes(cls2, raw, IpcValidation.FULL)
                out = (0, gen.render(y, ("c", cd.cid)))
                if first == U.COMPACT_MARKER[0]:
                    stats["compact_used"] += 1
                else:
                    stats["arrow_used"] += 1
                # the property's own predicate
                if not H.deep_eq(y, x):
                    violations.append({"key": ("compact-state-bytes-roundtrip-differs" if first == 1 else H.finding_key(gen, cd, x, y)), "what": "state read back from its bytes differs from the state written",
                                       "replay": {"class": describe(gen, cd), "instance": repr(x)[:600], "restored": repr(y)[:600], "first_byte": first}})
                if first == U.COMPACT_MARKER[0]:
                    ya = cd.pycls.deserialize_from_bytes(x.serialize_to_bytes())
                    if not H.deep_eq(y, ya):
                        violations.append({"key": "compact-decodes-differently-from-arrow", "what": "compact codec and Arrow codec decode the same instance to different objects",
                                           "replay": {"class": describe(gen, cd), "instance": repr(x)[:600], "compact": repr(y)[:600], "arrow": repr(ya)[:600]}})
            except Exception as e:  # noqa: BLE001 - the outcome is the observation
                out = (H.classify(e), "VNone")
                violations.append({"key": H.finding_key(gen, cd, x, exc=e), "what": f"in-domain state cannot be written / read back: {type(e).__name__}: {str(e)[:200]}",
                                   "replay": {"class": describe(gen, cd), "instance": repr(x)[:600]}})
            ts = "[" + "; ".join(f"cls_{u.cid}" for u in union) + "]"
            inp = f"(ce_all, {ts}, cls_{cd.cid}, {gen.render(x, ('c', cd.cid))})"
            cases.append((inp, f"({first}, ({out[0]}, {out[1]}))"))
            stats["state_cases"] += 1
    seq = transient_sequences(gen, rng, max(12, n_classes // 3))
    violations.extend(seq["violations"])
    stats.update(seq["stats"])
    return {"have_msgpack": have, "cases": cases, "violations": violations, "stats": stats}


MUTABLE_TRANSIENTS = [
    ("transient", ("l", ("s", "int")), ("LEmptyList", list, True)),
    ("transient", ("d", ("s", "str"), ("s", "int")), ("LEmptyDict", dict, True)),
    ("transient", ("fs", ("s", "int")), ("LEmptySet", set, True)),
]


def _mutate(obj: Any, name: str) -> None:
    """What a Transient scratch field is for: in-place use by the instance that owns it."""
    v = getattr(obj, name)
    if isinstance(v, list):
        v.append(7)
    elif isinstance(v, dict):
        v["scratch"] = 1
    elif isinstance(v, set):
        v.add(3)


def transient_sequences(gen: Any, rng: Any, n_classes: int) -> dict[str, Any]:
    """decode -> mutate the decoded instance's mutable transient fields in place -> decode again, on every codec path.

    Oracle (the property's own predicate, applied to a SEQUENCE of decodes): every decode equals the original on all
    fields including a fresh transient default; the compact decode equals the Arrow decode; no two decoded instances
    (nor a decoded instance and the original) share a mutable transient object.
    """
    from harness import c03_types as H
    from vgi_rpc import utils as U
    from vgi_rpc.http.server import _state_token as ST
    from vgi_rpc.utils import IpcValidation

    violations: list[dict[str, Any]] = []
    stats = {"transient_sequences": 0, "transient_sequences_compact": 0, "transient_decodes": 0}
    for i in range(n_classes):
        flat = rng.random() < 0.7
        force: list[Any] = []
        for _ in range(rng.choice([0, 1, 2, 3])):
            T = gen.gen_scalar()
            force.append(("o", T) if rng.random() < 0.3 else T)
        if not flat:
            force.append(("l", gen.gen_scalar()))
        for tr in rng.sample(MUTABLE_TRANSIENTS, rng.choice([1, 1, 2, 3])):
            force.insert(rng.randrange(len(force) + 1), tr)
        cd = gen.gen_class(1, force=force)
        tnames = [f.name for f in cd.fields if f.kind == "transient"]
        x1, x2 = gen.gen_instance(cd), gen.gen_instance(cd)
        paths: dict[str, tuple[Any, Any]] = {
            "arrow": (lambda x: x.serialize_to_bytes(), lambda b: cd.pycls.deserialize_from_bytes(b)),
            "state-bytes": (lambda x: ST._serialize_state_bytes(x, cd.pycls),
                            lambda b: ST._deserialize_state_bytes(*ST._resolve_state_cls(b, cd.pycls), IpcValidation.FULL)),
        }
        if U.serialize_compact(x1) is not None:
            paths["compact"] = (lambda x: U.serialize_compact(x), lambda b: U.deserialize_compact(cd.pycls, b))
            stats["transient_sequences_compact"] += 1
        decoded: dict[str, Any] = {}
        for path, (enc, dec) in paths.items():
            replay = {"class": describe(gen, cd), "path": path, "instance": repr(x1)[:400], "second_instance": repr(x2)[:400], "msgpack": bool(U._HAVE_MSGPACK),
                      "sequence": "y1 = decode(encode(x1)); mutate y1's transient fields in place; y2 = decode(encode(x1)); y3 = decode(encode(x2))"}
            try:
                b1 = enc(x1)
                y1 = dec(b1)
                ok1 = H.deep_eq(y1, x1)
                for nme in tnames:
                    _mutate(y1, nme)
                y2 = dec(b1)
                y3 = dec(enc(x2))
                stats["transient_decodes"] += 3
            except Exception as e:  # noqa: BLE001
                violations.append({"key": f"{path}-decode-sequence-raises-{type(e).__name__}", "what": f"decode sequence failed: {type(e).__name__}: {str(e)[:200]}", "replay": replay})
                continue
            decoded[path] = y2

            def serialized_equal(x: Any, y: Any) -> bool:
                return type(x) is type(y) and all(H.deep_eq(getattr(x, f.name), getattr(y, f.name)) for f in cd.fields if f.kind != "transient")

            if not ok1 and not serialized_equal(x1, y1):
                violations.append({"key": H.finding_key(gen, cd, x1, y1), "what": f"{path}: first decode differs from the instance", "replay": {**replay, "decoded": repr(y1)[:400]}})
            elif not ok1:  # the transient default itself is not fresh (polluted through another path of the same class)
                violations.append({"key": f"{path}-decode-polluted-by-earlier-instance-transient-mutation",
                                   "what": f"{path}: a decoded instance's transient field does not hold a fresh default", "replay": {**replay, "which": "y1", "decoded": repr(y1)[:400]}})
            for label, y, x in (("y2", y2, x1), ("y3", y3, x2)):
                if H.deep_eq(y, x):
                    continue
                if not serialized_equal(x, y):
                    violations.append({"key": H.finding_key(gen, cd, x, y), "what": f"{path}: decode differs from the instance in a serialized field", "replay": {**replay, "which": label, "decoded": repr(y)[:400]}})
                else:
                    violations.append({"key": f"{path}-decode-polluted-by-earlier-instance-transient-mutation",
                                       "what": f"{path}: a decode made after an earlier decoded instance mutated its transient field in place does not equal the original instance",
                                       "replay": {**replay, "which": label, "decoded": repr(y)[:400]}})
            for nme in tnames:
                objs = [getattr(o, nme) for o in (x1, x2, y1, y2, y3)]
                if len({id(o) for o in objs}) != len(objs):
                    violations.append({"key": f"{path}-decoded-instances-share-mutable-transient-default",
                                       "what": f"{path}: two instances share one mutable transient object (field {nme})", "replay": {**replay, "field": nme}})
        if "compact" in decoded and "arrow" in decoded and not H.deep_eq(decoded["compact"], decoded["arrow"]):
            violations.append({"key": "compact-decodes-differently-from-arrow-after-transient-mutation",
                               "what": "after a decoded instance mutated its transient field, the compact codec and the Arrow codec decode the same instance to different objects",
                               "replay": {"class": describe(gen, cd), "instance": repr(x1)[:400], "compact": repr(decoded["compact"])[:400], "arrow": repr(decoded["arrow"])[:400]}})
        stats["transient_sequences"] += 1
    return {"violations": violations, "stats": stats}


def describe(gen: Any, cd: Any) -> dict[str, Any]:
    return {"name": cd.name, "fields": [{"name": f.name, "kind": f.kind, "annotation": str(gen.annotation(f.T)), "default": None if f.default is None else f.default[0]} for f in cd.fields]}


def main() -> None:
    seed, tier, out = sys.argv[1], sys.argv[2], sys.argv[3]
    from harness import c03_types as H

    rng = random.Random(f"C03-compact-{seed}")
    gen = H.Gen(rng, first_cid=500000)
    n = 60 if tier == "quick" else 400
    res = state_cases(gen, rng, n, 3)
    res["header"] = gen.coq_header()
    import msgpack  # the stand-in

    res["msgpack"] = str(getattr(msgpack, "version", "?"))
    with open(out, "w") as fh:
        json.dump(res, fh)


if __name__ == "__main__":
    main()
