"""Fail-closed translator for property C32: the decisions of vgi_rpc/pool.py that the Coq theorems depend on.

Regenerated on every run into coq/gen/G_Pool.v:

  gen_abandoned : flags -> bool        the ``stream_abandoned = <expr>`` assignment of ``_PooledTransport.close``
  gen_discard   : bool -> nat -> bool  the guard of the discard branch of ``_return_worker`` under the lock
  gen_evict     : nat -> nat -> bool   the guard in front of ``_evict_oldest_locked()``
  gen_track     : bool                 whether the client maintains ``_call_in_flight`` / ``_drained``
  gen_drains    : drains               per drain loop of ``StreamSession.close`` / ``.cancel``: the exception classes it
                                       swallows and whether ``_drained = True`` is set although a swallowed exception
                                       (not the end-of-stream marker) ended the loop
  gen_cfg       : cfg

Besides the expressions, the *shape* of the surrounding code is checked (statement order of the locked section of
``_return_worker``: decrement, discard-guard, key, total, evict-guard, setdefault, append; evict strictly before
append; ``stream_abandoned`` is what is passed to ``_return_worker``; ``max_idle < 0`` is rejected by the
constructor).  Any other shape raises TranslationBroken, so the tie stops compiling.
"""
from __future__ import annotations

import ast
from pathlib import Path

from vlib.core import TranslationBroken


def _parse(path: Path) -> ast.Module:
    try:
        return ast.parse(path.read_text())
    except (OSError, SyntaxError) as e:
        raise TranslationBroken(str(path), f"cannot parse: {e}") from e


def _cls(tree: ast.Module, name: str, site: str) -> ast.ClassDef:
    for n in tree.body:
        if isinstance(n, ast.ClassDef) and n.name == name:
            return n
    raise TranslationBroken(site, f"class {name} not found")


def _fn(scope: ast.ClassDef | ast.FunctionDef, name: str, site: str) -> ast.FunctionDef:
    for n in scope.body:
        if isinstance(n, ast.FunctionDef) and n.name == name:
            return n
    raise TranslationBroken(site, f"function {name} not found")


def _is_self_attr(e: ast.AST, attr: str) -> bool:
    return isinstance(e, ast.Attribute) and e.attr == attr and isinstance(e.value, ast.Name) and e.value.id == "self"


# ---- stream_abandoned -----------------------------------------------------------------------------
_FLAG = {"_stream_opened": "f_opened f", "_call_in_flight": "f_inflight f"}
_SESS = {"_closed": "f_sclosed f", "_drained": "f_sdrained f"}


def _abandoned(e: ast.AST, site: str, guarded: bool) -> str:
    """``guarded``: we are to the right of ``self._last_stream_session is None or`` (attribute access is safe)."""
    if isinstance(e, ast.BoolOp):
        parts = []
        g = guarded
        for v in e.values:
            parts.append(_abandoned(v, site, g))
            if isinstance(e.op, ast.Or) and _is_none_test(v):
                g = True
        op = " || " if isinstance(e.op, ast.Or) else " && "
        return "(" + op.join(parts) + ")"
    if isinstance(e, ast.UnaryOp) and isinstance(e.op, ast.Not):
        return f"negb {_abandoned(e.operand, site, guarded)}"
    if _is_none_test(e):
        return "negb (f_has_sess f)"
    if isinstance(e, ast.Attribute):
        if isinstance(e.value, ast.Name) and e.value.id == "self" and e.attr in _FLAG:
            return f"({_FLAG[e.attr]})"
        if _is_self_attr(e.value, "_last_stream_session") and e.attr in _SESS:
            if not guarded:
                raise TranslationBroken(site, f"session attribute {e.attr} read without a preceding `is None or` guard")
            return f"({_SESS[e.attr]})"
    raise TranslationBroken(site, f"unsupported expression {ast.dump(e)[:120]}")


def _is_none_test(e: ast.AST) -> bool:
    return (
        isinstance(e, ast.Compare)
        and len(e.ops) == 1
        and isinstance(e.ops[0], ast.Is)
        and _is_self_attr(e.left, "_last_stream_session")
        and isinstance(e.comparators[0], ast.Constant)
        and e.comparators[0].value is None
    )


def abandoned_expr(pool_py: Path) -> str:
    site = f"{pool_py}:_PooledTransport.close"
    fn = _fn(_cls(_parse(pool_py), "_PooledTransport", site), "close", site)
    assigns = [n for n in ast.walk(fn) if isinstance(n, ast.Assign) and len(n.targets) == 1 and isinstance(n.targets[0], ast.Name) and n.targets[0].id == "stream_abandoned"]
    if len(assigns) != 1:
        raise TranslationBroken(site, f"{len(assigns)} assignments to stream_abandoned")
    calls = [
        n
        for n in ast.walk(fn)
        if isinstance(n, ast.Call) and isinstance(n.func, ast.Attribute) and n.func.attr == "_return_worker"
    ]
    if len(calls) != 1 or len(calls[0].args) != 2 or not (isinstance(calls[0].args[1], ast.Name) and calls[0].args[1].id == "stream_abandoned"):
        raise TranslationBroken(site, "stream_abandoned is not what close() passes to _return_worker")
    if not _is_self_attr(calls[0].args[0], "_inner"):
        raise TranslationBroken(site, "close() does not return self._inner")
    # the flags must still be intact when the expression is evaluated: nothing but _returned/_shm is assigned before it
    for st in fn.body:
        if st is assigns[0]:
            break
        for n in ast.walk(st):
            if isinstance(n, (ast.Assign, ast.AugAssign)):
                tg = n.targets[0] if isinstance(n, ast.Assign) else n.target
                if not (isinstance(tg, ast.Attribute) and tg.attr in ("_returned", "_shm")):
                    raise TranslationBroken(site, "unexpected assignment in front of stream_abandoned")
    return _abandoned(assigns[0].value, site, False)


# ---- _return_worker --------------------------------------------------------------------------------
def _guard(e: ast.AST, site: str) -> str:
    """Expression over self._closed / self._max_idle -> Coq bool over (closed : bool) (m : nat)."""
    if isinstance(e, ast.BoolOp):
        op = " || " if isinstance(e.op, ast.Or) else " && "
        return "(" + op.join(_guard(v, site) for v in e.values) + ")"
    if isinstance(e, ast.UnaryOp) and isinstance(e.op, ast.Not):
        return f"negb {_guard(e.operand, site)}"
    if _is_self_attr(e, "_closed"):
        return "closed"
    if isinstance(e, ast.Compare) and len(e.ops) == 1 and _is_self_attr(e.left, "_max_idle") and isinstance(e.comparators[0], ast.Constant) and type(e.comparators[0].value) is int:
        c = e.comparators[0].value
        if not 0 <= c < 1000:
            raise TranslationBroken(site, "constant out of range")
        table = {ast.Eq: f"Nat.eqb m {c}", ast.LtE: f"Nat.leb m {c}", ast.Lt: f"Nat.ltb m {c}", ast.GtE: f"Nat.leb {c} m", ast.Gt: f"Nat.ltb {c} m", ast.NotEq: f"negb (Nat.eqb m {c})"}
        t = table.get(type(e.ops[0]))
        if t is not None:
            return f"({t})"
    raise TranslationBroken(site, f"unsupported guard {ast.dump(e)[:120]}")


def _evict_guard(e: ast.AST, site: str) -> str:
    if isinstance(e, ast.Compare) and len(e.ops) == 1 and isinstance(e.left, ast.Name) and e.left.id == "total_idle" and _is_self_attr(e.comparators[0], "_max_idle"):
        table = {ast.GtE: "Nat.leb m total", ast.Gt: "Nat.ltb m total", ast.Eq: "Nat.eqb total m"}
        t = table.get(type(e.ops[0]))
        if t is not None:
            return t
    raise TranslationBroken(site, f"unsupported evict guard {ast.dump(e)[:120]}")


def _is_lock_with(n: ast.AST) -> bool:
    return isinstance(n, ast.With) and len(n.items) == 1 and _is_self_attr(n.items[0].context_expr, "_lock")


def return_worker_guards(pool_py: Path) -> tuple[str, str]:
    site = f"{pool_py}:WorkerPool._return_worker"
    tree = _parse(pool_py)
    cls = _cls(tree, "WorkerPool", site)
    fn = _fn(cls, "_return_worker", site)
    withs = [n for n in fn.body if _is_lock_with(n)]
    if len(withs) != 1:
        raise TranslationBroken(site, f"expected one top-level locked section, found {len(withs)}")
    body = [s for s in withs[0].body if not (isinstance(s, ast.Expr) and isinstance(s.value, ast.Call) and isinstance(s.value.func, ast.Attribute) and isinstance(s.value.func.value, ast.Name) and s.value.func.value.id == "_logger")]
    if len(body) != 8:
        raise TranslationBroken(site, f"locked section has {len(body)} statements, expected 8")
    dec, disc, key, total, ev, dq, app, ret = body
    if not (isinstance(dec, ast.AugAssign) and _is_self_attr(dec.target, "_active") and isinstance(dec.op, ast.Sub)):
        raise TranslationBroken(site, "statement 1 is not `self._active -= 1`")
    if not (isinstance(disc, ast.If) and not disc.orelse and isinstance(disc.body[-1], ast.Return) and any(isinstance(n, ast.Call) and isinstance(n.func, ast.Attribute) and n.func.attr == "close" for s in disc.body for n in ast.walk(s))):
        raise TranslationBroken(site, "statement 2 is not the discard branch (close + return)")
    if not (isinstance(key, ast.Assign) and isinstance(key.targets[0], ast.Name) and key.targets[0].id == "key"):
        raise TranslationBroken(site, "statement 3 is not `key = ...`")
    if not (isinstance(total, ast.Assign) and isinstance(total.targets[0], ast.Name) and total.targets[0].id == "total_idle" and ast.unparse(total.value) == "sum((len(d) for d in self._idle.values()))"):
        raise TranslationBroken(site, "statement 4 is not `total_idle = sum(len(d) for d in self._idle.values())`")
    if not (isinstance(ev, ast.If) and not ev.orelse and len(ev.body) == 1 and ast.unparse(ev.body[0]) == "evicted = self._evict_oldest_locked()"):
        raise TranslationBroken(site, "statement 5 is not `if ...: evicted = self._evict_oldest_locked()`")
    if ast.unparse(dq) != "dq = self._idle.setdefault(key, deque())":
        raise TranslationBroken(site, "statement 6 is not the setdefault")
    if not ast.unparse(app).startswith("dq.append(_IdleEntry(key=key, transport=transport, returned_at=time.monotonic()))"):
        raise TranslationBroken(site, "statement 7 is not the append of the returned worker")
    if ast.unparse(ret) != "self._returns += 1":
        raise TranslationBroken(site, "statement 8 is not `self._returns += 1`")
    # constructor rejects negative max_idle (the model's max_idle is a nat)
    init = _fn(cls, "__init__", site)
    if not any(isinstance(n, ast.If) and ast.unparse(n.test) == "max_idle < 0" and isinstance(n.body[0], ast.Raise) for n in init.body):
        raise TranslationBroken(site, "constructor does not reject max_idle < 0")
    return _guard(disc.test, site), _evict_guard(ev.test, site)


# ---- client tracking -------------------------------------------------------------------------------
_IGNORED_NARROW = {"BrokenPipeError", "ConnectionResetError", "ConnectionAbortedError", "ConnectionError", "EOFError", "TimeoutError"}


def _classes(nodes: list[ast.AST], site: str) -> tuple[set[str], bool]:
    """exception class expressions -> (subset of {XPlain, XOs, XRpc, XArrow} they catch, StopIteration caught?)"""
    out: set[str] = set()
    stop = False
    for n in nodes:
        name = n.id if isinstance(n, ast.Name) else (ast.unparse(n) if isinstance(n, ast.Attribute) else None)
        if name is None:
            raise TranslationBroken(site, f"unsupported exception class expression {ast.dump(n)[:80]}")
        if name == "StopIteration":
            stop = True
        elif name in ("Exception", "BaseException"):
            out |= {"XPlain", "XOs", "XRpc", "XArrow"}
            stop = True
        elif name == "OSError":
            out.add("XOs")
        elif name == "RpcError":
            out.add("XRpc")
        elif name in ("pa.ArrowInvalid", "ArrowInvalid", "_TRANSPORT_ERRORS"):
            out.add("XArrow")
        elif name in _IGNORED_NARROW:
            pass  # narrower than the plain OSError the model's XOs stands for
        else:
            raise TranslationBroken(site, f"exception class {name} is not one the model distinguishes")
    return out, stop


def drain_shape(client_py: Path, method: str) -> tuple[set[str], bool, bool]:
    """The drain loop at the end of StreamSession.close / .cancel.

    Returns (classes swallowed, is _drained set although a swallowed exception ended the loop, does the method
    maintain _drained at all).  Two shapes are accepted:

      with contextlib.suppress(<classes>):      try:
          for ...: <drain>                          for ...: <drain>
      ...                                       except StopIteration:
      self._drained = True                          self._drained = True
                                                except (<classes>):
                                                    pass            # or: self._drained = True
    """
    site = f"{client_py}:StreamSession.{method}:drain"
    fn = _fn(_cls(_parse(client_py), "StreamSession", site), method, site)
    at = [i for i, st in enumerate(fn.body) if "_read_batch_with_log_check" in ast.unparse(st)]
    if len(at) != 1:
        raise TranslationBroken(site, f"expected exactly one top-level statement draining the output, found {len(at)}")
    st = fn.body[at[0]]
    total_sets = ast.unparse(fn).count("self._drained = True")
    if any(isinstance(n, (ast.Assign, ast.AugAssign, ast.AnnAssign)) and "_drained" in ast.unparse(n) and ast.unparse(n) != "self._drained = True" for n in ast.walk(fn)):
        raise TranslationBroken(site, "_drained is assigned something other than True")

    def is_loop(body: list[ast.stmt]) -> bool:
        return len(body) == 1 and isinstance(body[0], ast.For) and not body[0].orelse and "_read_batch_with_log_check" in ast.unparse(body[0]) and "_drained" not in ast.unparse(body[0])

    if isinstance(st, ast.With):
        if len(st.items) != 1 or not (isinstance(st.items[0].context_expr, ast.Call) and ast.unparse(st.items[0].context_expr.func) in ("contextlib.suppress", "suppress")) or st.items[0].context_expr.keywords:
            raise TranslationBroken(site, "drain loop is not under contextlib.suppress(...)")
        if not is_loop(st.body):
            raise TranslationBroken(site, "the suppress block is not just the drain loop")
        classes, stop = _classes(list(st.items[0].context_expr.args), site)
        if not stop:
            raise TranslationBroken(site, "StopIteration (end of stream) is not handled by the drain")
        after = [i for i, x in enumerate(fn.body) if ast.unparse(x) == "self._drained = True"]
        if total_sets != len(after) or len(after) > 1 or (after and after[0] < at[0]):
            raise TranslationBroken(site, "_drained = True is set somewhere other than once, at top level, after the drain loop")
        if any(isinstance(x, ast.Return) for x in fn.body[at[0] : (after[0] if after else at[0])]):
            raise TranslationBroken(site, "return between the drain loop and _drained = True")
        # no _drained at all (source before the repair): "closed" is all the pool looks at, i.e. as good as marked
        return classes, True, bool(after)
    if isinstance(st, ast.Try):
        if st.orelse or st.finalbody or not is_loop(st.body):
            raise TranslationBroken(site, "try around the drain loop has an else/finally or more than the loop")
        classes: set[str] = set()
        marks_: list[bool] = []
        stop_sets = False
        seen_sets = 0
        for h in st.handlers:
            if h.type is None:
                raise TranslationBroken(site, "bare except around the drain loop")
            nodes = list(h.type.elts) if isinstance(h.type, ast.Tuple) else [h.type]
            body = [ast.unparse(x) for x in h.body]
            if body not in (["pass"], ["self._drained = True"]):
                raise TranslationBroken(site, f"handler body {body} is neither `pass` nor `self._drained = True`")
            sets_here = body == ["self._drained = True"]
            seen_sets += sets_here
            if len(nodes) == 1 and ast.unparse(nodes[0]) == "StopIteration":
                stop_sets = sets_here
                continue
            cl, stop = _classes(nodes, site)
            if stop:
                raise TranslationBroken(site, "StopIteration shares a handler with other classes")
            classes |= cl
            marks_.append(sets_here)
        if not any(len(([*h.type.elts] if isinstance(h.type, ast.Tuple) else [h.type])) == 1 and ast.unparse(h.type) == "StopIteration" for h in st.handlers):
            raise TranslationBroken(site, "StopIteration (end of stream) is not handled by the drain")
        if total_sets != seen_sets:
            raise TranslationBroken(site, "_drained = True is also set outside the handlers of the drain loop")
        if len(set(marks_)) > 1:
            raise TranslationBroken(site, "handlers disagree on setting _drained")
        if not stop_sets and seen_sets:
            raise TranslationBroken(site, "_drained is set on an exception but not at the end of the stream")
        return classes, bool(marks_ and marks_[0]), stop_sets
    raise TranslationBroken(site, f"unsupported drain statement {type(st).__name__}")


def _swallow_fn(name: str, classes: set[str]) -> str:
    arms = " | ".join(f"{c} => {'true' if c in classes else 'false'}" for c in ("XPlain", "XOs", "XRpc", "XArrow"))
    return f"Definition {name} (x : xcls) : bool := match x with {arms} end.\n"


def client_tracks(client_py: Path, pool_py: Path) -> bool:
    """True iff the client marks calls in flight (both callers) and sessions drained (close and cancel);
    False iff it does none of it; anything in between is a broken translation."""
    site = f"{client_py}:tracking"
    tree = _parse(client_py)
    proxy = _cls(tree, "_RpcProxy", site)
    sess = _cls(tree, "StreamSession", site)
    marks = []
    for maker in ("_make_unary_caller", "_make_stream_caller"):
        caller = _fn(_fn(proxy, maker, site), "caller", site)
        src = ast.unparse(caller)
        marks.append("_mark_in_flight(transport, True)" in src and src.count("_mark_in_flight(transport, in_flight)") >= 1)
    for m in ("close", "cancel"):
        marks.append(drain_shape(client_py, m)[2])
    slots = "_call_in_flight" in ast.unparse(_cls(_parse(pool_py), "_PooledTransport", site))
    marks.append(slots)
    helper = any(isinstance(n, ast.FunctionDef) and n.name == "_mark_in_flight" for n in tree.body)
    marks.append(helper)
    if all(marks):
        return True
    if not any(marks):
        return False
    raise TranslationBroken(site, f"partial tracking of in-flight calls / drained sessions: {marks}")


def gen_pool(repo: Path) -> str:
    pool_py = repo / "vgi_rpc" / "pool.py"
    client_py = repo / "vgi_rpc" / "rpc" / "_client.py"
    ab = abandoned_expr(pool_py)
    disc, ev = return_worker_guards(pool_py)
    tr = client_tracks(client_py, pool_py)
    ccl, cmark, _ = drain_shape(client_py, "close")
    xcl, xmark, _ = drain_shape(client_py, "cancel")
    return (
        "From Coq Require Import List Arith Bool.\nFrom VGI Require Import M_Pool.\n"
        f"Definition gen_abandoned (f : flags) : bool := {ab}.\n"
        f"Definition gen_discard (closed : bool) (m : nat) : bool := {disc}.\n"
        f"Definition gen_evict (total m : nat) : bool := {ev}.\n"
        f"Definition gen_track : bool := {'true' if tr else 'false'}.\n"
        + _swallow_fn("gen_close_swallow", ccl)
        + _swallow_fn("gen_cancel_swallow", xcl)
        + f"Definition gen_drains : drains := mkDrains gen_close_swallow {'true' if cmark else 'false'} gen_cancel_swallow {'true' if xmark else 'false'}.\n"
        "Definition gen_cfg : cfg := mkCfg gen_abandoned gen_discard gen_evict gen_track gen_drains.\n"
    )
