"""Fail-closed translator for C39: the hashed payload and the describe rows of vgi_rpc/introspect.py.

Reads (Python ``ast`` only, nothing is imported or executed):

* ``compute_protocol_hash``: a straight-line sequence of ``h.update(e)`` followed by one
  ``for i in range(n)`` whose body is again ``h.update(e)`` statements (plus ``v = col[i].as_py()`` bindings and
  ``if v is not None: h.update(v)``)  ->  ``M_Introspect.hash_table`` (``pitem`` list + ``hitem`` list);
* ``build_describe_batch``: the ``for name, info in sorted(methods.items())`` loop of ``xs.append(e)`` statements and
  the ``from_pydict({...})`` column mapping  ->  ``M_Introspect.build_table``;
* ``_DESCRIBE_FIELDS``  ->  list of (column, arrow type, explicit ``nullable=True``);
* ``DESCRIBE_VERSION`` (introspect.py), ``REQUEST_VERSION`` (metadata.py), ``MethodType`` values (rpc/_common.py).

Every shape outside the ones listed in the functions below raises ``TranslationBroken``.
"""
from __future__ import annotations

import ast
from pathlib import Path

from vlib.core import TranslationBroken

COLS = {
    "name": "CName",
    "method_type": "CMethodType",
    "has_return": "CHasReturn",
    "params_schema_ipc": "CParams",
    "result_schema_ipc": "CResult",
    "has_header": "CHasHeader",
    "header_schema_ipc": "CHeader",
    "is_exchange": "CIsExchange",
}
CTYPES = {"pa.utf8()": "TUtf8", "pa.string()": "TUtf8", "pa.bool_()": "TBool", "pa.binary()": "TBinary"}

# the only right-hand sides build_describe_batch may append, by exact source text
BEXPRS = {
    "name": "BName",
    "info.method_type.value": "BKindValue",
    "info.has_return": "BHasReturn",
    "info.params_schema.serialize().to_pybytes()": "BParamsSer",
    "info.result_schema.serialize().to_pybytes()": "BResultSer",
    "info.header_type is not None": "BHeaderIsSome",
    "info.header_type.ARROW_SCHEMA.serialize().to_pybytes() if info.header_type is not None else None": "BHeaderSerOpt",
    "info.is_exchange": "BIsExchange",
}
BEXPR_CTYPE = {
    "BName": "TUtf8", "BKindValue": "TUtf8", "BHasReturn": "TBool", "BParamsSer": "TBinary", "BResultSer": "TBinary",
    "BHeaderIsSome": "TBool", "BHeaderSerOpt": "TBinary", "BIsExchange": "TBool",
}
BEXPR_MAY_BE_NONE = {"BHeaderSerOpt", "BIsExchange"}


def cbytes(b: bytes) -> str:
    return "([" + "; ".join(str(x) for x in b) + "]%N : list N)"


def _parse(path: Path) -> ast.Module:
    try:
        return ast.parse(path.read_text())
    except (OSError, SyntaxError) as e:
        raise TranslationBroken(str(path), f"cannot parse: {e}") from e


def _func(tree: ast.Module, name: str, site: str) -> ast.FunctionDef:
    found = [n for n in tree.body if isinstance(n, ast.FunctionDef) and n.name == name]
    if len(found) != 1:
        raise TranslationBroken(site, f"expected exactly one module-level def {name}, found {len(found)}")
    return found[0]


def _module_const(tree: ast.Module, name: str, typ: type, site: str) -> str | bytes:
    hits = []
    for n in tree.body:
        tgt = None
        if isinstance(n, ast.Assign) and len(n.targets) == 1 and isinstance(n.targets[0], ast.Name):
            tgt, val = n.targets[0].id, n.value
        elif isinstance(n, ast.AnnAssign) and isinstance(n.target, ast.Name) and n.value is not None:
            tgt, val = n.target.id, n.value
        if tgt == name:
            hits.append(val)
    if len(hits) != 1 or not isinstance(hits[0], ast.Constant) or not isinstance(hits[0].value, typ):
        raise TranslationBroken(site, f"{name} is not a single module-level {typ.__name__} literal")
    return hits[0].value


def _body_without_docstring(fn: ast.FunctionDef) -> list[ast.stmt]:
    body = list(fn.body)
    if body and isinstance(body[0], ast.Expr) and isinstance(body[0].value, ast.Constant) and isinstance(body[0].value.value, str):
        body = body[1:]
    return body


# ---------------------------------------------------------------------------
# _DESCRIBE_FIELDS
# ---------------------------------------------------------------------------


def describe_fields(tree: ast.Module, site: str) -> list[tuple[str, str, bool]]:
    val = None
    for n in tree.body:
        if isinstance(n, ast.AnnAssign) and isinstance(n.target, ast.Name) and n.target.id == "_DESCRIBE_FIELDS":
            val = n.value
        elif isinstance(n, ast.Assign) and len(n.targets) == 1 and isinstance(n.targets[0], ast.Name) and n.targets[0].id == "_DESCRIBE_FIELDS":
            val = n.value
    if not isinstance(val, ast.List):
        raise TranslationBroken(site, "_DESCRIBE_FIELDS is not a list literal")
    out = []
    for e in val.elts:
        if not (isinstance(e, ast.Call) and ast.unparse(e.func) == "pa.field" and len(e.args) == 2 and isinstance(e.args[0], ast.Constant) and isinstance(e.args[0].value, str)):
            raise TranslationBroken(site, f"unexpected field {ast.unparse(e)[:80]}")
        cname, ty = e.args[0].value, ast.unparse(e.args[1])
        if cname not in COLS or ty not in CTYPES:
            raise TranslationBroken(site, f"unknown column or type in {ast.unparse(e)[:80]}")
        nullable = False
        for k in e.keywords:
            if k.arg == "nullable" and isinstance(k.value, ast.Constant) and isinstance(k.value.value, bool):
                nullable = k.value.value
            else:
                raise TranslationBroken(site, f"unexpected keyword in {ast.unparse(e)[:80]}")
        out.append((COLS[cname], CTYPES[ty], nullable))
    if len({c for c, _, _ in out}) != len(out):
        raise TranslationBroken(site, "duplicate column")
    # _DESCRIBE_SCHEMA = pa.schema(_DESCRIBE_FIELDS)
    ok = any(
        isinstance(n, ast.Assign) and len(n.targets) == 1 and ast.unparse(n.targets[0]) == "_DESCRIBE_SCHEMA" and ast.unparse(n.value) == "pa.schema(_DESCRIBE_FIELDS)"
        for n in tree.body
    )
    if not ok:
        raise TranslationBroken(site, "_DESCRIBE_SCHEMA is not pa.schema(_DESCRIBE_FIELDS)")
    return out


# ---------------------------------------------------------------------------
# build_describe_batch
# ---------------------------------------------------------------------------


def build_table(tree: ast.Module, fields: list[tuple[str, str, bool]], site: str) -> tuple[bool, list[tuple[str, str]]]:
    fn = _func(tree, "build_describe_batch", site)
    argnames = [a.arg for a in fn.args.args]
    if argnames != ["protocol_name", "methods", "server_id", "protocol_version"] or fn.args.vararg or fn.args.kwarg or fn.args.kwonlyargs:
        raise TranslationBroken(site, f"unexpected signature {argnames}")
    body = _body_without_docstring(fn)
    lists: list[str] = []
    i = 0
    while i < len(body) and isinstance(body[i], ast.AnnAssign):
        st = body[i]
        assert isinstance(st, ast.AnnAssign)
        if not (isinstance(st.target, ast.Name) and isinstance(st.value, ast.List) and not st.value.elts):
            raise TranslationBroken(site, f"unexpected statement {ast.unparse(st)[:80]}")
        lists.append(st.target.id)
        i += 1
    if i >= len(body) or not isinstance(body[i], ast.For):
        raise TranslationBroken(site, "expected the per-method for loop after the list declarations")
    loop = body[i]
    assert isinstance(loop, ast.For)
    if ast.unparse(loop.target) != "(name, info)" and ast.unparse(loop.target) != "name, info":
        raise TranslationBroken(site, f"unexpected loop target {ast.unparse(loop.target)}")
    it = ast.unparse(loop.iter)
    if it == "sorted(methods.items())":
        is_sorted = True
    elif it == "methods.items()":
        is_sorted = False
    else:
        raise TranslationBroken(site, f"unexpected iteration {it}")
    if loop.orelse:
        raise TranslationBroken(site, "for ... else")
    appended: dict[str, str] = {}
    for st in loop.body:
        if not (isinstance(st, ast.Expr) and isinstance(st.value, ast.Call) and isinstance(st.value.func, ast.Attribute) and st.value.func.attr == "append"
                and isinstance(st.value.func.value, ast.Name) and len(st.value.args) == 1 and not st.value.keywords):
            raise TranslationBroken(site, f"unexpected loop statement {ast.unparse(st)[:80]}")
        lst = st.value.func.value.id
        src = ast.unparse(st.value.args[0])
        if lst not in lists or lst in appended:
            raise TranslationBroken(site, f"append to unknown or repeated list {lst}")
        if src not in BEXPRS:
            raise TranslationBroken(site, f"unexpected appended expression {src[:100]}")
        appended[lst] = BEXPRS[src]
    if set(appended) != set(lists):
        raise TranslationBroken(site, "a declared list is never appended to")
    i += 1
    if i >= len(body):
        raise TranslationBroken(site, "missing from_pydict")
    st = body[i]
    if not (isinstance(st, ast.Assign) and ast.unparse(st.targets[0]) == "batch" and isinstance(st.value, ast.Call)
            and ast.unparse(st.value.func) == "pa.RecordBatch.from_pydict" and len(st.value.args) == 1 and isinstance(st.value.args[0], ast.Dict)
            and [(k.arg, ast.unparse(k.value)) for k in st.value.keywords] == [("schema", "_DESCRIBE_SCHEMA")]):
        raise TranslationBroken(site, f"unexpected statement after the loop: {ast.unparse(st)[:80]}")
    d = st.value.args[0]
    table: list[tuple[str, str]] = []
    for k, v in zip(d.keys, d.values):
        if not (isinstance(k, ast.Constant) and isinstance(k.value, str) and k.value in COLS and isinstance(v, ast.Name) and v.id in appended):
            raise TranslationBroken(site, "unexpected from_pydict entry")
        table.append((COLS[k.value], appended[v.id]))
    if len({c for c, _ in table}) != len(table) or {c for c, _ in table} != {c for c, _, _ in fields}:
        raise TranslationBroken(site, "from_pydict columns differ from _DESCRIBE_FIELDS")
    ftypes = {c: t for c, t, _ in fields}
    for c, e in table:
        if BEXPR_CTYPE[e] != ftypes[c]:
            raise TranslationBroken(site, f"column {c} of type {ftypes[c]} is filled with {e}")
    i += 1
    # protocol_hash = compute_protocol_hash(protocol_name, batch)  -- on the batch just built
    if i >= len(body) or ast.unparse(body[i]) != "protocol_hash = compute_protocol_hash(protocol_name, batch)":
        raise TranslationBroken(site, "the hash is not compute_protocol_hash(protocol_name, batch) of the batch just built")
    # nothing later may rebind batch / protocol_hash / protocol_name
    for later in body[i + 1:]:
        for n in ast.walk(later):
            if isinstance(n, ast.Name) and isinstance(n.ctx, ast.Store) and n.id in ("batch", "protocol_hash", "protocol_name", "methods"):
                raise TranslationBroken(site, f"{n.id} is rebound after the hash was computed")
    return is_sorted, table


# ---------------------------------------------------------------------------
# compute_protocol_hash
# ---------------------------------------------------------------------------


def _bytes_const(e: ast.expr) -> bytes | None:
    if isinstance(e, ast.Constant) and isinstance(e.value, bytes):
        return e.value
    return None


def hash_table(tree: ast.Module, consts: dict[str, bytes], str_consts: dict[str, str], fields: list[tuple[str, str, bool]],
               table: list[tuple[str, str]], site: str) -> tuple[list[str], list[str]]:
    fn = _func(tree, "compute_protocol_hash", site)
    if [a.arg for a in fn.args.args] != ["protocol_name", "batch"] or fn.args.vararg or fn.args.kwarg or fn.args.kwonlyargs:
        raise TranslationBroken(site, "unexpected signature")
    body = _body_without_docstring(fn)
    ftypes = {c: t for c, t, _ in fields}
    bexpr = dict(table)
    pre: list[str] = []
    cols: dict[str, str] = {}
    have_h = False
    n_var: str | None = None
    i = 0

    def is_update(st: ast.stmt) -> ast.expr | None:
        if (isinstance(st, ast.Expr) and isinstance(st.value, ast.Call) and ast.unparse(st.value.func) == "h.update"
                and len(st.value.args) == 1 and not st.value.keywords):
            return st.value.args[0]
        return None

    while i < len(body):
        st = body[i]
        src = ast.unparse(st)
        if src == "import hashlib" and not have_h:
            pass
        elif src == "h = hashlib.sha256()" and not have_h:
            have_h = True
        elif (e := is_update(st)) is not None:
            if not have_h:
                raise TranslationBroken(site, "h.update before h = hashlib.sha256()")
            b = _bytes_const(e)
            es = ast.unparse(e)
            if b is not None:
                pre.append(f"PConst {cbytes(b)}")
            elif es == "protocol_name.encode()":
                pre.append("PName")
            elif isinstance(e, ast.Name) and e.id in consts:
                pre.append(f"PConst gen_{e.id.lower()}")
            elif es.endswith(".encode()") and es[: -len(".encode()")] in str_consts:
                pre.append(f"PConst gen_{es[: -len('.encode()')].lower()}")
            else:
                raise TranslationBroken(site, f"unsupported h.update argument {es[:80]}")
        elif isinstance(st, ast.Assign) and len(st.targets) == 1 and isinstance(st.targets[0], ast.Name):
            tgt = st.targets[0].id
            v = ast.unparse(st.value)
            if v == "batch.num_rows" and n_var is None:
                n_var = tgt
            elif (isinstance(st.value, ast.Call) and ast.unparse(st.value.func) == "batch.column" and len(st.value.args) == 1
                  and isinstance(st.value.args[0], ast.Constant) and st.value.args[0].value in COLS and tgt not in cols and tgt not in ("h", "batch", "protocol_name")):
                cols[tgt] = COLS[st.value.args[0].value]
            else:
                raise TranslationBroken(site, f"unsupported assignment {src[:80]}")
        elif isinstance(st, ast.For):
            break
        else:
            raise TranslationBroken(site, f"unsupported statement {src[:80]}")
        i += 1
    if i >= len(body) or not have_h:
        raise TranslationBroken(site, "no for loop / no hash object")
    loop = body[i]
    assert isinstance(loop, ast.For)
    if not (isinstance(loop.target, ast.Name) and n_var is not None and ast.unparse(loop.iter) == f"range({n_var})" and not loop.orelse):
        raise TranslationBroken(site, f"loop is not `for i in range(<batch.num_rows>)`: {ast.unparse(loop.iter)}")
    iv = loop.target.id
    if [ast.unparse(s) for s in body[i + 1:]] != ["return h.hexdigest()"]:
        raise TranslationBroken(site, "the loop must be followed by `return h.hexdigest()` only")

    def cell(e: ast.expr) -> str | None:
        """col for `<col_var>[i].as_py()`."""
        if (isinstance(e, ast.Call) and not e.args and not e.keywords and isinstance(e.func, ast.Attribute) and e.func.attr == "as_py"
                and isinstance(e.func.value, ast.Subscript) and isinstance(e.func.value.value, ast.Name) and e.func.value.value.id in cols
                and isinstance(e.func.value.slice, ast.Name) and e.func.value.slice.id == iv):
            return cols[e.func.value.value.id]
        return None

    def need(c: str, ty: str, non_null: bool, what: str) -> None:
        if ftypes.get(c) != ty:
            raise TranslationBroken(site, f"{what}: column {c} has type {ftypes.get(c)}, needs {ty}")
        if non_null and bexpr[c] in BEXPR_MAY_BE_NONE:
            raise TranslationBroken(site, f"{what}: column {c} may hold None")

    items: list[str] = []
    tmp: dict[str, str] = {}

    def bool_choice(e: ast.expr) -> tuple[ast.expr, bytes, bytes] | None:
        if isinstance(e, ast.IfExp):
            t, f = _bytes_const(e.body), _bytes_const(e.orelse)
            if t is not None and f is not None:
                return e.test, t, f
        return None

    for st in loop.body:
        src = ast.unparse(st)
        e = is_update(st)
        if e is not None:
            b = _bytes_const(e)
            c = cell(e)
            if b is not None:
                items.append(f"HConst {cbytes(b)}")
            elif c is not None:
                need(c, "TBinary", True, src)
                items.append(f"HBin {c}")
            elif isinstance(e, ast.Call) and not e.args and not e.keywords and isinstance(e.func, ast.Attribute) and e.func.attr == "encode" and (c := cell(e.func.value)) is not None:
                need(c, "TUtf8", True, src)
                items.append(f"HStr {c}")
            elif (bc := bool_choice(e)) is not None and (c := cell(bc[0])) is not None:
                need(c, "TBool", True, src)
                items.append(f"HBool {c} {cbytes(bc[1])} {cbytes(bc[2])}")
            elif (isinstance(e, ast.IfExp) and (nb := _bytes_const(e.body)) is not None and isinstance(e.test, ast.Compare)
                  and isinstance(e.test.left, ast.Name) and e.test.left.id in tmp and len(e.test.ops) == 1 and isinstance(e.test.ops[0], ast.Is)
                  and isinstance(e.test.comparators[0], ast.Constant) and e.test.comparators[0].value is None
                  and (bc := bool_choice(e.orelse)) is not None and isinstance(bc[0], ast.Name) and bc[0].id == e.test.left.id):
                c = tmp[e.test.left.id]
                need(c, "TBool", False, src)
                items.append(f"HTri {c} {cbytes(nb)} {cbytes(bc[1])} {cbytes(bc[2])}")
            else:
                raise TranslationBroken(site, f"unsupported h.update argument in loop: {ast.unparse(e)[:100]}")
        elif isinstance(st, ast.Assign) and len(st.targets) == 1 and isinstance(st.targets[0], ast.Name) and (c := cell(st.value)) is not None:
            name = st.targets[0].id
            if name in cols or name in ("h", "batch", "protocol_name", iv, n_var):
                raise TranslationBroken(site, f"loop rebinds {name}")
            tmp[name] = c
        elif (isinstance(st, ast.If) and not st.orelse and len(st.body) == 1 and isinstance(st.test, ast.Compare) and isinstance(st.test.left, ast.Name)
              and st.test.left.id in tmp and len(st.test.ops) == 1 and isinstance(st.test.ops[0], ast.IsNot)
              and isinstance(st.test.comparators[0], ast.Constant) and st.test.comparators[0].value is None
              and (u := is_update(st.body[0])) is not None and isinstance(u, ast.Name) and u.id == st.test.left.id):
            c = tmp[st.test.left.id]
            need(c, "TBinary", False, src)
            items.append(f"HOptBin {c}")
        else:
            raise TranslationBroken(site, f"unsupported loop statement {src[:100]}")
    return pre, items


# ---------------------------------------------------------------------------
# MethodType
# ---------------------------------------------------------------------------


def method_type_values(path: Path) -> tuple[bytes, bytes]:
    site = f"{path}:MethodType"
    tree = _parse(path)
    cls = [n for n in tree.body if isinstance(n, ast.ClassDef) and n.name == "MethodType"]
    if len(cls) != 1 or [ast.unparse(b) for b in cls[0].bases] != ["Enum"]:
        raise TranslationBroken(site, "MethodType is not a single Enum class")
    members: dict[str, str] = {}
    for st in cls[0].body:
        if isinstance(st, ast.Expr) and isinstance(st.value, ast.Constant) and isinstance(st.value.value, str):
            continue
        if isinstance(st, ast.Assign) and len(st.targets) == 1 and isinstance(st.targets[0], ast.Name) and isinstance(st.value, ast.Constant) and isinstance(st.value.value, str):
            members[st.targets[0].id] = st.value.value
        else:
            raise TranslationBroken(site, f"unexpected member {ast.unparse(st)[:60]}")
    if set(members) != {"UNARY", "STREAM"}:
        raise TranslationBroken(site, f"members are {sorted(members)}, the model has UNARY and STREAM")
    return members["UNARY"].encode(), members["STREAM"].encode()


# ---------------------------------------------------------------------------
# entry point
# ---------------------------------------------------------------------------


def coq_text(repo: Path) -> str:
    intro = repo / "vgi_rpc" / "introspect.py"
    meta = repo / "vgi_rpc" / "metadata.py"
    common = repo / "vgi_rpc" / "rpc" / "_common.py"
    site = str(intro)
    tree = _parse(intro)
    dv = _module_const(tree, "DESCRIBE_VERSION", str, site)
    rv = _module_const(_parse(meta), "REQUEST_VERSION", bytes, str(meta))
    assert isinstance(dv, str) and isinstance(rv, bytes)
    # REQUEST_VERSION must be the imported one, DESCRIBE_VERSION the local one
    imported = {a.asname or a.name for n in tree.body if isinstance(n, ast.ImportFrom) and n.module == "vgi_rpc.metadata" for a in n.names}
    if "REQUEST_VERSION" not in imported:
        raise TranslationBroken(site, "REQUEST_VERSION is not imported from vgi_rpc.metadata")
    fields = describe_fields(tree, site)
    is_sorted, table = build_table(tree, fields, site)
    pre, items = hash_table(tree, {"REQUEST_VERSION": rv}, {"DESCRIBE_VERSION": dv}, fields, table, site)
    mu, ms = method_type_values(common)
    out = [
        "From Coq Require Import List NArith Bool.",
        "From VGI Require Import Bytes M_Introspect.",
        "Import ListNotations.",
        "Open Scope N_scope.",
        f"Definition gen_describe_version : bytes := {cbytes(dv.encode())}.",
        f"Definition gen_request_version : bytes := {cbytes(rv)}.",
        f"Definition gen_mt_unary : bytes := {cbytes(mu)}.",
        f"Definition gen_mt_stream : bytes := {cbytes(ms)}.",
        "Definition gen_describe_fields : list (col * ctype * bool) :=\n  [ " + ";\n    ".join(f"({c}, {t}, {'true' if n else 'false'})" for c, t, n in fields) + " ].",
        "Definition gen_build_table : build_table :=\n  MkBuild " + ("true" if is_sorted else "false") + "\n  [ " + ";\n    ".join(f"({c}, {e})" for c, e in table) + " ].",
        "Definition gen_hash_table : hash_table :=\n  MkHash\n  [ " + ";\n    ".join(pre) + " ]\n  [ " + ";\n    ".join(items) + " ].",
    ]
    return "\n".join(out) + "\n"
