"""Fail-closed translator for the gate-level part of C23 (vgi_rpc/http/_proof.py).

Extracts, as data for coq/gen/G_NonceGate.v:

  * the expression ``proxy_proof_gate`` passes as ``ttl_seconds=`` to ``NonceCache`` -- accepted grammar: a linear
    form ``mul * config.skew_seconds + add`` with non-negative integer literals (any nesting of ``*`` by a literal and
    ``+`` of a literal);
  * the two comparison operators of ``verify_proof``'s timestamp step
    (``age = current - int(ts_raw)``; ``if age <op> skew_seconds: expired``; ``if -age <op> skew_seconds: not_yet_valid``);

and checks the glue the gate-level theorem relies on: the gate hands ``config.skew_seconds`` and that very cache to
``verify_proof``, ``current`` is whole seconds, and the nonce step comes after the timestamp step.
"""
from __future__ import annotations

import ast
from pathlib import Path
from typing import Any

from vlib.core import TranslationBroken

SITE = "vgi_rpc/http/_proof.py"
_CMP = {ast.Lt: "CLt", ast.LtE: "CLe", ast.Gt: "CGt", ast.GtE: "CGe", ast.Eq: "CEq", ast.NotEq: "CNe"}


def _d(src: str, mode: str = "exec") -> str:
    t = ast.parse(src, mode=mode)
    return ast.dump(t.body if mode == "eval" else t.body[0])


def _func(tree: ast.Module, name: str) -> ast.FunctionDef:
    fs = [n for n in tree.body if isinstance(n, ast.FunctionDef) and n.name == name]
    if len(fs) != 1:
        raise TranslationBroken(SITE, f"{name}: expected exactly one top-level definition")
    return fs[0]


def _linear(e: ast.expr) -> tuple[int, int]:
    """e == mul * config.skew_seconds + add"""
    if ast.dump(e) == _d("config.skew_seconds", "eval"):
        return 1, 0
    if isinstance(e, ast.Constant) and type(e.value) is int and e.value >= 0:
        return 0, e.value
    if isinstance(e, ast.BinOp) and isinstance(e.op, ast.Add):
        m1, a1 = _linear(e.left)
        m2, a2 = _linear(e.right)
        return m1 + m2, a1 + a2
    if isinstance(e, ast.BinOp) and isinstance(e.op, ast.Mult):
        m1, a1 = _linear(e.left)
        m2, a2 = _linear(e.right)
        if m1 == 0:
            return a1 * m2, a1 * a2
        if m2 == 0:
            return m1 * a2, a1 * a2
    raise TranslationBroken(SITE, f"proxy_proof_gate: ttl_seconds expression not linear in config.skew_seconds: {ast.unparse(e)}")


def _guard(stmt: ast.stmt, left_src: str, reason: str, what: str) -> str:
    ok = (
        isinstance(stmt, ast.If)
        and not stmt.orelse
        and isinstance(stmt.test, ast.Compare)
        and len(stmt.test.ops) == 1
        and ast.dump(stmt.test.left) == _d(left_src, "eval")
        and ast.dump(stmt.test.comparators[0]) == _d("skew_seconds", "eval")
        and len(stmt.body) == 1
        and isinstance(stmt.body[0], ast.Raise)
        and isinstance(stmt.body[0].exc, ast.Call)
        and isinstance(stmt.body[0].exc.func, ast.Name)
        and stmt.body[0].exc.func.id == "ProofError"
        and stmt.body[0].exc.args
        and isinstance(stmt.body[0].exc.args[0], ast.Constant)
        and stmt.body[0].exc.args[0].value == reason
    )
    if not ok:
        raise TranslationBroken(SITE, f"verify_proof: {what} changed")
    op = type(stmt.test.ops[0])  # type: ignore[attr-defined]
    if op not in _CMP:
        raise TranslationBroken(SITE, f"verify_proof: {what}: operator {op.__name__} not modelled")
    return _CMP[op]


def extract(path: Path) -> dict[str, Any]:
    try:
        tree = ast.parse(path.read_text())
    except (OSError, SyntaxError) as e:
        raise TranslationBroken(SITE, f"cannot parse: {e}") from e

    # ---- proxy_proof_gate: which ttl, which skew, which cache -------------------------------------------------
    g = _func(tree, "proxy_proof_gate")
    cache_assigns = [n for n in g.body if isinstance(n, ast.Assign) and len(n.targets) == 1 and isinstance(n.targets[0], ast.Name) and n.targets[0].id == "cache"]
    other_cache_stores = [
        n for n in ast.walk(g) if isinstance(n, ast.Name) and n.id == "cache" and isinstance(n.ctx, ast.Store)
    ]
    if len(cache_assigns) != 1 or len(other_cache_stores) != 1:
        raise TranslationBroken(SITE, "proxy_proof_gate: `cache` is not assigned exactly once")
    v = cache_assigns[0].value
    if not (
        isinstance(v, ast.IfExp)
        and ast.dump(v.test) == _d("config.enable_replay_cache", "eval")
        and isinstance(v.orelse, ast.Constant)
        and v.orelse.value is None
        and isinstance(v.body, ast.Call)
        and isinstance(v.body.func, ast.Name)
        and v.body.func.id == "NonceCache"
        and not v.body.args
        and sorted(k.arg or "" for k in v.body.keywords) == ["capacity", "ttl_seconds"]
    ):
        raise TranslationBroken(SITE, "proxy_proof_gate: cache is not `NonceCache(ttl_seconds=..., capacity=...) if config.enable_replay_cache else None`")
    kw = {k.arg: k.value for k in v.body.keywords}
    if ast.dump(kw["capacity"]) != _d("config.replay_capacity", "eval"):
        raise TranslationBroken(SITE, "proxy_proof_gate: capacity is not config.replay_capacity")
    mul, add = _linear(kw["ttl_seconds"])
    calls = [n for n in ast.walk(g) if isinstance(n, ast.Call) and isinstance(n.func, ast.Name) and n.func.id == "verify_proof"]
    if len(calls) != 1:
        raise TranslationBroken(SITE, "proxy_proof_gate: expected exactly one call of verify_proof")
    ckw = {k.arg: k.value for k in calls[0].keywords}
    if ast.dump(ckw.get("skew_seconds", ast.Constant(None))) != _d("config.skew_seconds", "eval") or ast.dump(ckw.get("nonce_cache", ast.Constant(None))) != _d("cache", "eval"):
        raise TranslationBroken(SITE, "proxy_proof_gate: verify_proof is not called with skew_seconds=config.skew_seconds, nonce_cache=cache")

    # ---- verify_proof: the timestamp step and the position of the nonce step ------------------------------------
    vp = _func(tree, "verify_proof")
    body = vp.body
    idx: dict[str, int] = {}
    for i, st in enumerate(body):
        dump = ast.dump(st)
        if dump == _d("current = int(time.time()) if now is None else now"):
            idx["current"] = i
        elif dump == _d("age = current - int(ts_raw)"):
            idx["age"] = i
        elif isinstance(st, ast.If) and "check_and_add" in dump:
            idx["nonce"] = i
    if set(idx) != {"current", "age", "nonce"} or not (idx["current"] + 1 == idx["age"] and idx["age"] + 2 < idx["nonce"]):
        raise TranslationBroken(SITE, "verify_proof: `current`/`age`/nonce-step statements not found in the modelled order")
    op_expired = _guard(body[idx["age"] + 1], "age", "expired", "expired guard")
    op_notyet = _guard(body[idx["age"] + 2], "-age", "not_yet_valid", "not_yet_valid guard")
    nonce_stmt = body[idx["nonce"]]
    want = ast.parse('if nonce_cache is not None and not nonce_cache.check_and_add(nonce):\n    raise ProofError("replayed", "nonce already seen")').body[0]
    if ast.dump(nonce_stmt) != ast.dump(want):
        raise TranslationBroken(SITE, "verify_proof: nonce step changed")
    # nothing between the timestamp step and the nonce step may rebind what they use
    for st in body[idx["age"] + 3 : idx["nonce"]]:
        for n in ast.walk(st):
            if isinstance(n, ast.Name) and isinstance(n.ctx, ast.Store) and n.id in ("nonce", "nonce_cache", "skew_seconds"):
                raise TranslationBroken(SITE, f"verify_proof: {n.id} rebound between timestamp step and nonce step")
    return {"ttl_mul": mul, "ttl_add": add, "op_expired": op_expired, "op_notyet": op_notyet}


def coq_text(d: dict[str, Any]) -> str:
    return (
        "From Coq Require Import NArith.\nFrom VGI Require Import M_Nonce.\nOpen Scope N_scope.\n"
        f"(* proxy_proof_gate: NonceCache(ttl_seconds = {d['ttl_mul']} * config.skew_seconds + {d['ttl_add']}) *)\n"
        f"Definition gen_gate_ttl_mul : N := {d['ttl_mul']}.\n"
        f"Definition gen_gate_ttl_add : N := {d['ttl_add']}.\n"
        f"(* verify_proof: if age <op> skew: expired ; if -age <op> skew: not_yet_valid *)\n"
        f"Definition gen_ts_expired_op : cmp := {d['op_expired']}.\n"
        f"Definition gen_ts_notyet_op : cmp := {d['op_notyet']}.\n"
    )
