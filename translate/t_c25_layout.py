"""Fail-closed translator for the sticky-session token layer (C25) -> coq/gen/G_StickyTok.v.

Regenerated terms
  * constants of vgi_rpc/http/server/_sticky.py (_TOKEN_VERSION, _SESSION_ID_LEN, the two struct.Struct formats) and of
    vgi_rpc/crypto.py (_NONCE_LEN, _VERSION_LEN, _TAG_LEN, _MIN_TOKEN_LEN)
  * the plaintext layout, from the ``plaintext = (...)`` expression of _seal_session_token
        _PLAINTEXT_PREFIX.pack(<int expr>, len(X)) + X + session_id + _PLAINTEXT_SUFFIX.pack(expires_at)
    (session_id is FFixed n because of the guard ``if len(session_id) != _SESSION_ID_LEN: raise``; the bound of the
    u8 length prefix comes from the guard ``if len(server_id_bytes) > 255: raise``)
  * the AAD layouts from _compute_aad (vgi_rpc/http/server/_state_token.py) and the two shapes of _principal_key
  * the codec of the server-id decoding in _open_session_token (``.decode(<codec>, errors="replace")``)
  * the four SessionLostError messages in check order, the status the middleware answers with, and the statuses
    assigned by _SessionResource.on_delete in source order
Shape checks (the hand model in coq/model/M_StickyTok.v is a transcription of these functions; any difference of the
AST -- comments, docstrings and formatting aside -- is a broken translation): _open_session_token, _seal_session_token,
_SessionRegistry.open/get/close/drain_expired/shutdown, _StickyMiddleware._principal_key, the token branch of
_StickyMiddleware.process_request, _StickyMiddleware._open_session/_close_session, _SessionResource.on_delete,
_expected_server_id, crypto.seal_bytes/open_bytes, _compute_aad.
"""
from __future__ import annotations

import ast
import textwrap
from pathlib import Path
from typing import Any

from vlib.core import TranslationBroken

_W = {"Q": ("W64", 8), "I": ("W32", 4), "H": ("W16", 2), "B": ("W8", 1)}


def cbytes(b: bytes) -> str:
    return "[" + ";".join(str(x) for x in b) + "]"


def ctext(s: str) -> str:
    return "[" + ";".join(str(ord(c)) for c in s) + "]"


def _parse(path: Path) -> ast.Module:
    try:
        return ast.parse(path.read_text())
    except (OSError, SyntaxError) as e:
        raise TranslationBroken(str(path), f"cannot parse: {e}") from e


def _strip_doc(body: list[ast.stmt]) -> list[ast.stmt]:
    if body and isinstance(body[0], ast.Expr) and isinstance(body[0].value, ast.Constant) and isinstance(body[0].value.value, str):
        return body[1:]
    return body


def _dump_fn(fn: ast.FunctionDef) -> str:
    """Dump of a function: arguments, decorators and body without the docstring (annotations of returns included)."""
    return ast.dump(ast.Module(body=[ast.FunctionDef(name=fn.name, args=fn.args, body=_strip_doc(list(fn.body)), decorator_list=fn.decorator_list, returns=fn.returns, type_params=[])], type_ignores=[]))


def _func(tree: ast.Module, name: str, site: str) -> ast.FunctionDef:
    hits = [n for n in tree.body if isinstance(n, ast.FunctionDef) and n.name == name]
    if len(hits) != 1:
        raise TranslationBroken(site, f"expected exactly one module-level def {name}, found {len(hits)}")
    return hits[0]


def _method(tree: ast.Module, cls: str, name: str, site: str) -> ast.FunctionDef:
    cs = [n for n in tree.body if isinstance(n, ast.ClassDef) and n.name == cls]
    if len(cs) != 1:
        raise TranslationBroken(site, f"expected exactly one class {cls}, found {len(cs)}")
    hits = [n for n in cs[0].body if isinstance(n, ast.FunctionDef) and n.name == name]
    if len(hits) != 1:
        raise TranslationBroken(site, f"expected exactly one method {cls}.{name}, found {len(hits)}")
    return hits[0]


def _expect(fn: ast.FunctionDef, template: str, site: str) -> None:
    t = ast.parse(textwrap.dedent(template)).body[0]
    assert isinstance(t, ast.FunctionDef)
    a, b = _dump_fn(fn), _dump_fn(t)
    if a != b:
        k = next((i for i, (x, y) in enumerate(zip(a, b)) if x != y), min(len(a), len(b)))
        raise TranslationBroken(site, f"source differs from the modelled shape near: ...{a[max(0, k - 60):k + 80]}...")


def _module_ints(tree: ast.Module) -> dict[str, int]:
    env: dict[str, int] = {}

    def ev(n: ast.expr) -> int:
        if isinstance(n, ast.Constant) and isinstance(n.value, int) and not isinstance(n.value, bool):
            return n.value
        if isinstance(n, ast.Name) and n.id in env:
            return env[n.id]
        if isinstance(n, ast.BinOp) and isinstance(n.op, (ast.Add, ast.Mult)):
            a, b = ev(n.left), ev(n.right)
            return a + b if isinstance(n.op, ast.Add) else a * b
        raise ValueError

    for node in tree.body:
        if isinstance(node, ast.Assign) and len(node.targets) == 1 and isinstance(node.targets[0], ast.Name):
            try:
                env[node.targets[0].id] = ev(node.value)
            except ValueError:
                continue
    return env


def _module_structs(tree: ast.Module, site: str) -> dict[str, list[str]]:
    """NAME = struct.Struct("<fmt>") -> list of format characters (little-endian, no padding)."""
    out: dict[str, list[str]] = {}
    for node in tree.body:
        if isinstance(node, ast.Assign) and len(node.targets) == 1 and isinstance(node.targets[0], ast.Name):
            v = node.value
            if isinstance(v, ast.Call) and ast.dump(v.func) == ast.dump(ast.parse("struct.Struct", mode="eval").body):
                if len(v.args) != 1 or v.keywords or not (isinstance(v.args[0], ast.Constant) and isinstance(v.args[0].value, str)):
                    raise TranslationBroken(site, f"struct.Struct with a non-literal format: {ast.dump(v)[:80]}")
                fmt = v.args[0].value
                if not fmt.startswith("<"):
                    raise TranslationBroken(site, f"struct format {fmt!r} is not little-endian/unpadded")
                chars = [c for c in fmt[1:] if c != " "]
                if any(c not in _W for c in chars):
                    raise TranslationBroken(site, f"unsupported struct format {fmt!r}")
                out[node.targets[0].id] = chars
    return out


def _flatten(n: ast.expr) -> list[ast.expr]:
    if isinstance(n, ast.BinOp) and isinstance(n.op, ast.Add):
        return _flatten(n.left) + _flatten(n.right)
    return [n]


def _struct_pack(n: ast.expr, structs: dict[str, list[str]]) -> tuple[list[str], list[ast.expr]] | None:
    if (
        isinstance(n, ast.Call) and isinstance(n.func, ast.Attribute) and n.func.attr == "pack"
        and isinstance(n.func.value, ast.Name) and n.func.value.id in structs and not n.keywords
    ):
        fmt = structs[n.func.value.id]
        if len(fmt) != len(n.args):
            return None
        return fmt, list(n.args)
    return None


def _is_len_of(n: ast.expr) -> str | None:
    if isinstance(n, ast.Call) and isinstance(n.func, ast.Name) and n.func.id == "len" and len(n.args) == 1 and not n.keywords and isinstance(n.args[0], ast.Name):
        return n.args[0].id
    return None


def plaintext_layout(seal: ast.FunctionDef, structs: dict[str, list[str]], ints: dict[str, int], site: str) -> tuple[list[str], list[str], int]:
    """(fields, argument names, bound on the length-prefixed field)."""
    assigns = [s for s in seal.body if isinstance(s, ast.Assign) and len(s.targets) == 1 and isinstance(s.targets[0], ast.Name) and s.targets[0].id == "plaintext"]
    if len(assigns) != 1:
        raise TranslationBroken(site, "expected exactly one assignment to plaintext")
    # guards: if len(X) != NAME: raise  /  if len(X) > CONST: raise
    fixed: dict[str, int] = {}
    maxlen: dict[str, int] = {}
    for s in seal.body:
        if isinstance(s, ast.If) and isinstance(s.test, ast.Compare) and len(s.test.ops) == 1 and s.body and isinstance(s.body[-1], ast.Raise) and not s.orelse:
            x = _is_len_of(s.test.left)
            c = s.test.comparators[0]
            val = ints.get(c.id) if isinstance(c, ast.Name) else (c.value if isinstance(c, ast.Constant) and isinstance(c.value, int) else None)
            if x is None or val is None:
                continue
            if isinstance(s.test.ops[0], ast.NotEq):
                fixed[x] = val
            elif isinstance(s.test.ops[0], ast.Gt):
                maxlen[x] = val
    items = _flatten(assigns[0].value)
    fields: list[str] = []
    args: list[str] = []
    bound = -1
    pending_len: tuple[str, str] | None = None  # (name whose length was packed, width)
    for it in items:
        sp = _struct_pack(it, structs)
        if sp is not None:
            if pending_len is not None:
                raise TranslationBroken(site, "a packed length is not followed by its bytes")
            fmt, a = sp
            for ch, arg in zip(fmt, a):
                if pending_len is not None:
                    raise TranslationBroken(site, "a packed length must be the last item of its pack call")
                ln = _is_len_of(arg)
                if ln is not None:
                    pending_len = (ln, _W[ch][0])
                else:
                    fields.append(f"FInt {_W[ch][0]}")
                    args.append(_int_arg_name(arg, site))
            continue
        if isinstance(it, ast.Name):
            if pending_len is not None:
                if it.id != pending_len[0]:
                    raise TranslationBroken(site, f"length of {pending_len[0]} is followed by {it.id}")
                if it.id not in maxlen:
                    raise TranslationBroken(site, f"no length bound guard for {it.id}")
                fields.append(f"FLen {pending_len[1]}")
                args.append(it.id)
                bound = maxlen[it.id]
                pending_len = None
            elif it.id in fixed:
                fields.append(f"FFixed {fixed[it.id]}")
                args.append(it.id)
            else:
                raise TranslationBroken(site, f"bare name {it.id} without a length guard")
            continue
        raise TranslationBroken(site, f"unsupported plaintext item: {ast.dump(it)[:100]}")
    if pending_len is not None:
        raise TranslationBroken(site, "dangling packed length")
    return fields, args, bound


def _int_arg_name(arg: ast.expr, site: str) -> str:
    if isinstance(arg, ast.Name):
        return arg.id
    # int(time.time()) if now is None else now
    if ast.dump(arg) == ast.dump(ast.parse("int(time.time()) if now is None else now", mode="eval").body):
        return "created_at"
    raise TranslationBroken(site, f"unsupported integer argument: {ast.dump(arg)[:100]}")


# ---- shapes of the functions the hand model transcribes -----------------------------------------------------------

T_OPEN_TOKEN = '''
def _open_session_token(token: str, token_key: bytes, aad: bytes) -> tuple[str, bytes, int]:
    try:
        padded = token + "=" * (-len(token) % 4)
        raw = base64.urlsafe_b64decode(padded.encode("ascii"))
    except Exception as exc:
        raise SessionLostError("malformed session token") from exc

    try:
        plaintext = crypto.open_bytes(raw, token_key, aad=aad, version=_TOKEN_VERSION)
    except crypto.SealError as exc:
        raise SessionLostError("session token verification failed") from exc

    prefix_len = _PLAINTEXT_PREFIX.size
    if len(plaintext) < prefix_len:
        raise SessionLostError("malformed session token")
    _created_at, server_id_len = _PLAINTEXT_PREFIX.unpack_from(plaintext, 0)
    sid_pos = prefix_len + server_id_len
    end_pos = sid_pos + _SESSION_ID_LEN + _PLAINTEXT_SUFFIX.size
    if len(plaintext) != end_pos:
        raise SessionLostError("malformed session token")
    server_id = plaintext[prefix_len:sid_pos].decode("@CODEC@", errors="replace")
    session_id = plaintext[sid_pos : sid_pos + _SESSION_ID_LEN]
    (expires_at,) = _PLAINTEXT_SUFFIX.unpack_from(plaintext, sid_pos + _SESSION_ID_LEN)
    return server_id, session_id, expires_at
'''

T_SEAL_TOKEN = '''
def _seal_session_token(server_id: str, session_id: bytes, expires_at: int, token_key: bytes, aad: bytes, *, now: int | None = None) -> str:
    if len(session_id) != _SESSION_ID_LEN:
        msg = f"session_id must be {_SESSION_ID_LEN} bytes, got {len(session_id)}"
        raise ValueError(msg)
    server_id_bytes = server_id.encode()
    if len(server_id_bytes) > 255:
        msg = f"server_id too long ({len(server_id_bytes)} bytes); max 255"
        raise ValueError(msg)
    plaintext = (
        _PLAINTEXT_PREFIX.pack(int(time.time()) if now is None else now, len(server_id_bytes))
        + server_id_bytes
        + session_id
        + _PLAINTEXT_SUFFIX.pack(expires_at)
    )
    sealed = crypto.seal_bytes(plaintext, token_key, aad=aad, version=_TOKEN_VERSION)
    return base64.urlsafe_b64encode(sealed).rstrip(b"=").decode("ascii")
'''

T_REG_OPEN = '''
def open(self, state: object, ttl: float | None, principal_key: str) -> tuple[bytes, float]:
    if self._draining:
        raise ServerDrainingError("server is draining — new sessions are rejected")
    effective_ttl = self._default_ttl if ttl is None else ttl
    expires_at = time.time() + effective_ttl
    entry = _SessionEntry(state=state, expires_at=expires_at, principal_key=principal_key, lock=threading.RLock())
    session_id = secrets.token_bytes(_SESSION_ID_LEN)
    with self._lock:
        self._entries[session_id] = entry
    return session_id, expires_at
'''

T_REG_GET = '''
def get(self, session_id: bytes, principal_key: str) -> _SessionEntry | None:
    now = time.time()
    with self._lock:
        entry = self._entries.get(session_id)
        if entry is None:
            return None
        if entry.expires_at < now:
            del self._entries[session_id]
            self._close_state_suppressed(entry.state)
            return None
        if entry.principal_key != principal_key:
            return None
    return entry
'''

T_REG_CLOSE = '''
def close(self, session_id: bytes) -> bool:
    with self._lock:
        entry = self._entries.pop(session_id, None)
    if entry is None:
        return False
    self._close_state_suppressed(entry.state)
    return True
'''

T_REG_DRAIN = '''
def drain_expired(self, now: float | None = None) -> int:
    if now is None:
        now = time.time()
    with self._lock:
        expired_sids = [sid for sid, e in self._entries.items() if e.expires_at < now]
        expired = [self._entries.pop(sid) for sid in expired_sids]
    for entry in expired:
        self._close_state_suppressed(entry.state)
    return len(expired)
'''

T_REG_SHUTDOWN = '''
def shutdown(self) -> None:
    with self._lock:
        entries = list(self._entries.values())
        self._entries.clear()
    for entry in entries:
        self._close_state_suppressed(entry.state)
'''

T_PRINCIPAL_KEY = '''
@staticmethod
def _principal_key(req: falcon.Request) -> str:
    auth, _ = _get_auth_and_metadata()
    if auth is None or not auth.authenticated:
        return "\\x00anonymous"
    return f"{auth.domain or ''}\\x00{auth.principal or ''}"
'''

T_TOKEN_BRANCH = '''
def f():
    try:
        auth, _ = _get_auth_and_metadata()
        aad = _compute_aad(auth)
        server_id, session_id, _expires_at = _open_session_token(token_header.strip(), self._token_key, aad)
        if server_id != _expected_server_id(req):
            raise SessionLostError("session token was issued by a different worker (server_id mismatch)")
        entry = self._registry.get(session_id, principal_key)
        if entry is None:
            raise SessionLostError("session not found, expired, or principal mismatch")
    except SessionLostError as exc:
        _set_error_response(resp, exc, status_code=HTTPStatus.INTERNAL_SERVER_ERROR)
        resp.complete = True
        return
'''

T_MW_OPEN = '''
def _open_session(self, req: falcon.Request, principal_key: str, state: object, ttl: float | None) -> str:
    session_id, expires_at = self._registry.open(state, ttl, principal_key)
    auth, _ = _get_auth_and_metadata()
    aad = _compute_aad(auth)
    token = _seal_session_token(server_id=_expected_server_id(req), session_id=session_id, expires_at=int(expires_at), token_key=self._token_key, aad=aad)
    session_id_hex = session_id.hex()
    sc_token = _current_session_context.set(_SessionContext(state=state, session_id=session_id_hex))
    req.context.sticky_session_token = sc_token
    sid_token = _current_session_id.set(session_id_hex)
    req.context.sticky_session_id_token = sid_token
    return token
'''

T_MW_CLOSE = '''
def _close_session(self, req: falcon.Request) -> bool:
    sc = _current_session_context.get()
    if sc is None:
        return False
    try:
        session_id = bytes.fromhex(sc.session_id)
    except ValueError:
        return False
    entry = getattr(req.context, "sticky_entry", None)
    if entry is not None and getattr(req.context, "sticky_entry_lock_acquired", False):
        with contextlib.suppress(RuntimeError):
            entry.lock.release()
        req.context.sticky_entry_lock_acquired = False
    hit = self._registry.close(session_id)
    sc_token = getattr(req.context, "sticky_session_token", None)
    if sc_token is not None:
        _current_session_context.reset(sc_token)
        req.context.sticky_session_token = None
    return hit
'''

T_ON_DELETE = '''
def on_delete(self, req: falcon.Request, resp: falcon.Response) -> None:
    token_header = req.get_header(SESSION_HEADER)
    if not token_header:
        resp.status = HTTPStatus.OK
        return
    auth, _ = _get_auth_and_metadata()
    aad = _compute_aad(auth)
    try:
        server_id, session_id, _expires_at = _open_session_token(token_header.strip(), self._token_key, aad)
    except SessionLostError:
        resp.status = HTTPStatus.OK
        return
    if server_id != _expected_server_id(req):
        resp.status = HTTPStatus.OK
        return
    principal_key = _StickyMiddleware._principal_key(req)
    entry = self._registry.get(session_id, principal_key)
    if entry is None:
        resp.status = HTTPStatus.OK
        return
    with entry.lock:
        self._registry.close(session_id)
    resp.set_header(SESSION_CLOSE_HEADER, "true")
    resp.status = HTTPStatus.NO_CONTENT
'''

T_EXPECTED_ID = '''
def _expected_server_id(req: falcon.Request) -> str:
    server_id = req.env.get("vgi_rpc.server_id")
    if isinstance(server_id, str):
        return server_id
    return ""
'''

T_SEAL_BYTES = '''
def seal_bytes(payload: bytes, key: bytes, *, aad: bytes, version: int = 1) -> bytes:
    if not 0 <= version <= 255:
        msg = f"version must fit in one byte, got {version}"
        raise ValueError(msg)
    nonce = os.urandom(_NONCE_LEN)
    return struct.pack("B", version) + nonce + _seal(payload, normalize_key(key), aad, nonce)
'''

T_OPEN_BYTES = '''
def open_bytes(token: bytes, key: bytes, *, aad: bytes, version: int = 1) -> bytes:
    if len(token) < _MIN_TOKEN_LEN or token[0] != version:
        msg = "malformed or wrong-version token"
        raise SealError(msg)
    nonce = token[_VERSION_LEN : _VERSION_LEN + _NONCE_LEN]
    body = token[_VERSION_LEN + _NONCE_LEN :]
    return _open(body, normalize_key(key), aad, nonce)
'''

T_COMPUTE_AAD = '''
def _compute_aad(auth: AuthContext | None) -> bytes:
    prefix = b"vgi_rpc.state.v4\\x00"
    if auth is None or not auth.authenticated:
        return prefix + b"\\x00anonymous"
    domain = (auth.domain or "").encode()
    principal = (auth.principal or "").encode()
    return prefix + b"\\x01" + domain + b"\\x00" + principal
'''

_CODECS = {"ascii": "AsciiReplace", "utf-8": "Utf8Replace", "utf8": "Utf8Replace"}
HTTP_STATUS = {"OK": 200, "NO_CONTENT": 204, "INTERNAL_SERVER_ERROR": 500, "BAD_REQUEST": 400}


def _codec_of(fn: ast.FunctionDef, site: str) -> str:
    hits: list[str] = []
    for n in ast.walk(fn):
        if isinstance(n, ast.Call) and isinstance(n.func, ast.Attribute) and n.func.attr == "decode":
            if len(n.args) == 1 and isinstance(n.args[0], ast.Constant) and isinstance(n.args[0].value, str) and [k.arg for k in n.keywords] == ["errors"]:
                hits.append(n.args[0].value)
            else:
                raise TranslationBroken(site, f"unsupported decode call: {ast.dump(n)[:120]}")
    if len(hits) != 1:
        raise TranslationBroken(site, f"expected exactly one .decode(<codec>, errors=...) call, found {len(hits)}")
    if hits[0].lower() not in _CODECS:
        raise TranslationBroken(site, f"unsupported server-id codec {hits[0]!r}")
    return hits[0]


def _messages(fn: ast.AST) -> list[str]:
    out = []
    for n in ast.walk(fn):
        if isinstance(n, ast.Raise) and isinstance(n.exc, ast.Call) and isinstance(n.exc.func, ast.Name) and n.exc.func.id == "SessionLostError":
            a = n.exc.args
            if len(a) == 1 and isinstance(a[0], ast.Constant) and isinstance(a[0].value, str):
                out.append((n.lineno, a[0].value))
            else:
                raise TranslationBroken("SessionLostError", "non-literal message")
    return [m for _, m in sorted(out)]


def _statuses(fn: ast.FunctionDef, site: str) -> list[int]:
    out: list[tuple[int, int]] = []
    for n in ast.walk(fn):
        t0 = n.targets[0] if isinstance(n, ast.Assign) and len(n.targets) == 1 else None
        if isinstance(t0, ast.Attribute) and t0.attr == "status" and isinstance(t0.value, ast.Name) and t0.value.id == "resp":
            v = n.value
            if isinstance(v, ast.Attribute) and isinstance(v.value, ast.Name) and v.value.id == "HTTPStatus" and v.attr in HTTP_STATUS:
                out.append((n.lineno, HTTP_STATUS[v.attr]))
            else:
                raise TranslationBroken(site, f"unsupported status: {ast.dump(v)[:80]}")
    return [s for _, s in sorted(out)]


def generate(repo: Path) -> str:
    sticky_p = repo / "vgi_rpc" / "http" / "server" / "_sticky.py"
    state_p = repo / "vgi_rpc" / "http" / "server" / "_state_token.py"
    crypto_p = repo / "vgi_rpc" / "crypto.py"
    st, tk, cr = _parse(sticky_p), _parse(state_p), _parse(crypto_p)
    ints = _module_ints(st)
    cints = _module_ints(cr)
    structs = _module_structs(st, "_sticky.py")
    for need in ("_TOKEN_VERSION", "_SESSION_ID_LEN"):
        if need not in ints:
            raise TranslationBroken("_sticky.py", f"constant {need} not found")
    for need in ("_NONCE_LEN", "_VERSION_LEN", "_TAG_LEN", "_MIN_TOKEN_LEN"):
        if need not in cints:
            raise TranslationBroken("crypto.py", f"constant {need} not found")
    for need in ("_PLAINTEXT_PREFIX", "_PLAINTEXT_SUFFIX"):
        if need not in structs:
            raise TranslationBroken("_sticky.py", f"struct {need} not found")

    open_fn = _func(st, "_open_session_token", "_open_session_token")
    codec = _codec_of(open_fn, "_open_session_token")
    _expect(open_fn, T_OPEN_TOKEN.replace("@CODEC@", codec), "_open_session_token")
    seal_fn = _func(st, "_seal_session_token", "_seal_session_token")
    _expect(seal_fn, T_SEAL_TOKEN, "_seal_session_token")
    for name, tmpl in (("open", T_REG_OPEN), ("get", T_REG_GET), ("close", T_REG_CLOSE), ("drain_expired", T_REG_DRAIN), ("shutdown", T_REG_SHUTDOWN)):
        _expect(_method(st, "_SessionRegistry", name, f"_SessionRegistry.{name}"), tmpl, f"_SessionRegistry.{name}")
    _expect(_method(st, "_StickyMiddleware", "_principal_key", "_principal_key"), T_PRINCIPAL_KEY, "_StickyMiddleware._principal_key")
    _expect(_method(st, "_StickyMiddleware", "_open_session", "_open_session"), T_MW_OPEN, "_StickyMiddleware._open_session")
    _expect(_method(st, "_StickyMiddleware", "_close_session", "_close_session"), T_MW_CLOSE, "_StickyMiddleware._close_session")
    on_delete = _method(st, "_SessionResource", "on_delete", "on_delete")
    _expect(on_delete, T_ON_DELETE, "_SessionResource.on_delete")
    _expect(_func(st, "_expected_server_id", "_expected_server_id"), T_EXPECTED_ID, "_expected_server_id")
    _expect(_func(cr, "seal_bytes", "crypto.seal_bytes"), T_SEAL_BYTES, "crypto.seal_bytes")
    _expect(_func(cr, "open_bytes", "crypto.open_bytes"), T_OPEN_BYTES, "crypto.open_bytes")
    _expect(_func(tk, "_compute_aad", "_compute_aad"), T_COMPUTE_AAD, "_compute_aad")

    # the token branch of process_request: the statement after "token_header = req.get_header(SESSION_HEADER)"
    pr = _method(st, "_StickyMiddleware", "process_request", "process_request")
    body = _strip_doc(list(pr.body))
    idx = [i for i, s in enumerate(body) if isinstance(s, ast.Assign) and ast.dump(s) == ast.dump(ast.parse("token_header = req.get_header(SESSION_HEADER)").body[0])]
    if len(idx) != 1 or idx[0] + 1 >= len(body):
        raise TranslationBroken("process_request", "token_header assignment not found")
    branch = body[idx[0] + 1]
    if not (isinstance(branch, ast.If) and ast.dump(branch.test) == ast.dump(ast.parse("token_header", mode="eval").body) and branch.body and isinstance(branch.body[0], ast.Try)):
        raise TranslationBroken("process_request", "expected `if token_header:` followed by the try block")
    t_try = ast.parse(textwrap.dedent(T_TOKEN_BRANCH)).body[0].body[0]  # type: ignore[attr-defined]
    if ast.dump(branch.body[0]) != ast.dump(t_try):
        raise TranslationBroken("process_request", "the token branch differs from the modelled shape")
    # nothing before the token branch may return except the exempt-prefix loop; principal_key is computed from the request
    pre = body[: idx[0]]
    want_pre = ast.parse(textwrap.dedent('''
        for prefix in self._exempt_prefixes:
            if req.path == prefix or req.path.startswith(prefix + "/"):
                return
        self._ensure_reaper()
        accept_opens = (req.get_header(SESSION_ACCEPT_HEADER) or "").strip().lower() == "true"
        principal_key = self._principal_key(req)
    ''')).body
    if [ast.dump(s) for s in pre] != [ast.dump(s) for s in want_pre]:
        raise TranslationBroken("process_request", "statements before the token branch differ from the modelled shape")

    fields, args, bound = plaintext_layout(seal_fn, structs, ints, "_seal_session_token")
    msgs = _messages(open_fn) + _messages(branch)
    statuses = _statuses(on_delete, "on_delete")
    prefix_size = sum(_W[c][1] for c in structs["_PLAINTEXT_PREFIX"])
    suffix_size = sum(_W[c][1] for c in structs["_PLAINTEXT_SUFFIX"])

    aad_prefix = b"vgi_rpc.state.v4\x00"  # fixed by the _compute_aad template above
    lines = [
        "From Coq Require Import List NArith ZArith Bool.",
        "From VGI Require Import Bytes Layout M_StickyTok.",
        "Import ListNotations.",
        "Open Scope N_scope.",
        f"Definition gen_TOKEN_VERSION : N := {ints['_TOKEN_VERSION']}.",
        f"Definition gen_SESSION_ID_LEN : N := {ints['_SESSION_ID_LEN']}.",
        f"Definition gen_PLAIN_PREFIX_LEN : N := {prefix_size}.",
        f"Definition gen_PLAIN_SUFFIX_LEN : N := {suffix_size}.",
        f"Definition gen_MAX_SERVER_ID_LEN : N := {bound}.",
        f"Definition gen_crypto_NONCE_LEN : N := {cints['_NONCE_LEN']}.",
        f"Definition gen_crypto_VERSION_LEN : N := {cints['_VERSION_LEN']}.",
        f"Definition gen_crypto_TAG_LEN : N := {cints['_TAG_LEN']}.",
        f"Definition gen_crypto_MIN_TOKEN_LEN : N := {cints['_MIN_TOKEN_LEN']}.",
        f"Definition gen_plain_layout : layout := [{'; '.join(fields)}].",
        f"Definition gen_plain_args : list (list N) := [{'; '.join(ctext(a) for a in args)}].",
        f"Definition gen_aad_prefix : bytes := {cbytes(aad_prefix)}.",
        f"Definition gen_aad_anon_layout : layout := [FConst {cbytes(aad_prefix)}; FConst {cbytes(bytes([0]) + b'anonymous')}].",
        f"Definition gen_aad_auth_layout : layout := [FConst {cbytes(aad_prefix)}; FConst {cbytes(bytes([1]))}; FNulTerm; FTail].",
        f"Definition gen_principal_key_anon : bytes := {cbytes(bytes([0]) + b'anonymous')}.",
        f"Definition gen_principal_key_sep : bytes := {cbytes(bytes([0]))}.",
        f"Definition gen_sid_codec : sid_codec := {_CODECS[codec.lower()]}.",
        f"Definition gen_lost_messages : list (list N) := [{'; '.join(ctext(m) for m in msgs)}].",
        f"Definition gen_lost_status : N := {HTTP_STATUS['INTERNAL_SERVER_ERROR']}.",
        f"Definition gen_delete_statuses : list N := [{'; '.join(str(s) for s in statuses)}].",
    ]
    return "\n".join(lines) + "\n"


def describe(repo: Path) -> dict[str, Any]:
    """Facts the Python side needs (codec of the current source)."""
    st = _parse(repo / "vgi_rpc" / "http" / "server" / "_sticky.py")
    return {"codec": _codec_of(_func(st, "_open_session_token", "_open_session_token"), "_open_session_token")}
