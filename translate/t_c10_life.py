"""C10 regenerated leg: guards, messages and statement skeletons of the stream lifecycle -> coq/gen/G_WireLife.v.

Fail-closed: every function is matched statement by statement against the shape the Coq models were written for
(``ast.unparse`` of the guard expressions); anything else raises TranslationBroken.

Emitted terms
  gen_finish_msg / gen_validate_msg / gen_emit_twice_msg   RuntimeError texts of OutputCollector.finish / validate / emit,
                                                           each taken from the guard `if <cond>: raise RuntimeError(<text>)`
                                                           that must be the first statement (finish: before `_finished = True`)
  gen_closed_error                                         the RpcError StreamSession.tick and .exchange raise first when _closed
  gen_session_guards                                       close()/cancel(): `if self._closed: return` first and `_closed = True`
                                                           before any I/O statement
  gen_coerce_skeleton                                      the statement list of _coerce_input_batch
  gen_srv_cancel_before_process                            _serve_stream: the CANCEL_KEY branch (on_cancel in try/except
                                                           Exception, then break) precedes _coerce_input_batch and state.process
  gen_http_cancel_branch_first                             _run_stream_exchange_sync: `if cancel_flag:` (on_cancel in try/except
                                                           Exception, return) precedes both turn helpers
  gen_http_cancel_guard                                    HttpStreamSession refuses use after cancel: true = the repaired shape
                                                           (flag set and pending dropped by cancel(); checked first in exchange()
                                                           and __iter__ and after every yield), false = no such flag in the class;
                                                           in both shapes cancel() must retire the session (_finished, token)
                                                           BEFORE the POST whose failure it swallows
"""
from __future__ import annotations

import ast
from pathlib import Path
from typing import Any

from vlib.core import TranslationBroken
from vlib.coqterm import cstr


def _broken(site: str, why: str) -> TranslationBroken:
    return TranslationBroken(site, why)


def _module(path: Path) -> ast.Module:
    return ast.parse(path.read_text())


def _find(node: ast.AST, kind: type, name: str, site: str) -> Any:
    for n in ast.walk(node):
        if isinstance(n, kind) and getattr(n, "name", None) == name:
            return n
    raise _broken(site, f"{kind.__name__} {name} not found")


def _body(fn: ast.FunctionDef) -> list[ast.stmt]:
    b = list(fn.body)
    if b and isinstance(b[0], ast.Expr) and isinstance(b[0].value, ast.Constant) and isinstance(b[0].value.value, str):
        b = b[1:]
    return b


def _is_logging_if(st: ast.stmt) -> bool:
    return isinstance(st, ast.If) and "isEnabledFor" in ast.unparse(st.test)


def _guard_raise(st: ast.stmt, cond: str, exc: str, site: str) -> list[Any]:
    """`if <cond>: raise <exc>(<constants>)` -> the constant arguments."""
    if not (isinstance(st, ast.If) and ast.unparse(st.test) == cond and not st.orelse and len(st.body) == 1 and isinstance(st.body[0], ast.Raise)):
        raise _broken(site, f"expected `if {cond}: raise {exc}(...)`, found `{ast.unparse(st)[:80]}`")
    call = st.body[0].exc
    if not (isinstance(call, ast.Call) and ast.unparse(call.func) == exc and not call.keywords and all(isinstance(a, ast.Constant) for a in call.args)):
        raise _broken(site, f"raise is not {exc}(<constants>)")
    return [a.value for a in call.args]  # type: ignore[attr-defined]


def collector(repo: Path) -> tuple[str, str, str]:
    cls = _find(_module(repo / "vgi_rpc/rpc/_types.py"), ast.ClassDef, "OutputCollector", "OutputCollector")
    fin = _body(_find(cls, ast.FunctionDef, "finish", "OutputCollector.finish"))
    if len(fin) != 2 or ast.unparse(fin[1]) != "self._finished = True":
        raise _broken("OutputCollector.finish", "body is not [producer-mode guard; self._finished = True]")
    (m_fin,) = _guard_raise(fin[0], "not self._producer_mode", "RuntimeError", "OutputCollector.finish")
    val = _body(_find(cls, ast.FunctionDef, "validate", "OutputCollector.validate"))
    if len(val) != 1:
        raise _broken("OutputCollector.validate", "body is not a single guard")
    (m_val,) = _guard_raise(val[0], "self._data_batch_idx is None", "RuntimeError", "OutputCollector.validate")
    em = _body(_find(cls, ast.FunctionDef, "emit", "OutputCollector.emit"))
    (m_em,) = _guard_raise(em[0], "self._data_batch_idx is not None", "RuntimeError", "OutputCollector.emit")
    tail = [ast.unparse(s) for s in em[-3:]]
    if tail[0] != "self._data_batch_idx = len(self._batches)" or not tail[2].startswith("self._batches.append("):
        raise _broken("OutputCollector.emit", "emit does not end by recording the data batch index and appending the batch")
    return m_fin, m_val, m_em


def session(repo: Path) -> tuple[tuple[str, str], bool]:
    cls = _find(_module(repo / "vgi_rpc/rpc/_client.py"), ast.ClassDef, "StreamSession", "StreamSession")
    errs = []
    for name in ("tick", "exchange"):
        b = _body(_find(cls, ast.FunctionDef, name, f"StreamSession.{name}"))
        args = _guard_raise(b[0], "self._closed", "RpcError", f"StreamSession.{name}")
        if len(args) != 3 or args[2] != "":
            raise _broken(f"StreamSession.{name}", "RpcError(type, message, '') expected")
        errs.append((args[0], args[1]))
    if errs[0] != errs[1]:
        raise _broken("StreamSession", "tick and exchange refuse with different errors")
    for name in ("close", "cancel"):
        b = _body(_find(cls, ast.FunctionDef, name, f"StreamSession.{name}"))
        if ast.unparse(b[0]) != "if self._closed:\n    return":
            raise _broken(f"StreamSession.{name}", "first statement is not `if self._closed: return`")
        rest = [s for s in b[1:] if not _is_logging_if(s)]
        if not rest or ast.unparse(rest[0]) != "self._closed = True":
            raise _broken(f"StreamSession.{name}", "`self._closed = True` is not set before the first I/O statement")
    it = _body(_find(cls, ast.FunctionDef, "__iter__", "StreamSession.__iter__"))
    if ast.unparse(it[0]) != "while True:\n    try:\n        yield self.tick()\n    except StopIteration:\n        break" or len(it) != 1:
        raise _broken("StreamSession.__iter__", "is not `while True: try: yield self.tick() except StopIteration: break`")
    for name in ("tick", "exchange"):
        fn = _find(cls, ast.FunctionDef, name, f"StreamSession.{name}")
        tries = [s for s in _body(fn) if isinstance(s, ast.Try)]
        handlers = [ast.unparse(h.type) if h.type is not None else "" for h in tries[-1].handlers]
        want = ["StopIteration", "RpcError", "_TRANSPORT_ERRORS"] if name == "tick" else ["RpcError", "_TRANSPORT_ERRORS"]
        if handlers != want:
            raise _broken(f"StreamSession.{name}", f"read handlers {handlers} != {want}")
        for h in tries[-1].handlers[: len(want) - 1]:
            if [ast.unparse(s) for s in h.body] != ["self.close()", "raise"]:
                raise _broken(f"StreamSession.{name}", "StopIteration / RpcError handler is not `self.close(); raise`")
    return errs[0], True


COERCE_SHAPE = [
    ("if", "batch.schema == target_schema", ["return batch"], "CIfSchemaEqReturn"),
    ("assign", "target_names = list(target_schema.names)", None, None),
    ("assign", "batch_names = list(batch.schema.names)", None, None),
    ("if", "set(batch_names) != set(target_names)", ["raise TypeError"], "CIfSetNeRaiseType"),
    ("if", "batch_names != target_names", ["batch = batch.select(target_names)"], "CIfNamesNeSelect"),
    ("if", "batch.schema != target_schema", ["try"], "CIfSchemaNeCast"),
    ("return", "return batch", None, "CReturnBatch"),
]


def coerce_skeleton(repo: Path) -> str:
    fn = _find(_module(repo / "vgi_rpc/rpc/_wire.py"), ast.FunctionDef, "_coerce_input_batch", "_coerce_input_batch")
    if [a.arg for a in fn.args.args] != ["batch", "target_schema"]:
        raise _broken("_coerce_input_batch", "parameters are not (batch, target_schema)")
    body = _body(fn)
    if len(body) != len(COERCE_SHAPE):
        raise _broken("_coerce_input_batch", f"{len(body)} statements, expected {len(COERCE_SHAPE)}")
    out = []
    for st, (kind, text, inner, term) in zip(body, COERCE_SHAPE):
        site = f"_coerce_input_batch: `{text}`"
        if kind in ("assign", "return"):
            if ast.unparse(st) != text:
                raise _broken(site, f"found `{ast.unparse(st)[:80]}`")
        else:
            if not (isinstance(st, ast.If) and ast.unparse(st.test) == text and not st.orelse and len(st.body) == 1):
                raise _broken(site, f"found `{ast.unparse(st)[:80]}`")
            b0 = st.body[0]
            assert inner is not None
            if inner[0] == "raise TypeError":
                if not (isinstance(b0, ast.Raise) and isinstance(b0.exc, ast.Call) and ast.unparse(b0.exc.func) == "TypeError"):
                    raise _broken(site, "does not raise TypeError")
            elif inner[0] == "try":
                if not (isinstance(b0, ast.Try) and [ast.unparse(s) for s in b0.body] == ["batch = batch.cast(target_schema)"] and len(b0.handlers) == 1
                        and not b0.orelse and not b0.finalbody):
                    raise _broken(site, "is not try: batch = batch.cast(target_schema) except ...")
                h = b0.handlers[0]
                if not (isinstance(h.type, ast.Tuple) and len(h.body) == 1 and isinstance(h.body[0], ast.Raise) and isinstance(h.body[0].exc, ast.Call)
                        and ast.unparse(h.body[0].exc.func) == "TypeError"):
                    raise _broken(site, "the cast handler does not re-raise as TypeError")
                names = [ast.unparse(e).split(".")[-1] for e in h.type.elts]
                out.append("CIfSchemaNeCast [" + "; ".join(cstr(n) for n in names) + "]")
                continue
            elif ast.unparse(b0) != inner[0]:
                raise _broken(site, f"body is `{ast.unparse(b0)[:80]}`")
        if term:
            out.append(term)
    return "[" + "; ".join(out) + "]"


def server_cancel(repo: Path) -> bool:
    fn = _find(_module(repo / "vgi_rpc/rpc/_server.py"), ast.FunctionDef, "_serve_stream", "_serve_stream")
    loops = [n for n in ast.walk(fn) if isinstance(n, ast.While) and ast.unparse(n.test) == "True"]
    if len(loops) != 1:
        raise _broken("_serve_stream", "expected exactly one `while True` loop")
    body = loops[0].body
    texts = [ast.unparse(s) for s in body]
    ci = next((i for i, s in enumerate(body) if isinstance(s, ast.If) and ast.unparse(s.test) == "custom_metadata is not None and custom_metadata.get(CANCEL_KEY) is not None"), None)
    if ci is None:
        raise _broken("_serve_stream", "CANCEL_KEY branch not found in the loop")
    br = body[ci]
    if not isinstance(br.body[-1], ast.Break) or ".process(" in ast.unparse(br):
        raise _broken("_serve_stream", "the cancel branch does not end with break / calls process")
    tries = [s for s in br.body if isinstance(s, ast.Try)]
    if len(tries) != 1 or [ast.unparse(s) for s in tries[0].body] != ["state.on_cancel(cancel_ctx)"] or [ast.unparse(h.type) for h in tries[0].handlers] != ["Exception"]:
        raise _broken("_serve_stream", "on_cancel is not called exactly once inside try/except Exception")
    if "cancelled = True" not in [ast.unparse(s) for s in br.body]:
        raise _broken("_serve_stream", "cancel branch does not record cancelled = True")
    pi = next((i for i, t in enumerate(texts) if t == "state.process(ab_in, out, process_ctx)"), None)
    coerce_call = "input_batch = _coerce_input_batch(input_batch, input_schema)"

    def _is_coerce(st: ast.stmt) -> bool:
        """The coercion call, bare or inside `try: ... except Exception: if release_fn is not None: release_fn(); raise`
        (a refused input's shm region is released, the TypeError still propagates to the loop's error handler)."""
        if ast.unparse(st) == coerce_call:
            return True
        return (isinstance(st, ast.Try) and [ast.unparse(x) for x in st.body] == [coerce_call] and not st.orelse and not st.finalbody
                and len(st.handlers) == 1 and st.handlers[0].type is not None and ast.unparse(st.handlers[0].type) == "Exception"
                and [ast.unparse(x) for x in st.handlers[0].body] == ["if release_fn is not None:\n    release_fn()", "raise"])

    co = next((i for i, st in enumerate(body) if _is_coerce(st)), None)
    if sum("_coerce_input_batch(" in t for t in texts) != 1:
        raise _broken("_serve_stream", "_coerce_input_batch is not called exactly once per loop turn")
    if pi is None or co is None or not (ci < co < pi):
        raise _broken("_serve_stream", "order is not: cancel branch, _coerce_input_batch, state.process")
    if texts[pi + 1] != "if not out.finished:\n    out.validate()" or texts[pi + 3] != "if out.finished:\n    break":
        raise _broken("_serve_stream", "process is not followed by validate-unless-finished / flush / break-if-finished")
    if sum(t.count(".process(") for t in texts) != 1:
        raise _broken("_serve_stream", "process is called more than once per loop turn")
    return True


def http_cancel_branch(repo: Path) -> bool:
    fn = _find(_module(repo / "vgi_rpc/http/server/_app_stream.py"), ast.FunctionDef, "_run_stream_exchange_sync", "_run_stream_exchange_sync")
    ifs = [n for n in ast.walk(fn) if isinstance(n, ast.If) and ast.unparse(n.test) in ("cancel_flag", "is_producer")]
    order = [ast.unparse(n.test) for n in sorted(ifs, key=lambda n: n.lineno)]
    if order != ["cancel_flag", "is_producer"]:
        raise _broken("_run_stream_exchange_sync", f"branch order {order}")
    br = next(n for n in ifs if ast.unparse(n.test) == "cancel_flag")
    src = ast.unparse(br)
    if "_run_http_producer_turn" in src or "_run_http_exchange_turn" in src or ".process(" in src:
        raise _broken("_run_stream_exchange_sync", "the cancel branch dispatches")
    tries = [n for n in ast.walk(br) if isinstance(n, ast.Try)]
    if len(tries) != 1 or [ast.unparse(s) for s in tries[0].body] != ["state_obj.on_cancel(cancel_ctx)"] or [ast.unparse(h.type) for h in tries[0].handlers] != ["Exception"]:
        raise _broken("_run_stream_exchange_sync", "on_cancel is not called exactly once inside try/except Exception")
    if not any(isinstance(n, ast.Return) for n in ast.walk(br)):
        raise _broken("_run_stream_exchange_sync", "the cancel branch does not return")
    flag = [n for n in ast.walk(fn) if isinstance(n, ast.Assign) and ast.unparse(n.targets[0]) == "cancel_flag"]
    if len(flag) != 1 or ast.unparse(flag[0].value) != "custom_metadata is not None and custom_metadata.get(CANCEL_KEY) is not None":
        raise _broken("_run_stream_exchange_sync", "cancel_flag is not the CANCEL_KEY test")
    return True


CHECK = "self._check_not_cancelled()"


def http_session_guard(repo: Path) -> bool:
    cls = _find(_module(repo / "vgi_rpc/http/_client.py"), ast.ClassDef, "HttpStreamSession", "HttpStreamSession")
    src = ast.unparse(cls)
    it = _find(cls, ast.FunctionDef, "__iter__", "HttpStreamSession.__iter__")
    ex = _find(cls, ast.FunctionDef, "exchange", "HttpStreamSession.exchange")
    ca = _find(cls, ast.FunctionDef, "cancel", "HttpStreamSession.cancel")
    cab = [ast.unparse(s) for s in _body(ca)]
    common = ["token = self._state_bytes", "self._finished = True", "self._state_bytes = None"]
    if not all(t in cab for t in common) or "if self._finished or self._state_bytes is None:" not in ast.unparse(ca):
        raise _broken("HttpStreamSession.cancel", "unexpected shape (finished / token handling)")
    if ast.unparse(_body(ex)[0 if "_cancelled" not in src else 1]).split("\n")[0] != "if self._state_bytes is None:":
        raise _broken("HttpStreamSession.exchange", "the missing-token guard is not where expected")
    # the session is retired BEFORE the request is attempted: a failing POST (swallowed) must not leave a live token
    stmts = _body(ca)
    i_try = next((i for i, st in enumerate(stmts) if isinstance(st, ast.Try)), None)
    if i_try is None or "self._client.post(" not in ast.unparse(stmts[i_try]) or [ast.unparse(x) for x in stmts[i_try].handlers[0].body] != ["return"]:
        raise _broken("HttpStreamSession.cancel", "the cancel POST is not inside try/except: return")
    if not (cab.index("token = self._state_bytes") < cab.index("self._finished = True") < i_try and cab.index("self._state_bytes = None") < i_try):
        raise _broken("HttpStreamSession.cancel", "`_finished = True; _state_bytes = None` do not precede the cancel POST")
    if "_cancelled" not in src:
        return False
    chk = _body(_find(cls, ast.FunctionDef, "_check_not_cancelled", "HttpStreamSession._check_not_cancelled"))
    if len(chk) != 1 or _guard_raise(chk[0], "self._cancelled", "RpcError", "_check_not_cancelled") != ["ProtocolError", "Stream has been closed or cancelled", ""]:
        raise _broken("HttpStreamSession._check_not_cancelled", "unexpected guard")
    if cab[:2] != ["self._cancelled = True", "self._pending_batches.clear()"]:
        raise _broken("HttpStreamSession.cancel", "does not start with `_cancelled = True; _pending_batches.clear()`")
    if ast.unparse(_body(ex)[0]) != CHECK or ast.unparse(_body(it)[0]) != CHECK:
        raise _broken("HttpStreamSession", "exchange / __iter__ do not check the cancelled flag first")
    if any(isinstance(n, ast.YieldFrom) for n in ast.walk(it)):
        raise _broken("HttpStreamSession.__iter__", "`yield from` cannot be followed by a cancelled check")
    n_yield = 0
    for node in ast.walk(it):
        for field in ("body", "orelse", "finalbody"):
            stmts = getattr(node, field, None)
            if not isinstance(stmts, list):
                continue
            for i, st in enumerate(stmts):
                if isinstance(st, ast.Expr) and isinstance(st.value, ast.Yield):
                    n_yield += 1
                    if i + 1 >= len(stmts) or ast.unparse(stmts[i + 1]) != CHECK:
                        raise _broken("HttpStreamSession.__iter__", "a yield is not followed by the cancelled check")
    if n_yield != 2 or sum(isinstance(n, ast.Yield) for n in ast.walk(it)) != 2:
        raise _broken("HttpStreamSession.__iter__", f"{n_yield} yield statements, expected 2 (pending, continuation)")
    assigns = [ast.unparse(n) for n in ast.walk(cls) if isinstance(n, (ast.Assign, ast.AnnAssign)) and "self._cancelled" in ast.unparse(n)]
    if sorted(assigns) != ["self._cancelled = False", "self._cancelled = True"]:
        raise _broken("HttpStreamSession", f"unexpected assignments to _cancelled: {assigns}")
    return True


def module(repo: Path) -> str:
    m_fin, m_val, m_em = collector(repo)
    (etype, emsg), guards = session(repo)
    b = lambda x: "true" if x else "false"  # noqa: E731
    return (
        "From Coq Require Import List NArith Bool.\nFrom VGI Require Import M_Wire M_WireLife.\nImport ListNotations.\nOpen Scope N_scope.\n"
        f"Definition gen_finish_msg : list N := {cstr(m_fin)}.\n"
        f"Definition gen_validate_msg : list N := {cstr(m_val)}.\n"
        f"Definition gen_emit_twice_msg : list N := {cstr(m_em)}.\n"
        f"Definition gen_closed_error : event := EError {cstr(etype)} {cstr(emsg)}.\n"
        f"Definition gen_session_guards : bool := {b(guards)}.\n"
        f"Definition gen_coerce_skeleton : list cstmt := {coerce_skeleton(repo)}.\n"
        f"Definition gen_srv_cancel_before_process : bool := {b(server_cancel(repo))}.\n"
        f"Definition gen_http_cancel_branch_first : bool := {b(http_cancel_branch(repo))}.\n"
        f"Definition gen_http_cancel_guard : bool := {b(http_session_guard(repo))}.\n"
    )
