"""Fail-closed translator for C04: which connection-preserving guards the source under test contains.

-> coq/gen/G_WireConn.v : ``gen_variant : variant`` (see coq/model/M_WireConn.v) plus the raw facts it was derived from.

1. ``RpcServer._serve_stream`` (vgi_rpc/rpc/_server.py): the FIRST ``try`` is the init call
   ``result = getattr(self._impl, info.name)(**kwargs)``; its only handler catches ``Exception``, writes an error stream
   and returns.  ``checks_stream_result`` = that try BODY also contains, after the call, exactly the two guards
       if not isinstance(result, Stream): raise TypeError(...)
       if info.header_type is not None and result.header is None: raise TypeError(...)
   (both or none; anything else in the body is outside what the model knows -> TranslationBroken).  Outside the try
   the header is still written by ``_write_stream_header`` when ``info.header_type is not None``.
2. ``_read_unary_response`` (vgi_rpc/rpc/_wire.py): the FIRST ``try`` wraps ``_read_batch_with_log_check``; every handler
   must re-raise (bare ``raise`` last).  ``unary_drains_any`` = a handler for ``Exception`` / ``BaseException`` calls
   ``_drain_stream(reader)`` before re-raising, and every handler in front of it only re-raises transport errors
   (ArrowInvalid / OSError / EOFError).  A handler for ``RpcError`` that drains must exist otherwise.
"""
from __future__ import annotations

import ast
from pathlib import Path

from vlib.core import TranslationBroken

GUARD_STREAM = "not isinstance(result, Stream)"
GUARD_HEADER = "info.header_type is not None and result.header is None"
INIT_CALL = "getattr(self._impl, info.name)(**kwargs)"
TRANSPORT = {"pa.ArrowInvalid", "OSError", "EOFError"}
# draining with or without releasing shm pointer batches met on the way: the same thing at frame level
DRAIN_CALLS = ("_drain_stream(reader)", "_drain_stream(reader, shm=shm)")


def _func(tree: ast.AST, name: str, site: str) -> ast.FunctionDef:
    for n in ast.walk(tree):
        if isinstance(n, ast.FunctionDef) and n.name == name:
            return n
    raise TranslationBroken(site, f"function {name} not found")


def _first_try(fn: ast.FunctionDef, site: str) -> ast.Try:
    for st in fn.body:
        if isinstance(st, ast.Try):
            return st
    raise TranslationBroken(site, "no top-level try statement")


def _names(h: ast.ExceptHandler, site: str) -> list[str]:
    if h.type is None:
        return ["BaseException"]
    elts = h.type.elts if isinstance(h.type, ast.Tuple) else [h.type]
    out = []
    for e in elts:
        if not isinstance(e, (ast.Name, ast.Attribute)):
            raise TranslationBroken(site, "unexpected exception expression " + ast.unparse(e))
        out.append(ast.unparse(e))
    return out


def _raises_typeerror(body: list[ast.stmt]) -> bool:
    return (len(body) == 1 and isinstance(body[0], ast.Raise) and isinstance(body[0].exc, ast.Call)
            and ast.unparse(body[0].exc.func) == "TypeError")


def serve_stream_checks(repo: Path) -> bool:
    src = repo / "vgi_rpc" / "rpc" / "_server.py"
    site = f"{src}:_serve_stream"
    fn = _func(ast.parse(src.read_text()), "_serve_stream", site)
    tr = _first_try(fn, site)
    if not tr.body:
        raise TranslationBroken(site, "empty try body")
    first = tr.body[0]
    val = first.value if isinstance(first, (ast.Assign, ast.AnnAssign)) else None
    tgt = (first.targets[0] if isinstance(first, ast.Assign) else first.target) if val is not None else None
    if val is None or ast.unparse(val) != INIT_CALL or ast.unparse(tgt) != "result":
        raise TranslationBroken(site, "first statement of the init try is not `result = " + INIT_CALL + "`")
    if len(tr.handlers) != 1 or _names(tr.handlers[0], site) != ["Exception"] or not isinstance(tr.handlers[0].body[-1], ast.Return):
        raise TranslationBroken(site, "init try: expected a single `except Exception` handler ending in return")
    if not any(isinstance(n, ast.Call) and ast.unparse(n.func) == "_write_error_stream" for n in ast.walk(tr.handlers[0])):
        raise TranslationBroken(site, "init handler does not write an error stream")
    guards = []
    for st in tr.body[1:]:
        if not isinstance(st, ast.If) or st.orelse or not _raises_typeerror(st.body):
            raise TranslationBroken(site, "unexpected statement in the init try: " + ast.unparse(st)[:80])
        guards.append(ast.unparse(st.test))
    if guards == []:
        checks = False
    elif guards == [GUARD_STREAM, GUARD_HEADER]:
        checks = True
    else:
        raise TranslationBroken(site, f"init try guards {guards!r}: expected none or [{GUARD_STREAM!r}, {GUARD_HEADER!r}]")
    # the header write must stay behind `if info.header_type is not None:` and after the try
    ok = False
    for st in fn.body:
        if isinstance(st, ast.If) and ast.unparse(st.test) == "info.header_type is not None" and st.lineno > tr.lineno:
            ok = any(isinstance(n, ast.Call) and ast.unparse(n.func) == "_write_stream_header" for n in ast.walk(st))
    if not ok:
        raise TranslationBroken(site, "`if info.header_type is not None: _write_stream_header(...)` not found after the init try")
    return checks


def unary_handlers(repo: Path) -> list[tuple[list[str], bool]]:
    src = repo / "vgi_rpc" / "rpc" / "_wire.py"
    site = f"{src}:_read_unary_response"
    fn = _func(ast.parse(src.read_text()), "_read_unary_response", site)
    tr = _first_try(fn, site)
    if len(tr.body) != 1 or "_read_batch_with_log_check(" not in ast.unparse(tr.body[0]):
        raise TranslationBroken(site, "first try does not wrap exactly the _read_batch_with_log_check call")
    if tr.finalbody or tr.orelse:
        raise TranslationBroken(site, "unexpected else/finally on the first try")
    out = []
    for h in tr.handlers:
        last = h.body[-1]
        if not (isinstance(last, ast.Raise) and last.exc is None):
            raise TranslationBroken(site, f"handler at line {h.lineno} does not end in a bare raise")
        rest = h.body[:-1]
        if rest == []:
            drains = False
        elif len(rest) == 1 and isinstance(rest[0], ast.Expr) and ast.unparse(rest[0].value) in DRAIN_CALLS:
            drains = True
        else:
            raise TranslationBroken(site, f"handler at line {h.lineno}: unexpected body " + ast.unparse(h)[:100])
        out.append((_names(h, site), drains))
    return out


def unary_drains_any(handlers: list[tuple[list[str], bool]], site: str = "_read_unary_response") -> bool:
    rpc_ok = False
    for names, drains in handlers:
        broad = bool({"Exception", "BaseException"} & set(names))
        if broad:
            if drains:
                return True
            raise TranslationBroken(site, "a broad handler that re-raises without draining hides the RpcError drain")
        if set(names) <= TRANSPORT and not drains:
            continue
        if names == ["RpcError"] and drains:
            rpc_ok = True
            continue
        raise TranslationBroken(site, f"unexpected handler {names!r} drains={drains}")
    if not rpc_ok:
        raise TranslationBroken(site, "no draining RpcError handler")
    return False


def drain_reads_to_eos(repo: Path) -> None:
    """``_drain_stream`` = ``while True:`` read the next batch; ``StopIteration`` -> return.  Whatever else the loop body
    does with a batch (releasing a shm region) must not leave the loop: no break / return / raise outside that handler."""
    src = repo / "vgi_rpc" / "rpc" / "_wire.py"
    site = f"{src}:_drain_stream"
    fn = _func(ast.parse(src.read_text()), "_drain_stream", site)
    body = [st for st in fn.body if not (isinstance(st, ast.Expr) and isinstance(st.value, ast.Constant))]
    if len(body) != 1 or not isinstance(body[0], ast.While) or ast.unparse(body[0].test) != "True" or body[0].orelse:
        raise TranslationBroken(site, "body is not a single `while True:` loop")
    loop = body[0].body
    first = loop[0] if loop else None
    if not (isinstance(first, ast.Try) and len(first.handlers) == 1 and _names(first.handlers[0], site) == ["StopIteration"]
            and len(first.handlers[0].body) == 1 and isinstance(first.handlers[0].body[0], ast.Return) and first.handlers[0].body[0].value is None
            and not first.finalbody and not first.orelse and len(first.body) == 1
            and ".read_next_batch" in ast.unparse(first.body[0]) and "reader." in ast.unparse(first.body[0])):
        raise TranslationBroken(site, "loop does not start with `try: reader.read_next_batch...() except StopIteration: return`")
    for st in loop[1:]:
        for n in ast.walk(st):
            if isinstance(n, (ast.Break, ast.Return, ast.Raise, ast.Continue, ast.Try, ast.While, ast.For)):
                raise TranslationBroken(site, "control flow after the read inside the drain loop: " + ast.unparse(st)[:80])


def variant_module(repo: Path) -> str:
    drain_reads_to_eos(repo)
    checks = serve_stream_checks(repo)
    hs = unary_handlers(repo)
    drains = unary_drains_any(hs)

    def q(x: str) -> str:
        return '"' + x.replace('"', '""') + '"'

    b = lambda x: "true" if x else "false"  # noqa: E731
    rows = "; ".join("([" + "; ".join(q(n) for n in names) + f"], {b(d)})" for names, d in hs)
    return (
        "From Coq Require Import List String Bool.\nFrom VGI Require Import M_WireConn.\nImport ListNotations.\nLocal Open Scope string_scope.\n"
        f"(* _read_unary_response, first try: (caught classes, drains before re-raising) in source order *)\n"
        f"Definition gen_unary_handlers : list (list string * bool) := [{rows}].\n"
        f"Definition gen_variant : variant := {{| checks_stream_result := {b(checks)}; unary_drains_any := {b(drains)} |}}.\n"
    )
