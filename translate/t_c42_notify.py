"""Fail-closed translator for C42: the source material of the serve-start notification -> coq/gen/G_ServeStart.v.

Emits
  gen_guard         : option kind -> bool   the middleware's unlocked pre-check (true = call _notify_transport),
                                            from the test of the single ``if`` of _TransportNotifyMiddleware.process_request
  gen_http_binding  : binding               the arguments of that _notify_transport call
  gen_notify_prog   : list nop              the statements of RpcServer._notify_transport under ``with self._transport_lock``
  gen_serve_table   : list (tclass * binding)   the isinstance chain of RpcServer.serve, in source order, + the else arm
Also checks (raises otherwise) that _notify_transport is called from exactly these two sites in the package, that
serve() calls it before its request loop, and that the middleware keeps no state of its own (only ``_server``).  Any shape not listed here raises TranslationBroken.
"""
from __future__ import annotations

import ast
from pathlib import Path

from vlib.core import TranslationBroken

KINDS = {"PIPE": "KPipe", "HTTP": "KHttp", "UNIX": "KUnix", "TCP": "KTcp"}
TCLASSES = {"ShmPipeTransport": "TShmPipe", "UnixTransport": "TUnix", "TcpTransport": "TTcp", "PipeTransport": "TPipe"}


def _parse(path: Path) -> ast.Module:
    try:
        return ast.parse(path.read_text())
    except (OSError, SyntaxError) as e:
        raise TranslationBroken(str(path), f"cannot parse: {e}") from e


def _find_method(tree: ast.Module, cls: str, name: str, site: str) -> ast.FunctionDef:
    for node in tree.body:
        if isinstance(node, ast.ClassDef) and node.name == cls:
            found = [n for n in node.body if isinstance(n, ast.FunctionDef) and n.name == name]
            if len(found) != 1:
                raise TranslationBroken(site, f"{cls}.{name}: {len(found)} definitions")
            return found[0]
    raise TranslationBroken(site, f"class {cls} not found")


def _body(fn: ast.FunctionDef) -> list[ast.stmt]:
    b = list(fn.body)
    if b and isinstance(b[0], ast.Expr) and isinstance(b[0].value, ast.Constant) and isinstance(b[0].value.value, str):
        b = b[1:]
    return b


def _is_attr_chain(n: ast.expr, chain: list[str]) -> bool:
    for name in reversed(chain[1:]):
        if not (isinstance(n, ast.Attribute) and n.attr == name):
            return False
        n = n.value
    return isinstance(n, ast.Name) and n.id == chain[0]


def _kind_const(n: ast.expr, site: str) -> str:
    if isinstance(n, ast.Attribute) and isinstance(n.value, ast.Name) and n.value.id == "TransportKind" and n.attr in KINDS:
        return KINDS[n.attr]
    raise TranslationBroken(site, f"not a TransportKind member: {ast.dump(n)[:80]}")


def _caps_const(n: ast.expr, site: str) -> str:
    """frozenset() -> false ; frozenset({"shm"}) -> true"""
    if isinstance(n, ast.Call) and isinstance(n.func, ast.Name) and n.func.id == "frozenset" and not n.keywords:
        if not n.args:
            return "false"
        if len(n.args) == 1 and isinstance(n.args[0], ast.Set) and len(n.args[0].elts) == 1:
            e = n.args[0].elts[0]
            if isinstance(e, ast.Constant) and e.value == "shm":
                return "true"
    raise TranslationBroken(site, f"capabilities are neither frozenset() nor frozenset({{'shm'}}): {ast.dump(n)[:100]}")


# ---- the pre-check ------------------------------------------------------------------------------------------------


def _guard_expr(n: ast.expr, site: str) -> str:
    """Boolean expression over ``self._server.transport_kind`` -> Coq term over ``k : option kind``."""
    if isinstance(n, ast.BoolOp):
        op = "&&" if isinstance(n.op, ast.And) else "||"
        return "(" + f" {op} ".join(_guard_expr(v, site) for v in n.values) + ")"
    if isinstance(n, ast.UnaryOp) and isinstance(n.op, ast.Not):
        return f"(negb {_guard_expr(n.operand, site)})"
    if isinstance(n, ast.Compare) and len(n.ops) == 1 and len(n.comparators) == 1:
        left, op, right = n.left, n.ops[0], n.comparators[0]
        if not _is_attr_chain(left, ["self", "_server", "transport_kind"]):
            left, right = right, left
        if not _is_attr_chain(left, ["self", "_server", "transport_kind"]):
            raise TranslationBroken(site, f"comparison does not read self._server.transport_kind: {ast.dump(n)[:100]}")
        if isinstance(right, ast.Constant) and right.value is None:
            rhs = "None"
        else:
            rhs = f"(Some {_kind_const(right, site)})"
        if isinstance(op, (ast.Is, ast.Eq)):
            return f"(okind_eqb k {rhs})"
        if isinstance(op, (ast.IsNot, ast.NotEq)):
            return f"(negb (okind_eqb k {rhs}))"
    raise TranslationBroken(site, f"unsupported pre-check expression {ast.dump(n)[:120]}")


def _stateless_middleware(tree: ast.Module, site: str) -> None:
    """Source obligation: the middleware keeps no state of its own.

    The model's only binding state is RpcServer's (kind, capabilities); a flag or cache in the middleware would be a
    further state component that has to be invalidated on every rebinding.  Accept exactly: ``__slots__ = ("_server",)``,
    an ``__init__`` that only stores the server, and ``process_request`` -- no other attribute, method or class variable.
    """
    cls = next((n for n in tree.body if isinstance(n, ast.ClassDef) and n.name == "_TransportNotifyMiddleware"), None)
    if cls is None:
        raise TranslationBroken(site, "class _TransportNotifyMiddleware not found")
    if cls.bases or cls.keywords or cls.decorator_list:
        raise TranslationBroken(site, "the middleware has bases / decorators")
    for node in _body(cls):  # type: ignore[arg-type]
        if isinstance(node, ast.Assign) and len(node.targets) == 1 and isinstance(node.targets[0], ast.Name) and node.targets[0].id == "__slots__":
            try:
                slots = ast.literal_eval(node.value)
            except Exception as e:
                raise TranslationBroken(site, "__slots__ is not a literal") from e
            if tuple(slots) != ("_server",):
                raise TranslationBroken(site, f"the middleware keeps state of its own: __slots__ = {slots!r} (expected only '_server')")
        elif isinstance(node, ast.FunctionDef) and node.name == "__init__":
            body = _body(node)
            ok = (len(body) == 1 and isinstance(body[0], ast.Assign) and len(body[0].targets) == 1
                  and _is_attr_chain(body[0].targets[0], ["self", "_server"]) and isinstance(body[0].value, ast.Name) and body[0].value.id == "server")
            if not ok:
                raise TranslationBroken(site, "__init__ does more than `self._server = server` (the middleware keeps state of its own)")
        elif isinstance(node, ast.FunctionDef) and node.name == "process_request":
            for sub in ast.walk(node):
                if isinstance(sub, (ast.Assign, ast.AugAssign, ast.AnnAssign, ast.Global, ast.Nonlocal, ast.NamedExpr, ast.Delete)):
                    raise TranslationBroken(site, f"process_request assigns state: {ast.unparse(sub)[:80]}")
        else:
            raise TranslationBroken(site, f"unexpected member of the middleware class: {ast.unparse(node)[:80]}")
    if not any(isinstance(n, ast.Assign) and isinstance(n.targets[0], ast.Name) and n.targets[0].id == "__slots__" for n in cls.body):
        raise TranslationBroken(site, "the middleware has no __slots__ (instances could grow state)")


def guard_definitions(mw_path: Path) -> str:
    site = f"{mw_path}:_TransportNotifyMiddleware.process_request"
    tree = _parse(mw_path)
    _stateless_middleware(tree, f"{mw_path}:_TransportNotifyMiddleware")
    fn = _find_method(tree, "_TransportNotifyMiddleware", "process_request", site)
    body = _body(fn)
    if len(body) != 1 or not isinstance(body[0], ast.If) or body[0].orelse:
        raise TranslationBroken(site, "body is not a single `if` without else")
    iff = body[0]
    if len(iff.body) != 1 or not isinstance(iff.body[0], ast.Expr) or not isinstance(iff.body[0].value, ast.Call):
        raise TranslationBroken(site, "the `if` body is not a single call")
    call = iff.body[0].value
    if not _is_attr_chain(call.func, ["self", "_server", "_notify_transport"]) or len(call.args) != 2 or call.keywords:
        raise TranslationBroken(site, "the `if` body is not self._server._notify_transport(kind, capabilities)")
    k = _kind_const(call.args[0], site)
    c = _caps_const(call.args[1], site)
    g = _guard_expr(iff.test, site)
    return (
        f"Definition gen_guard (k : option kind) : bool := {g}.\n"
        f"Definition gen_http_binding : binding := ({k}, {c}).\n"
    )


# ---- _notify_transport ---------------------------------------------------------------------------------------------


def _self_attr(n: ast.expr, attr: str) -> bool:
    return _is_attr_chain(n, ["self", attr])


def notify_definitions(server_path: Path) -> str:
    site = f"{server_path}:RpcServer._notify_transport"
    tree = _parse(server_path)
    fn = _find_method(tree, "RpcServer", "_notify_transport", site)
    params = [a.arg for a in fn.args.args]
    if params != ["self", "kind", "capabilities"]:
        raise TranslationBroken(site, f"parameters {params}")
    body = _body(fn)
    if len(body) != 1 or not isinstance(body[0], ast.With):
        raise TranslationBroken(site, "body is not a single `with`")
    w = body[0]
    if len(w.items) != 1 or w.items[0].optional_vars is not None or not _self_attr(w.items[0].context_expr, "_transport_lock"):
        raise TranslationBroken(site, "the with item is not self._transport_lock")
    ops: list[str] = []
    hook_var: str | None = None
    for st in w.body:
        # if self._transport_kind == kind and self._transport_capabilities == capabilities: return
        if isinstance(st, ast.If) and not st.orelse and len(st.body) == 1 and isinstance(st.body[0], ast.Return) and st.body[0].value is None:
            t = st.test
            ok = (
                isinstance(t, ast.BoolOp) and isinstance(t.op, ast.And) and len(t.values) == 2
                and all(isinstance(v, ast.Compare) and len(v.ops) == 1 and isinstance(v.ops[0], ast.Eq) for v in t.values)
                and _self_attr(t.values[0].left, "_transport_kind") and isinstance(t.values[0].comparators[0], ast.Name) and t.values[0].comparators[0].id == "kind"  # type: ignore[attr-defined]
                and _self_attr(t.values[1].left, "_transport_capabilities") and isinstance(t.values[1].comparators[0], ast.Name) and t.values[1].comparators[0].id == "capabilities"  # type: ignore[attr-defined]
            )
            if not ok:
                raise TranslationBroken(site, f"idempotence test has an unexpected shape: {ast.dump(t)[:160]}")
            ops.append("OCmpReturn")
            continue
        # hook = getattr(self._impl, "on_serve_start", None)
        if isinstance(st, ast.Assign) and len(st.targets) == 1 and isinstance(st.targets[0], ast.Name) and isinstance(st.value, ast.Call) and isinstance(st.value.func, ast.Name) and st.value.func.id == "getattr":
            a = st.value.args
            if not (len(a) == 3 and _self_attr(a[0], "_impl") and isinstance(a[1], ast.Constant) and a[1].value == "on_serve_start" and isinstance(a[2], ast.Constant) and a[2].value is None):
                raise TranslationBroken(site, "getattr(...) is not getattr(self._impl, 'on_serve_start', None)")
            hook_var = st.targets[0].id
            continue
        # if callable(hook): try: hook(kind) except Exception: _logger.exception(...); raise
        if isinstance(st, ast.If) and isinstance(st.test, ast.Call) and isinstance(st.test.func, ast.Name) and st.test.func.id == "callable":
            if hook_var is None or st.orelse or len(st.test.args) != 1 or not (isinstance(st.test.args[0], ast.Name) and st.test.args[0].id == hook_var):
                raise TranslationBroken(site, "callable(...) test does not test the hook")
            if len(st.body) != 1 or not isinstance(st.body[0], ast.Try):
                raise TranslationBroken(site, "hook call is not wrapped in a single try")
            tr = st.body[0]
            if tr.orelse or tr.finalbody or len(tr.handlers) != 1 or len(tr.body) != 1:
                raise TranslationBroken(site, "try around the hook has else/finally/several handlers")
            c = tr.body[0]
            if not (isinstance(c, ast.Expr) and isinstance(c.value, ast.Call) and isinstance(c.value.func, ast.Name) and c.value.func.id == hook_var
                    and len(c.value.args) == 1 and isinstance(c.value.args[0], ast.Name) and c.value.args[0].id == "kind" and not c.value.keywords):
                raise TranslationBroken(site, "the try body is not hook(kind)")
            h = tr.handlers[0]
            if not (isinstance(h.type, ast.Name) and h.type.id in ("Exception", "BaseException")):
                raise TranslationBroken(site, "handler does not catch Exception")
            if not h.body or not isinstance(h.body[-1], ast.Raise) or h.body[-1].exc is not None:
                raise TranslationBroken(site, "handler does not end in a bare raise")
            for x in h.body[:-1]:
                if not (isinstance(x, ast.Expr) and isinstance(x.value, ast.Call) and _is_attr_chain(x.value.func, ["_logger", "exception"])):
                    raise TranslationBroken(site, "handler does something besides logging before raise")
            ops.append("OHookLogRaise")
            continue
        if isinstance(st, ast.Assign) and len(st.targets) == 1 and _self_attr(st.targets[0], "_transport_kind") and isinstance(st.value, ast.Name) and st.value.id == "kind":
            ops.append("OSetKind")
            continue
        if isinstance(st, ast.Assign) and len(st.targets) == 1 and _self_attr(st.targets[0], "_transport_capabilities") and isinstance(st.value, ast.Name) and st.value.id == "capabilities":
            ops.append("OSetCaps")
            continue
        raise TranslationBroken(site, f"unexpected statement under the lock: {ast.unparse(st)[:100]}")
    return f"Definition gen_notify_prog : list nop := [{'; '.join(ops)}].\n"


# ---- serve() --------------------------------------------------------------------------------------------------------


def serve_definitions(server_path: Path) -> str:
    site = f"{server_path}:RpcServer.serve"
    fn = _find_method(_parse(server_path), "RpcServer", "serve", site)
    body = _body(fn)
    if len(body) < 3:
        raise TranslationBroken(site, "body too short")
    st0, st1, st2 = body[0], body[1], body[2]
    if not (isinstance(st0, ast.AnnAssign) and isinstance(st0.target, ast.Name) and st0.target.id == "capabilities" and st0.value is not None):
        raise TranslationBroken(site, "first statement is not `capabilities: ... = frozenset()`")
    default_caps = _caps_const(st0.value, site)
    rows: list[str] = []
    node: ast.stmt | None = st1
    else_row: str | None = None
    while node is not None:
        if not isinstance(node, ast.If):
            raise TranslationBroken(site, "second statement is not the isinstance chain")
        t = node.test
        if not (isinstance(t, ast.Call) and isinstance(t.func, ast.Name) and t.func.id == "isinstance" and len(t.args) == 2
                and isinstance(t.args[0], ast.Name) and t.args[0].id == "transport" and isinstance(t.args[1], ast.Name)):
            raise TranslationBroken(site, f"chain test is not isinstance(transport, <Class>): {ast.unparse(t)[:80]}")
        cls = t.args[1].id
        if cls not in TCLASSES:
            raise TranslationBroken(site, f"unknown transport class {cls}")
        rows.append(f"({TCLASSES[cls]}, {_arm(node.body, default_caps, site)})")
        if len(node.orelse) == 1 and isinstance(node.orelse[0], ast.If):
            node = node.orelse[0]
        else:
            if not node.orelse:
                raise TranslationBroken(site, "isinstance chain has no else arm")
            else_row = f"(TOther, {_arm(node.orelse, default_caps, site)})"
            node = None
    rows.append(else_row or "")
    if not (isinstance(st2, ast.Expr) and isinstance(st2.value, ast.Call) and _is_attr_chain(st2.value.func, ["self", "_notify_transport"])
            and [ast.unparse(a) for a in st2.value.args] == ["kind", "capabilities"] and not st2.value.keywords):
        raise TranslationBroken(site, "third statement is not self._notify_transport(kind, capabilities)")
    # nothing before the notification may already serve, and the notification is not repeated later
    for later in body[3:]:
        for sub in ast.walk(later):
            if isinstance(sub, ast.Attribute) and sub.attr == "_notify_transport":
                raise TranslationBroken(site, "_notify_transport is called again after the first notification")
    return f"Definition gen_serve_table : list (tclass * binding) := [{'; '.join(rows)}].\n"


def _arm(stmts: list[ast.stmt], default_caps: str, site: str) -> str:
    kind: str | None = None
    caps = default_caps
    for s in stmts:
        if isinstance(s, ast.Assign) and len(s.targets) == 1 and isinstance(s.targets[0], ast.Name):
            if s.targets[0].id == "kind":
                kind = _kind_const(s.value, site)
                continue
            if s.targets[0].id == "capabilities":
                caps = _caps_const(s.value, site)
                continue
        raise TranslationBroken(site, f"unexpected statement in an isinstance arm: {ast.unparse(s)[:80]}")
    if kind is None:
        raise TranslationBroken(site, "an arm does not assign kind")
    return f"({kind}, {caps})"


# ---- call sites -------------------------------------------------------------------------------------------------------


def call_sites(repo: Path) -> list[str]:
    """Every place in the package that mentions _notify_transport outside its definition: 'file:function'."""
    out: list[str] = []
    for p in sorted((repo / "vgi_rpc").rglob("*.py")):
        txt = p.read_text()
        if "_notify_transport" not in txt and "_transport_kind" not in txt and "_transport_capabilities" not in txt:
            continue
        tree = _parse(p)
        for fn in ast.walk(tree):
            if not isinstance(fn, (ast.FunctionDef, ast.AsyncFunctionDef)):
                continue
            for sub in ast.walk(fn):
                if isinstance(sub, ast.Call) and isinstance(sub.func, ast.Attribute) and sub.func.attr == "_notify_transport":
                    out.append(f"{p.relative_to(repo)}:{fn.name}:call")
                # writers of the binding state
                if isinstance(sub, (ast.Assign, ast.AnnAssign, ast.AugAssign)):
                    tgts = sub.targets if isinstance(sub, ast.Assign) else [sub.target]
                    for t in tgts:
                        if isinstance(t, ast.Attribute) and t.attr in ("_transport_kind", "_transport_capabilities"):
                            out.append(f"{p.relative_to(repo)}:{fn.name}:write:{t.attr}")
    return sorted(out)


EXPECTED_SITES = sorted([
    "vgi_rpc/http/server/_middleware.py:process_request:call",
    "vgi_rpc/rpc/_server.py:serve:call",
    "vgi_rpc/rpc/_server.py:__init__:write:_transport_kind",
    "vgi_rpc/rpc/_server.py:__init__:write:_transport_capabilities",
    "vgi_rpc/rpc/_server.py:_notify_transport:write:_transport_kind",
    "vgi_rpc/rpc/_server.py:_notify_transport:write:_transport_capabilities",
])


def gen_text(repo: Path) -> str:
    sites = call_sites(repo)
    if sites != EXPECTED_SITES:
        extra = sorted(set(sites) - set(EXPECTED_SITES))
        missing = sorted(set(EXPECTED_SITES) - set(sites))
        raise TranslationBroken("vgi_rpc", f"callers/writers of the binding changed: extra={extra} missing={missing}")
    server = repo / "vgi_rpc" / "rpc" / "_server.py"
    mw = repo / "vgi_rpc" / "http" / "server" / "_middleware.py"
    return (
        "From Coq Require Import List Bool.\nFrom VGI Require Import M_ServeStart.\nImport ListNotations.\n"
        + guard_definitions(mw)
        + notify_definitions(server)
        + serve_definitions(server)
    )
