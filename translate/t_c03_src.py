"""Fail-closed translator for C03: the shape of the dataclass (de)serialization code -> coq/gen/G_Dataclass.v.

Sources: vgi_rpc/utils.py (``_infer_arrow_type``, ``ArrowSerializableDataclass._convert_value_for_serialization``,
``._convert_value_for_deserialization``, ``_COMPACT_TYPES``, ``COMPACT_MARKER`` and -- compared whole -- the functions listed in
``translate/t_c03_expected.py``) and vgi_rpc/http/server/_state_token.py (``_UNION_STATE_MARKER`` and the three state-bytes
functions).

Output: ``gen_cfg : cfg`` (coq/model/M_Dataclass.v) with
  c_smap / c_enum_aty      the ``type_map`` literal and the Enum arm of ``_infer_arrow_type``
  c_sord                   order of the arms of ``_convert_value_for_serialization`` (each arm's body is compared with the body
                           the model was written against)
  c_dord                   order of the arms of ``_convert_value_for_deserialization`` (same)
  c_set_rec / c_dict_rec   whether the frozenset / dict arms convert their elements back (two accepted bodies each)
  c_compact                ``_COMPACT_TYPES``
  c_marker, c_union_marker the two marker bytes
Everything else the model relies on (``_to_row_dict``, ``_serialize``, ``deserialize_from_batch``, ``_validate_single_row_batch``,
the compact codec, the state-bytes dispatch, ...) is compared statement for statement (``ast.unparse`` after dropping docstrings
and blanking message strings) with the text in t_c03_expected.py; any difference raises TranslationBroken.
"""
from __future__ import annotations

import ast
import copy
from pathlib import Path
from typing import Any

from vlib.core import TranslationBroken

UT = "vgi_rpc/utils.py"
ST = "vgi_rpc/http/server/_state_token.py"


# ---- helpers ------------------------------------------------------------------------------------------------
class _Blank(ast.NodeTransformer):
    """Messages are not behaviour the model depends on: blank f-strings and long string constants."""

    def visit_JoinedStr(self, node: ast.JoinedStr) -> ast.AST:
        return ast.copy_location(ast.Constant(value="<msg>"), node)

    def visit_Constant(self, node: ast.Constant) -> ast.AST:
        if isinstance(node.value, str) and len(node.value) > 40:
            return ast.copy_location(ast.Constant(value="<msg>"), node)
        return node


def norm_fn(fn: ast.FunctionDef) -> str:
    fn = copy.deepcopy(fn)
    b = fn.body
    if b and isinstance(b[0], ast.Expr) and isinstance(b[0].value, ast.Constant) and isinstance(b[0].value.value, str):
        fn.body = b[1:] or [ast.Pass()]
    fn = _Blank().visit(fn)
    ast.fix_missing_locations(fn)
    return ast.unparse(fn)


def norm_stmts(stmts: list[ast.stmt]) -> str:
    out = []
    for s in stmts:
        s2 = _Blank().visit(copy.deepcopy(s))
        ast.fix_missing_locations(s2)
        out.append(ast.unparse(s2))
    return "\n".join(out)


def norm_src(src: str) -> str:
    return norm_stmts(ast.parse(src).body)


def parse(repo: Path, rel: str) -> ast.Module:
    p = repo / rel
    try:
        return ast.parse(p.read_text())
    except (OSError, SyntaxError) as e:
        raise TranslationBroken(rel, f"cannot parse: {e}") from e


def find_fn(tree: ast.Module, name: str, site: str, cls: str | None = None) -> ast.FunctionDef:
    scope: Any = tree
    if cls is not None:
        cs = [n for n in tree.body if isinstance(n, ast.ClassDef) and n.name == cls]
        if len(cs) != 1:
            raise TranslationBroken(site, f"class {cls}: expected exactly one definition")
        scope = cs[0]
    fs = [n for n in scope.body if isinstance(n, ast.FunctionDef) and n.name == name]
    if len(fs) != 1:
        raise TranslationBroken(site, f"{name}: expected exactly one definition")
    return fs[0]


def body_of(fn: ast.FunctionDef) -> list[ast.stmt]:
    b = list(fn.body)
    if b and isinstance(b[0], ast.Expr) and isinstance(b[0].value, ast.Constant) and isinstance(b[0].value.value, str):
        b = b[1:]
    return b


def module_value(tree: ast.Module, name: str, site: str) -> ast.expr:
    found = []
    for node in tree.body:
        if isinstance(node, ast.Assign) and len(node.targets) == 1 and isinstance(node.targets[0], ast.Name) and node.targets[0].id == name:
            found.append(node.value)
        elif isinstance(node, ast.AnnAssign) and isinstance(node.target, ast.Name) and node.target.id == name and node.value is not None:
            found.append(node.value)
    if len(found) != 1:
        raise TranslationBroken(site, f"{name}: expected exactly one module-level assignment, found {len(found)}")
    return found[0]


def one_byte(e: ast.expr, site: str, name: str) -> int:
    if not (isinstance(e, ast.Constant) and isinstance(e.value, bytes) and len(e.value) == 1):
        raise TranslationBroken(site, f"{name} is not a one-byte literal: {ast.unparse(e)[:60]}")
    return e.value[0]


SCALARS = {"str": "SStr", "bytes": "SBytes", "int": "SInt", "float": "SFloat", "bool": "SBool"}
PA_TYPES = {"pa.string()": "AStr", "pa.binary()": "ABin", "pa.int64()": "AI64", "pa.float64()": "AF64", "pa.bool_()": "ABool",
            "pa.dictionary(pa.int16(), pa.string())": "ADictStr"}


def _scalar(e: ast.expr, site: str) -> str:
    if isinstance(e, ast.Name) and e.id in SCALARS:
        return SCALARS[e.id]
    raise TranslationBroken(site, f"not one of the five scalar types: {ast.unparse(e)[:60]}")


def _expect_body(stmts: list[ast.stmt], expected_src: str, site: str, what: str) -> None:
    got, want = norm_stmts(stmts), norm_src(expected_src)
    if got != want:
        raise TranslationBroken(site, f"{what}: body differs from the modelled one:\n--- found\n{got[:600]}\n--- modelled\n{want[:600]}")


# ---- _infer_arrow_type ----------------------------------------------------------------------------------------
INFER_GUARDS = [
    "inner_type is not python_type",
    "get_origin(python_type) is Annotated",
    "hasattr(python_type, '__supertype__')",
    "isinstance(python_type, type) and issubclass(python_type, Enum)",
    "hasattr(python_type, 'ARROW_SCHEMA') and isinstance(getattr(python_type, 'ARROW_SCHEMA', None), pa.Schema)",
    "origin is list",
    "origin is dict",
    "origin is frozenset",
    "python_type is pa.RecordBatch or python_type is pa.Schema",
    "isinstance(python_type, type) and python_type in type_map",
    "python_type is tuple or origin is tuple",
]
INFER_BODIES = {
    0: "return _infer_arrow_type(inner_type)",
    3: "return pa.dictionary(pa.int16(), pa.string())",
    4: "arrow_schema: pa.Schema = getattr(python_type, 'ARROW_SCHEMA')\nstruct_fields = [pa.field(f.name, f.type, nullable=f.nullable) for f in arrow_schema]\nreturn pa.struct(struct_fields)",
    5: "if args:\n    element_type = _infer_arrow_type(args[0])\n    return pa.list_(element_type)\nreturn pa.list_(pa.string())",
    6: "if len(args) >= 2:\n    key_type = _infer_arrow_type(args[0])\n    value_type = _infer_arrow_type(args[1])\n    return pa.map_(key_type, value_type)\nreturn pa.map_(pa.string(), pa.string())",
    7: "if args:\n    element_type = _infer_arrow_type(args[0])\n    return pa.list_(element_type)\nreturn pa.list_(pa.string())",
    8: "return pa.binary()",
    9: "return type_map[python_type]",
}


def infer_tables(tree: ast.Module) -> tuple[list[tuple[str, str]], str]:
    site = f"{UT}:_infer_arrow_type"
    fn = find_fn(tree, "_infer_arrow_type", site)
    ifs = [s for s in body_of(fn) if isinstance(s, ast.If)]
    guards = [ast.unparse(s.test) for s in ifs]
    if guards != INFER_GUARDS:
        raise TranslationBroken(site, f"cascade of guards differs from the modelled one: {guards}")
    for i, src in INFER_BODIES.items():
        if ifs[i].orelse:
            raise TranslationBroken(site, f"arm {i} has an else branch")
        _expect_body(ifs[i].body, src, site, f"arm `{guards[i]}`")
    enum_aty = PA_TYPES["pa.dictionary(pa.int16(), pa.string())"]
    tm = [s for s in body_of(fn) if isinstance(s, ast.AnnAssign) and isinstance(s.target, ast.Name) and s.target.id == "type_map"]
    if len(tm) != 1 or not isinstance(tm[0].value, ast.Dict):
        raise TranslationBroken(site, "type_map literal not found")
    smap = []
    for k, v in zip(tm[0].value.keys, tm[0].value.values):
        if k is None:
            raise TranslationBroken(site, "type_map uses ** expansion")
        vs = ast.unparse(v)
        if vs not in PA_TYPES:
            raise TranslationBroken(site, f"type_map value outside the modelled Arrow types: {vs}")
        smap.append((_scalar(k, site), PA_TYPES[vs]))
    return smap, enum_aty


# ---- _convert_value_for_serialization -------------------------------------------------------------------------
SER_ARMS = {
    "value_type is str or value_type is int or value_type is float or (value_type is bool) or (value_type is bytes)": ("SbScalar", "return value"),
    "isinstance(value, pa.Schema)": ("SbSchema", "return value.serialize().to_pybytes()"),
    "isinstance(value, pa.RecordBatch)": (
        "SbBatch",
        "sink = pa.BufferOutputStream()\nwith new_ipc_stream(sink, value.schema) as writer:\n    writer.write_batch(value)\nreturn sink.getvalue().to_pybytes()",
    ),
    "isinstance(value, ArrowSerializableDataclass)": ("SbData", "return value._to_row_dict()"),
    "isinstance(value, _BytesSerializable)": ("SbBytesSer", "return value.serialize_to_bytes()"),
    "isinstance(value, Enum)": ("SbEnum", "return value.name"),
    "isinstance(value, frozenset)": ("SbSet", "return [self._convert_value_for_serialization(v) for v in value]"),
    "isinstance(value, dict)": (
        "SbDict",
        "return [(self._convert_value_for_serialization(k), self._convert_value_for_serialization(v)) for k, v in value.items()]",
    ),
    "isinstance(value, list)": ("SbList", "return [self._convert_value_for_serialization(v) for v in value]"),
}


def ser_order(tree: ast.Module) -> list[str]:
    site = f"{UT}:_convert_value_for_serialization"
    fn = find_fn(tree, "_convert_value_for_serialization", site, "ArrowSerializableDataclass")
    b = body_of(fn)
    if len(b) < 4:
        raise TranslationBroken(site, "body too short")
    _expect_body(b[:2], "if value is None:\n    return None\nvalue_type = type(value)", site, "prefix")
    _expect_body(b[-1:], "return value", site, "final statement")
    order = []
    for s in b[2:-1]:
        if not isinstance(s, ast.If) or s.orelse:
            raise TranslationBroken(site, f"statement outside the cascade: {ast.unparse(s)[:100]}")
        g = ast.unparse(s.test)
        if g not in SER_ARMS:
            raise TranslationBroken(site, f"unknown guard: {g}")
        tag, src = SER_ARMS[g]
        _expect_body(s.body, src, site, f"arm `{g}`")
        if tag in order:
            raise TranslationBroken(site, f"arm {tag} occurs twice")
        order.append(tag)
    return order


# ---- _convert_value_for_deserialization -----------------------------------------------------------------------
DE_SCHEMA = """
if not isinstance(value, bytes):
    raise TypeError(f"x")
if len(value) == 0:
    return None
return pa.ipc.read_schema(pa.py_buffer(value))
"""
DE_BATCH = """
if not isinstance(value, bytes):
    raise TypeError(f"x")
if len(value) == 0:
    return None
reader = ValidatedReader(pa.ipc.open_stream(value, options=IPC_READ_OPTIONS), ipc_validation)
return reader.read_next_batch()
"""
DE_FROM_BYTES = """
deserialize_method: object = getattr(inner_type, "deserialize_from_bytes")
if callable(deserialize_method):
    return deserialize_method(value, ipc_validation)
"""
DE_ENUM = """
if not isinstance(value, str):
    raise TypeError(f"x")
try:
    return inner_type[value]
except KeyError as err:
    for member in inner_type:
        if member.value == value:
            return member
    msg = f"x"
    raise KeyError(msg) from err
"""
DE_STRUCT = """
value_dict = cast("dict[str, object]", value)
nested_kwargs: dict[str, object] = {}
nested_plan = _serialization_plan(cast("type[ArrowSerializableDataclass]", inner_type))
for field_plan in nested_plan.fields:
    if field_plan.transient:
        if field_plan.default is not MISSING:
            nested_kwargs[field_plan.name] = field_plan.default
        elif field_plan.default_factory is not MISSING:
            factory = cast("Callable[[], object]", field_plan.default_factory)
            nested_kwargs[field_plan.name] = factory()
        continue
    nested_kwargs[field_plan.name] = cls._convert_value_for_deserialization(
        value_dict.get(field_plan.name), field_plan.unwrapped_type, ipc_validation
    )
return inner_type(**nested_kwargs)
"""
DE_SET_OLD = "return frozenset(value)"
DE_SET_NEW = """
set_args = get_args(inner_type)
if set_args:
    set_element_type = set_args[0]
    return frozenset(cls._convert_value_for_deserialization(v, set_element_type, ipc_validation) for v in value)
return frozenset(value)
"""
DE_DICT_OLD = 'return dict(cast("list[tuple[object, object]]", value))'
DE_DICT_NEW = """
pairs = cast("list[tuple[object, object]]", value)
dict_args = get_args(inner_type)
if len(dict_args) >= 2:
    key_type, value_type = dict_args[0], dict_args[1]
    return {
        cls._convert_value_for_deserialization(k, key_type, ipc_validation): (
            cls._convert_value_for_deserialization(v, value_type, ipc_validation)
        )
        for k, v in pairs
    }
return dict(pairs)
"""
DE_LIST = """
args = get_args(inner_type)
if args and isinstance(value, list):
    element_type = args[0]
    return [cls._convert_value_for_deserialization(v, element_type, ipc_validation) for v in value]
"""
DE_GUARDS = {
    "inner_type is pa.Schema": "DbSchema",
    "inner_type is pa.RecordBatch": "DbBatch",
    "isinstance(inner_type, type) and hasattr(inner_type, 'deserialize_from_bytes') and isinstance(value, bytes)": "DbFromBytes",
    "isinstance(inner_type, type) and issubclass(inner_type, Enum)": "DbEnum",
    "isinstance(inner_type, type) and hasattr(inner_type, 'ARROW_SCHEMA') and isinstance(getattr(inner_type, 'ARROW_SCHEMA', None), pa.Schema) and isinstance(value, dict)": "DbStruct",
    "get_origin(inner_type) is frozenset and isinstance(value, list)": "DbSet",
    "get_origin(inner_type) is dict and isinstance(value, list)": "DbDict",
    "origin is list": "DbList",
}


def de_order(tree: ast.Module) -> tuple[list[str], bool, bool]:
    site = f"{UT}:_convert_value_for_deserialization"
    fn = find_fn(tree, "_convert_value_for_deserialization", site, "ArrowSerializableDataclass")
    b = body_of(fn)
    if len(b) < 4:
        raise TranslationBroken(site, "body too short")
    _expect_body(b[:2], "if value is None:\n    return None\ninner_type, _ = _is_optional_type(field_type)", site, "prefix")
    _expect_body(b[-1:], "return value", site, "final statement")
    order: list[str] = []
    set_rec: bool | None = None
    dict_rec: bool | None = None
    origin_bound = False
    for s in b[2:-1]:
        if isinstance(s, ast.Assign):
            _expect_body([s], "origin = get_origin(inner_type)", site, "assignment inside the cascade")
            origin_bound = True
            continue
        if not isinstance(s, ast.If) or s.orelse:
            raise TranslationBroken(site, f"statement outside the cascade: {ast.unparse(s)[:100]}")
        g = ast.unparse(s.test)
        if g not in DE_GUARDS:
            raise TranslationBroken(site, f"unknown guard: {g}")
        tag = DE_GUARDS[g]
        if tag in order:
            raise TranslationBroken(site, f"arm {tag} occurs twice")
        got = norm_stmts(s.body)
        if tag == "DbSet":
            if got == norm_src(DE_SET_OLD):
                set_rec = False
            elif got == norm_src(DE_SET_NEW):
                set_rec = True
            else:
                raise TranslationBroken(site, f"frozenset arm has neither of the two modelled bodies:\n{got[:500]}")
        elif tag == "DbDict":
            if got == norm_src(DE_DICT_OLD):
                dict_rec = False
            elif got == norm_src(DE_DICT_NEW):
                dict_rec = True
            else:
                raise TranslationBroken(site, f"dict arm has neither of the two modelled bodies:\n{got[:500]}")
        else:
            if tag == "DbList" and not origin_bound:
                raise TranslationBroken(site, "`origin` is used before it is bound")
            src = {"DbSchema": DE_SCHEMA, "DbBatch": DE_BATCH, "DbFromBytes": DE_FROM_BYTES, "DbEnum": DE_ENUM, "DbStruct": DE_STRUCT, "DbList": DE_LIST}[tag]
            _expect_body(s.body, src, site, f"arm `{g[:60]}`")
        order.append(tag)
    if set_rec is None or dict_rec is None:
        raise TranslationBroken(site, "frozenset or dict arm missing")
    return order, set_rec, dict_rec


# ---- compact tables, markers, whole-function comparisons ------------------------------------------------------
def compact_table(tree: ast.Module) -> list[tuple[str, list[str]]]:
    site = f"{UT}:_COMPACT_TYPES"
    v = module_value(tree, "_COMPACT_TYPES", site)
    if not isinstance(v, ast.Dict):
        raise TranslationBroken(site, "not a dict literal")
    out = []
    for k, x in zip(v.keys, v.values):
        if k is None:
            raise TranslationBroken(site, "** expansion")
        names: list[ast.expr] = list(x.elts) if isinstance(x, ast.Tuple) else [x]
        rts = []
        for n in names:
            if isinstance(n, ast.Name) and n.id in ("bytearray", "memoryview"):
                continue  # further runtime types accepted for bytes; the model has one bytes type
            rts.append(_scalar(n, site))
        out.append((_scalar(k, site), rts))
    return out


# isinstance(value, int) is also true of bool, isinstance(value, (float, int)) of bool too: subclassing closes the table
def close_runtime(rts: list[str]) -> list[str]:
    out = list(rts)
    if "SInt" in out and "SBool" not in out:
        out.append("SBool")
    return out


def whole_functions(repo: Path, ut: ast.Module, st: ast.Module) -> None:
    from translate.t_c03_expected import EXPECTED

    for (rel, cls, name), want in EXPECTED.items():
        tree = ut if rel == UT else st
        site = f"{rel}:{name}"
        got = norm_fn(find_fn(tree, name, site, cls))
        wants = want if isinstance(want, tuple) else (want,)
        if got not in wants:
            import difflib

            d = "\n".join(list(difflib.unified_diff(wants[-1].splitlines(), got.splitlines(), "modelled", "found", lineterm=""))[:40])
            raise TranslationBroken(site, f"function differs from the one the model was written against:\n{d}")


def coq_list(items: list[str]) -> str:
    return "[" + "; ".join(items) + "]"


def gen(repo: Path) -> str:
    ut, st = parse(repo, UT), parse(repo, ST)
    smap, enum_aty = infer_tables(ut)
    sord = ser_order(ut)
    dord, set_rec, dict_rec = de_order(ut)
    compact = [(k, close_runtime(v)) for k, v in compact_table(ut)]
    marker = one_byte(module_value(ut, "COMPACT_MARKER", f"{UT}:COMPACT_MARKER"), UT, "COMPACT_MARKER")
    umarker = one_byte(module_value(st, "_UNION_STATE_MARKER", f"{ST}:_UNION_STATE_MARKER"), ST, "_UNION_STATE_MARKER")
    whole_functions(repo, ut, st)
    b = lambda x: "true" if x else "false"  # noqa: E731
    return (
        "From Coq Require Import List NArith ZArith Bool.\nFrom VGI Require Import M_Dataclass.\nImport ListNotations.\nOpen Scope N_scope.\n"
        "Definition gen_cfg : cfg := {|\n"
        f"  c_smap := {coq_list([f'({k}, {v})' for k, v in smap])};\n"
        f"  c_enum_aty := {enum_aty};\n"
        f"  c_sord := {coq_list(sord)};\n"
        f"  c_dord := {coq_list(dord)};\n"
        f"  c_set_rec := {b(set_rec)};\n"
        f"  c_dict_rec := {b(dict_rec)};\n"
        f"  c_compact := {coq_list([f'({k}, {coq_list(v)})' for k, v in compact])};\n"
        f"  c_marker := {marker};\n"
        f"  c_union_marker := {umarker};\n"
        "|}.\n"
    )


def write_expected(repo: Path) -> str:
    """(Development aid) text of t_c03_expected.py for the tree at ``repo``."""
    ut, st = parse(repo, UT), parse(repo, ST)
    items = [
        (UT, "ArrowSerializableDataclass", "_to_row_dict"), (UT, "ArrowSerializableDataclass", "_serialize"),
        (UT, "ArrowSerializableDataclass", "serialize_to_bytes"), (UT, "ArrowSerializableDataclass", "deserialize_from_batch"),
        (UT, "ArrowSerializableDataclass", "deserialize_from_bytes"), (UT, None, "_validate_single_row_batch"),
        (UT, None, "deserialize_record_batch"), (UT, None, "_is_optional_type"), (UT, None, "_is_transient_field"),
        (UT, None, "_has_binary_arrow_type"), (UT, None, "_serialization_plan"), (UT, "_ArrowSchemaDescriptor", "_generate_schema"),
        (UT, None, "_compact_plan"), (UT, None, "serialize_compact"), (UT, None, "deserialize_compact"),
        (ST, None, "_serialize_state_bytes"), (ST, None, "_deserialize_state_bytes"), (ST, None, "_resolve_state_cls"),
    ]
    out = ['"""Reference text (ast.unparse, docstrings dropped, messages blanked) of the functions M_Dataclass.v models whole."""', "EXPECTED = {"]
    for rel, cls, name in items:
        tree = ut if rel == UT else st
        out.append(f"    ({rel!r}, {cls!r}, {name!r}): {norm_fn(find_fn(tree, name, name, cls))!r},")
    out.append("}")
    return "\n".join(out) + "\n"
