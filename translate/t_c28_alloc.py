"""Fail-closed translator: vgi_rpc/shm.py -> coq/gen/G_Alloc.v (constants, header layout, guard expressions).

What is regenerated (each as a Coq definition ``gen_*``; tie/T_Alloc.v proves them equal to model/M_Alloc.v):
  * ``HEADER_SIZE``, ``_STREAM_OVERHEAD`` (int literals), ``len(_IPC_EOS)`` (bytes literal)
  * ``_HEADER_FMT`` / ``_ALLOC_FMT``: little-endian struct formats -> the list of field widths (their sum is the struct size),
    the position of the 4th header field (``num_allocs``)
  * ``MAX_ALLOCS``: the source expression over ``HEADER_SIZE`` / ``_HEADER_STRUCT.size`` / ``_ALLOC_STRUCT.size``
  * every literal byte position used with ``struct.pack_into / unpack_from("<I", self._buf, K ...)`` in ``ShmAllocator``
  * the guard / arithmetic expressions of ``ShmAllocator.allocate`` and ``free``, of ``_ShmSink.write`` and of the
    direct path of ``ShmSegment.allocate_and_write`` -- the statements AROUND these expressions are compared verbatim
    (``ast.unparse``) with the control-flow skeleton model/M_Alloc.v was written from; any other shape raises
    ``TranslationBroken``.
Python ``-`` on offsets is mapped to truncated subtraction on N (proof/L_Alloc.v ``fit_guard_Z``: the comparisons the
results are used in decide the same for positive sizes).
"""
from __future__ import annotations

import ast
import re
from pathlib import Path

from vlib.core import TranslationBroken

_WIDTH = {"s": 1, "x": 1, "b": 1, "B": 1, "h": 2, "H": 2, "i": 4, "I": 4, "l": 4, "L": 4, "q": 8, "Q": 8}


def _fields(fmt: str, site: str) -> list[int]:
    if not fmt.startswith("<"):
        raise TranslationBroken(site, f"struct format {fmt!r} is not explicit little-endian without padding")
    out: list[int] = []
    for cnt, ch in re.findall(r"(\d*)([A-Za-z?])", fmt[1:]):
        if ch not in _WIDTH:
            raise TranslationBroken(site, f"unsupported struct code {ch!r}")
        n = int(cnt) if cnt else 1
        if ch in "sx":
            out.append(n)
        else:
            out.extend([_WIDTH[ch]] * n)
    if "".join(f"{c}{k}" for c, k in re.findall(r"(\d*)([A-Za-z?])", fmt[1:])) != fmt[1:]:
        raise TranslationBroken(site, f"struct format {fmt!r} has unexpected characters")
    return out


class _Expr:
    """Expression translator: names / sub-expressions are looked up (by their unparsed text) in ``env``."""

    def __init__(self, env: dict[str, str], site: str):
        self.env, self.site = env, site

    def tr(self, n: ast.expr) -> str:
        key = ast.unparse(n)
        if key in self.env:
            return self.env[key]
        if isinstance(n, ast.Constant) and type(n.value) is int and n.value >= 0:
            return str(n.value)
        if isinstance(n, ast.BinOp):
            ops = {ast.Add: "+", ast.Sub: "-", ast.FloorDiv: "/", ast.Mult: "*"}
            if type(n.op) in ops:
                return f"({self.tr(n.left)} {ops[type(n.op)]} {self.tr(n.right)})"
        if isinstance(n, ast.Compare) and len(n.ops) == 1:
            a, b = self.tr(n.left), self.tr(n.comparators[0])
            op = type(n.ops[0])
            if op is ast.GtE:
                return f"({b} <=? {a})"
            if op is ast.Gt:
                return f"({b} <? {a})"
            if op is ast.LtE:
                return f"({a} <=? {b})"
            if op is ast.Lt:
                return f"({a} <? {b})"
            if op is ast.Eq:
                return f"({a} =? {b})"
        if isinstance(n, ast.BoolOp) and len(n.values) >= 2:
            op = "||" if isinstance(n.op, ast.Or) else "&&"
            parts = [self.tr(v) for v in n.values]
            acc = parts[0]
            for p in parts[1:]:
                acc = f"({acc} {op} {p})"
            return acc
        if isinstance(n, ast.UnaryOp) and isinstance(n.op, ast.Not):
            return f"(negb {self.tr(n.operand)})"
        raise TranslationBroken(self.site, f"expression outside the translated fragment: {key[:100]}")


def _strip_doc(body: list[ast.stmt]) -> list[ast.stmt]:
    if body and isinstance(body[0], ast.Expr) and isinstance(body[0].value, ast.Constant) and isinstance(body[0].value.value, str):
        return body[1:]
    return body


def _is_log(st: ast.stmt) -> bool:
    """Statements without effect on the table: the near-capacity warning."""
    u = ast.unparse(st)
    return u.startswith("self._warn_if_near_limit(") or u.startswith("_shm_logger.")


def _expect(st: ast.stmt, text: str, site: str) -> None:
    got = ast.unparse(st)
    if got != text:
        raise TranslationBroken(site, f"statement differs from the modelled skeleton: expected `{text}`, found `{got[:160]}`")


def _expect_n(body: list[ast.stmt], n: int, site: str) -> None:
    if len(body) != n:
        raise TranslationBroken(site, f"{len(body)} statements where the modelled skeleton has {n}: " + " | ".join(ast.unparse(s)[:50] for s in body))


def _if(st: ast.stmt, site: str, orelse: bool = False) -> ast.If:
    if not isinstance(st, ast.If) or (st.orelse and not orelse):
        raise TranslationBroken(site, f"expected a plain `if`: {ast.unparse(st)[:100]}")
    return st


def generate(path: Path) -> str:
    site0 = f"{path}"
    try:
        tree = ast.parse(path.read_text())
    except (OSError, SyntaxError) as e:
        raise TranslationBroken(site0, f"cannot parse: {e}") from e

    consts: dict[str, ast.expr] = {}
    classes: dict[str, ast.ClassDef] = {}
    for node in tree.body:
        if isinstance(node, ast.Assign) and len(node.targets) == 1 and isinstance(node.targets[0], ast.Name):
            if node.targets[0].id in consts:
                raise TranslationBroken(site0, f"{node.targets[0].id} assigned twice")
            consts[node.targets[0].id] = node.value
        elif isinstance(node, ast.AnnAssign) and isinstance(node.target, ast.Name) and node.value is not None:
            consts[node.target.id] = node.value
        elif isinstance(node, ast.ClassDef):
            classes[node.name] = node

    def const(name: str, ty: type) -> object:
        if name not in consts:
            raise TranslationBroken(f"{path}:{name}", "module-level assignment not found")
        try:
            v = ast.literal_eval(consts[name])
        except Exception as e:
            raise TranslationBroken(f"{path}:{name}", f"not a literal: {ast.unparse(consts[name])[:80]}") from e
        if type(v) is not ty:
            raise TranslationBroken(f"{path}:{name}", f"expected {ty.__name__}, found {type(v).__name__}")
        return v

    header_size = const("HEADER_SIZE", int)
    overhead = const("_STREAM_OVERHEAD", int)
    eos = const("_IPC_EOS", bytes)
    hfmt = const("_HEADER_FMT", str)
    afmt = const("_ALLOC_FMT", str)
    for nm, fm in (("_HEADER_STRUCT", "_HEADER_FMT"), ("_ALLOC_STRUCT", "_ALLOC_FMT")):
        if nm not in consts or ast.unparse(consts[nm]) != f"struct.Struct({fm})":
            raise TranslationBroken(f"{path}:{nm}", f"expected struct.Struct({fm})")
    hfields = _fields(hfmt, f"{path}:_HEADER_FMT")
    afields = _fields(afmt, f"{path}:_ALLOC_FMT")
    if len(hfields) < 4:
        raise TranslationBroken(f"{path}:_HEADER_FMT", "fewer than four header fields")
    if "MAX_ALLOCS" not in consts:
        raise TranslationBroken(f"{path}:MAX_ALLOCS", "assignment not found")
    struct_env = {"HEADER_SIZE": "gen_HEADER_SIZE", "_HEADER_STRUCT.size": "gen_HEADER_FIXED", "_ALLOC_STRUCT.size": "gen_ENTRY_SIZE"}
    max_allocs = _Expr(struct_env, f"{path}:MAX_ALLOCS").tr(consts["MAX_ALLOCS"])

    out: list[str] = []
    w = out.append
    w("From Coq Require Import List NArith ZArith Bool.\nImport ListNotations.\nOpen Scope N_scope.\n")
    w(f"Definition gen_HEADER_SIZE : N := {header_size}.")
    w(f"(* _HEADER_FMT = {hfmt!r} ; _ALLOC_FMT = {afmt!r} *)")
    w(f"Definition gen_header_fields : list N := [{'; '.join(map(str, hfields))}].")
    w(f"Definition gen_entry_fields : list N := [{'; '.join(map(str, afields))}].")
    w("Definition gen_HEADER_FIXED : N := fold_right N.add 0 gen_header_fields.")
    w("Definition gen_ENTRY_SIZE : N := fold_right N.add 0 gen_entry_fields.")
    w("Definition gen_count_field_pos : N := fold_right N.add 0 (firstn 3 gen_header_fields).")
    w(f"Definition gen_count_field_width : N := nth 3 gen_header_fields 0.")
    w(f"(* MAX_ALLOCS = {ast.unparse(consts['MAX_ALLOCS'])} *)")
    w(f"Definition gen_MAX_ALLOCS : N := {max_allocs}.")
    w(f"Definition gen_STREAM_OVERHEAD : N := {overhead}.")
    w(f"Definition gen_EOS_LEN : N := {len(eos)}.")

    # ---- ShmAllocator ----------------------------------------------------
    if "ShmAllocator" not in classes:
        raise TranslationBroken(site0, "class ShmAllocator not found")
    alloc_cls = classes["ShmAllocator"]
    meths = {n.name: n for n in alloc_cls.body if isinstance(n, ast.FunctionDef)}
    for need in ("allocate", "free", "reset", "_read_allocs", "_write_allocs", "num_allocs"):
        if need not in meths:
            raise TranslationBroken(f"{path}:ShmAllocator.{need}", "method not found")

    # every struct access of the class: "<I" at a literal position (the count) or through _HEADER_STRUCT/_ALLOC_STRUCT
    count_sites: list[int] = []
    for n in ast.walk(alloc_cls):
        if isinstance(n, ast.Call) and isinstance(n.func, ast.Attribute) and isinstance(n.func.value, ast.Name) and n.func.value.id == "struct":
            site = f"{path}:ShmAllocator:{ast.unparse(n)[:60]}"
            if n.func.attr not in ("pack_into", "unpack_from") or len(n.args) < 3:
                raise TranslationBroken(site, "unexpected struct call")
            if ast.unparse(n.args[0]) != "'<I'" or ast.unparse(n.args[1]) != "self._buf":
                raise TranslationBroken(site, "struct access other than the uint32 count on self._buf")
            if not (isinstance(n.args[2], ast.Constant) and type(n.args[2].value) is int):
                raise TranslationBroken(site, "count position is not an int literal")
            count_sites.append(n.args[2].value)
    if len(count_sites) < 3:
        raise TranslationBroken(f"{path}:ShmAllocator", "fewer than three accesses of the count field")
    w(f"Definition gen_count_sites : list N := [{'; '.join(map(str, count_sites))}].")

    # _read_allocs / _write_allocs / reset: verbatim
    site = f"{path}:ShmAllocator._read_allocs"
    b = _strip_doc(meths["_read_allocs"].body)
    _expect_n(b, 5, site)
    _expect(b[0], "num = struct.unpack_from('<I', self._buf, %d)[0]" % count_sites[0], site)  # position tied separately
    _expect(b[1], "allocs: list[tuple[int, int]] = []", site)
    _expect(b[2], "base = _HEADER_STRUCT.size", site)
    _expect(b[3], "for i in range(num):\n    offset, length = _ALLOC_STRUCT.unpack_from(self._buf, base + i * _ALLOC_STRUCT.size)\n    allocs.append((offset, length))", site)
    _expect(b[4], "return allocs", site)
    site = f"{path}:ShmAllocator._write_allocs"
    b = _strip_doc(meths["_write_allocs"].body)
    _expect_n(b, 3, site)
    if not re.fullmatch(r"struct\.pack_into\('<I', self\._buf, \d+, len\(allocs\)\)", ast.unparse(b[0])):
        raise TranslationBroken(site, f"count write differs: {ast.unparse(b[0])[:100]}")
    _expect(b[1], "base = _HEADER_STRUCT.size", site)
    _expect(b[2], "for i, (offset, length) in enumerate(allocs):\n    _ALLOC_STRUCT.pack_into(self._buf, base + i * _ALLOC_STRUCT.size, offset, length)", site)
    site = f"{path}:ShmAllocator.reset"
    b = _strip_doc(meths["reset"].body)
    _expect_n(b, 1, site)
    if not re.fullmatch(r"struct\.pack_into\('<I', self\._buf, \d+, 0\)", ast.unparse(b[0])):
        raise TranslationBroken(site, f"reset differs: {ast.unparse(b[0])[:100]}")

    # allocate
    site = f"{path}:ShmAllocator.allocate"
    fn = meths["allocate"]
    if [a.arg for a in fn.args.args] != ["self", "size"]:
        raise TranslationBroken(site, "signature changed")
    b = [s for s in _strip_doc(fn.body) if not _is_log(s)]
    _expect_n(b, 9, site)
    s0 = _if(b[0], site)
    if len(s0.body) != 1 or not ast.unparse(s0.body[0]).startswith("raise ValueError("):
        raise TranslationBroken(site, "size guard does not raise ValueError")
    w("(* allocate: " + ast.unparse(s0.test) + " -> ValueError *)")
    w(f"Definition gen_size_guard (size : Z) : bool := ({_Expr({'size': 'size'}, site).tr(s0.test)})%Z.")
    _expect(b[1], "allocs = self._read_allocs()", site)
    s2 = _if(b[2], site)
    _expect_n(s2.body, 1, site)
    _expect(s2.body[0], "return None", site)
    w("(* allocate: " + ast.unparse(s2.test) + " -> None *)")
    w(f"Definition gen_full_guard (len_allocs : N) : bool := {_Expr({'len(allocs)': 'len_allocs', 'MAX_ALLOCS': 'gen_MAX_ALLOCS'}, site).tr(s2.test)}.")
    _expect(b[3], "data_end = self._total_size", site)
    if not (isinstance(b[4], ast.Assign) and ast.unparse(b[4].targets[0]) == "prev_end" and len(b[4].targets) == 1):
        raise TranslationBroken(site, "prev_end initialisation not found")
    w(f"Definition gen_first_prev_end : N := {_Expr({'HEADER_SIZE': 'gen_HEADER_SIZE'}, site).tr(b[4].value)}.")
    loop = b[5]
    if not (isinstance(loop, ast.For) and not loop.orelse and ast.unparse(loop.target) == "(i, (off, length))" and ast.unparse(loop.iter) == "enumerate(allocs)"):
        raise TranslationBroken(site, "scan loop header differs")
    lb = [s for s in loop.body if not _is_log(s)]
    _expect_n(lb, 3, site)
    if not (isinstance(lb[0], ast.Assign) and ast.unparse(lb[0].targets[0]) == "gap"):
        raise TranslationBroken(site, "gap computation not found in the loop")
    w(f"Definition gen_gap_loop (off prev_end : N) : N := {_Expr({'off': 'off', 'prev_end': 'prev_end'}, site).tr(lb[0].value)}.")
    fit = _if(lb[1], site)
    w("(* allocate (loop): " + ast.unparse(fit.test) + " *)")
    w(f"Definition gen_fit_loop (gap size : N) : bool := {_Expr({'gap': 'gap', 'size': 'size'}, site).tr(fit.test)}.")
    fb = [s for s in fit.body if not _is_log(s)]
    _expect_n(fb, 3, site)
    _expect(fb[0], "allocs.insert(i, (prev_end, size))", site)
    _expect(fb[1], "self._write_allocs(allocs)", site)
    _expect(fb[2], "return prev_end", site)
    if not (isinstance(lb[2], ast.Assign) and ast.unparse(lb[2].targets[0]) == "prev_end"):
        raise TranslationBroken(site, "prev_end update not found in the loop")
    w(f"Definition gen_next_end (off length : N) : N := {_Expr({'off': 'off', 'length': 'length'}, site).tr(lb[2].value)}.")
    if not (isinstance(b[6], ast.Assign) and ast.unparse(b[6].targets[0]) == "gap"):
        raise TranslationBroken(site, "gap after the last entry not found")
    w(f"Definition gen_gap_last (data_end prev_end : N) : N := {_Expr({'data_end': 'data_end', 'prev_end': 'prev_end'}, site).tr(b[6].value)}.")
    fit = _if(b[7], site)
    w("(* allocate (after the last entry): " + ast.unparse(fit.test) + " *)")
    w(f"Definition gen_fit_last (gap size : N) : bool := {_Expr({'gap': 'gap', 'size': 'size'}, site).tr(fit.test)}.")
    fb = [s for s in fit.body if not _is_log(s)]
    _expect_n(fb, 3, site)
    _expect(fb[0], "allocs.append((prev_end, size))", site)
    _expect(fb[1], "self._write_allocs(allocs)", site)
    _expect(fb[2], "return prev_end", site)
    _expect(b[8], "return None", site)

    # free
    site = f"{path}:ShmAllocator.free"
    fn = meths["free"]
    if [a.arg for a in fn.args.args] != ["self", "offset"]:
        raise TranslationBroken(site, "signature changed")
    b = _strip_doc(fn.body)
    _expect_n(b, 3, site)
    _expect(b[0], "allocs = self._read_allocs()", site)
    loop = b[1]
    if not (isinstance(loop, ast.For) and not loop.orelse and ast.unparse(loop.target) == "(i, (off, _))" and ast.unparse(loop.iter) == "enumerate(allocs)"):
        raise TranslationBroken(site, "loop header differs")
    _expect_n(loop.body, 1, site)
    hit = _if(loop.body[0], site)
    w("(* free: " + ast.unparse(hit.test) + " *)")
    w(f"Definition gen_free_match (off offset : N) : bool := {_Expr({'off': 'off', 'offset': 'offset'}, site).tr(hit.test)}.")
    _expect_n(hit.body, 3, site)
    _expect(hit.body[0], "allocs.pop(i)", site)
    _expect(hit.body[1], "self._write_allocs(allocs)", site)
    _expect(hit.body[2], "return", site)
    if not ast.unparse(b[2]).startswith("raise ValueError("):
        raise TranslationBroken(site, "missing offset does not raise ValueError")

    # ---- _ShmSink --------------------------------------------------------
    if "_ShmSink" not in classes:
        raise TranslationBroken(site0, "class _ShmSink not found")
    sm = {n.name: n for n in classes["_ShmSink"].body if isinstance(n, ast.FunctionDef)}
    site = f"{path}:_ShmSink.__init__"
    if "__init__" not in sm or [a.arg for a in sm["__init__"].args.args] != ["self", "buf", "start", "limit"]:
        raise TranslationBroken(site, "expected __init__(self, buf, start, limit): the sink has no limit")
    b = _strip_doc(sm["__init__"].body)
    got = [ast.unparse(s) for s in b]
    for need in ("self._buf = buf", "self._pos = start", "self._start = start", "self._limit = limit", "self.overflowed = False"):
        if got.count(need) != 1:
            raise TranslationBroken(site, f"`{need}` not found exactly once")
    if len(b) != 6 or got[0] != "super().__init__()":
        raise TranslationBroken(site, "unexpected statements in __init__")
    site = f"{path}:_ShmSink.write"
    if "write" not in sm:
        raise TranslationBroken(site, "method not found")
    b = _strip_doc(sm["write"].body)
    _expect_n(b, 6, site)
    _expect(
        b[0],
        "if isinstance(data, pa.Buffer):\n    mv = memoryview(data).cast('B')\nelif isinstance(data, (bytes, bytearray)):\n    mv = memoryview(data)\nelse:\n    mv = memoryview(data).cast('B') if data.format != 'B' else data",
        site,
    )
    _expect(b[1], "n = len(mv)", site)
    g = _if(b[2], site)
    w("(* _ShmSink.write: " + ast.unparse(g.test) + " -> dropped *)")
    env = {"self.overflowed": "overflowed", "self._pos": "pos", "n": "n", "self._limit": "limit"}
    w(f"Definition gen_sink_guard (overflowed : bool) (pos n limit : N) : bool := {_Expr(env, site).tr(g.test)}.")
    _expect_n(g.body, 2, site)
    _expect(g.body[0], "self.overflowed = True", site)
    _expect(g.body[1], "return n", site)
    _expect(b[3], "self._buf[self._pos:self._pos + n] = mv", site)
    _expect(b[4], "self._pos += n", site)
    _expect(b[5], "return n", site)
    site = f"{path}:_ShmSink.bytes_written"
    if "bytes_written" not in sm:
        raise TranslationBroken(site, "property not found")
    b = _strip_doc(sm["bytes_written"].body)
    _expect_n(b, 1, site)
    if not isinstance(b[0], ast.Return) or b[0].value is None:
        raise TranslationBroken(site, "expected a return")
    w(f"Definition gen_bytes_written (pos start : N) : N := {_Expr({'self._pos': 'pos', 'self._start': 'start'}, site).tr(b[0].value)}.")
    # nothing else in the class assigns the cursor, the limit or the buffer
    for n in ast.walk(classes["_ShmSink"]):
        if isinstance(n, (ast.Assign, ast.AugAssign)):
            tg = n.targets if isinstance(n, ast.Assign) else [n.target]
            for t in tg:
                u = ast.unparse(t)
                if u.startswith("self._buf[") or u in ("self._pos", "self._limit", "self._buf", "self.overflowed", "self._start"):
                    owner = next((f.name for f in sm.values() if any(x is n for x in ast.walk(f))), "?")
                    if owner not in ("__init__", "write"):
                        raise TranslationBroken(f"{path}:_ShmSink.{owner}", f"assigns {u}")

    # ---- ShmSegment.allocate_and_write -------------------------------------
    if "ShmSegment" not in classes:
        raise TranslationBroken(site0, "class ShmSegment not found")
    gm = {n.name: n for n in classes["ShmSegment"].body if isinstance(n, ast.FunctionDef)}
    site = f"{path}:ShmSegment.allocate_and_write"
    if "allocate_and_write" not in gm:
        raise TranslationBroken(site, "method not found")
    b = _strip_doc(gm["allocate_and_write"].body)
    _expect_n(b, 9, site)
    _expect(b[0], "shm_buf = self._shm.buf", site)
    _expect(b[1], "assert shm_buf is not None", site)
    d = _if(b[2], site)
    _expect(ast.Expr(d.test), "not _has_dictionary_columns(batch.schema)", site)
    db = d.body
    _expect_n(db, 9, site)
    if not (isinstance(db[0], ast.Assign) and ast.unparse(db[0].targets[0]) == "estimated"):
        raise TranslationBroken(site, "estimate not found")
    w("(* allocate_and_write: estimated = " + ast.unparse(db[0].value) + " *)")
    env = {"ipc.get_record_batch_size(batch)": "batch_msg", "_STREAM_OVERHEAD": "gen_STREAM_OVERHEAD"}
    w(f"Definition gen_estimate (batch_msg : N) : N := {_Expr(env, site).tr(db[0].value)}.")
    _expect(db[1], "offset = self._allocator.allocate(estimated)", site)
    _expect(db[2], "if offset is None:\n    return None", site)
    sk = db[3]
    if not (isinstance(sk, ast.Assign) and ast.unparse(sk.targets[0]) == "sink" and isinstance(sk.value, ast.Call) and ast.unparse(sk.value.func) == "_ShmSink" and len(sk.value.args) == 3 and not sk.value.keywords):
        raise TranslationBroken(site, f"expected sink = _ShmSink(shm_buf, offset, <limit>): {ast.unparse(sk)[:100]}")
    if ast.unparse(sk.value.args[0]) != "shm_buf" or ast.unparse(sk.value.args[1]) != "offset":
        raise TranslationBroken(site, "sink does not start at the allocated offset of the segment buffer")
    w(f"Definition gen_sink_limit (offset estimated : N) : N := {_Expr({'offset': 'offset', 'estimated': 'estimated'}, site).tr(sk.value.args[2])}.")
    _expect(db[4], "writer = new_ipc_stream(sink, batch.schema)", site)
    _expect(db[5], "writer.write_batch(batch)", site)
    _expect(db[6], "writer.close()", site)
    _expect(db[7], "if sink.overflowed:\n    self._allocator.free(offset)\n    return None", site)
    _expect(db[8], "return (offset, sink.bytes_written)", site)
    _expect(b[3], "serialized = _serialize_for_shm(batch)", site)
    _expect(b[4], "size = serialized.size", site)
    _expect(b[5], "offset = self._allocator.allocate(size)", site)
    _expect(b[6], "if offset is None:\n    return None", site)
    _expect(b[7], "shm_buf[offset:offset + size] = memoryview(serialized).cast('B')", site)
    _expect(b[8], "return (offset, size)", site)
    # no other writer into the segment buffer in the module
    for n in ast.walk(tree):
        if isinstance(n, ast.Assign):
            for t in n.targets:
                u = ast.unparse(t)
                if isinstance(t, ast.Subscript) and (u.startswith("shm_buf[") or u.startswith("self._shm.buf[") or u.startswith("buf[")) and u != "shm_buf[offset:offset + size]":
                    raise TranslationBroken(site0, f"another write into the segment buffer: {u[:80]}")
    return "\n".join(out) + "\n"
