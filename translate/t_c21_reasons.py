"""Fail-closed translator for C21: the source material of the unauthorized contract that is cheap to regenerate.

Reads with ``ast`` (never imports the code) and emits Coq definitions for gen/G_Unauthorized.v:

  gen_reasons            : list (str * str)   members of ``class AuthReason(StrEnum)`` as (NAME, value), in order
  gen_hint_template      : list hpart         the f-string returned by ``build_proxy_hint`` (literal pieces, {listed},
                                              and the two singular/plural choices on ``len(names) == 1``)
  gen_proof_header       : str                ``PROOF_HEADER`` of vgi_rpc/http/_common.py
  gen_html_token         : str                the literal ``_wants_html`` looks for in Accept
  gen_client_suppressed  : list exck          exception classes listed in the ``contextlib.suppress(...)`` that guards
                                              ``json.loads`` in ``_parse_unauthorized`` (Exception / BaseException expand)
  gen_max_detail         : N                  ``_MAX_UNAUTHORIZED_DETAIL``
  gen_html_prefixes      : list (N * str)     (slice length, literal) of the two HTML sniffing comparisons
Every shape other than the accepted ones raises ``TranslationBroken``.
"""
from __future__ import annotations

import ast
from pathlib import Path
from typing import Any

from vlib.core import TranslationBroken


def _s(s: str) -> str:
    return "([" + ";".join(str(ord(c)) for c in s) + "]%N : list N)"


def _parse(path: Path) -> ast.Module:
    try:
        return ast.parse(path.read_text())
    except (OSError, SyntaxError) as e:
        raise TranslationBroken(str(path), f"cannot parse: {e}") from e


def _func(tree: ast.Module, name: str, site: str) -> ast.FunctionDef:
    found = [n for n in tree.body if isinstance(n, ast.FunctionDef) and n.name == name]
    if len(found) != 1:
        raise TranslationBroken(site, f"expected exactly one top-level def {name}, found {len(found)}")
    return found[0]


def _const_str(node: ast.AST, site: str) -> str:
    if isinstance(node, ast.Constant) and isinstance(node.value, str):
        return node.value
    raise TranslationBroken(site, f"expected a string literal, got {ast.dump(node)[:80]}")


def _module_const(tree: ast.Module, name: str, site: str) -> ast.expr:
    found = [
        n.value
        for n in tree.body
        if isinstance(n, ast.Assign) and len(n.targets) == 1 and isinstance(n.targets[0], ast.Name) and n.targets[0].id == name
    ]
    if len(found) != 1:
        raise TranslationBroken(site, f"expected exactly one module-level assignment of {name}, found {len(found)}")
    return found[0]


def reasons(repo: Path) -> list[tuple[str, str]]:
    path = repo / "vgi_rpc" / "http" / "_unauthorized.py"
    site = f"{path}:AuthReason"
    tree = _parse(path)
    cls = [n for n in tree.body if isinstance(n, ast.ClassDef) and n.name == "AuthReason"]
    if len(cls) != 1:
        raise TranslationBroken(site, "class AuthReason not found exactly once")
    if not (len(cls[0].bases) == 1 and isinstance(cls[0].bases[0], ast.Name) and cls[0].bases[0].id == "StrEnum"):
        raise TranslationBroken(site, "AuthReason is not exactly a StrEnum")
    out: list[tuple[str, str]] = []
    for n in cls[0].body:
        if isinstance(n, ast.Expr) and isinstance(n.value, ast.Constant) and isinstance(n.value.value, str):
            continue  # docstrings
        if isinstance(n, ast.Assign) and len(n.targets) == 1 and isinstance(n.targets[0], ast.Name):
            out.append((n.targets[0].id, _const_str(n.value, site)))
            continue
        raise TranslationBroken(site, f"unexpected statement in AuthReason: {ast.dump(n)[:80]}")
    if not out:
        raise TranslationBroken(site, "AuthReason has no members")
    return out


def _is_len_names_eq_1(test: ast.AST) -> bool:
    return (
        isinstance(test, ast.Compare)
        and isinstance(test.left, ast.Call)
        and isinstance(test.left.func, ast.Name)
        and test.left.func.id == "len"
        and len(test.left.args) == 1
        and isinstance(test.left.args[0], ast.Name)
        and test.left.args[0].id == "names"
        and len(test.ops) == 1
        and isinstance(test.ops[0], ast.Eq)
        and isinstance(test.comparators[0], ast.Constant)
        and test.comparators[0].value == 1
    )


def _if_one(node: ast.AST, site: str) -> tuple[str, str]:
    if isinstance(node, ast.IfExp) and _is_len_names_eq_1(node.test):
        return _const_str(node.body, site), _const_str(node.orelse, site)
    raise TranslationBroken(site, f"expected '<lit> if len(names) == 1 else <lit>', got {ast.dump(node)[:100]}")


def hint_template(repo: Path) -> list[Any]:
    """[('lit', s) | ('listed', sep) | ('ifone', one, many)] of build_proxy_hint, after checking its prologue."""
    path = repo / "vgi_rpc" / "http" / "_unauthorized.py"
    site = f"{path}:build_proxy_hint"
    fn = _func(_parse(path), "build_proxy_hint", site)
    body = [n for n in fn.body if not (isinstance(n, ast.Expr) and isinstance(n.value, ast.Constant))]
    if len(fn.args.args) != 1 or fn.args.args[0].arg != "headers":
        raise TranslationBroken(site, "signature is not (headers)")
    if len(body) != 5:
        raise TranslationBroken(site, f"expected 5 statements (names, guard, listed, noun, return), found {len(body)}")
    st_names, st_guard, st_listed, st_noun, st_ret = body
    # names = tuple(dict.fromkeys(headers))
    if ast.unparse(st_names) != "names = tuple(dict.fromkeys(headers))":
        raise TranslationBroken(site, f"first statement is {ast.unparse(st_names)!r}")
    if ast.unparse(st_guard) != "if not names:\n    return ''":
        raise TranslationBroken(site, f"guard is {ast.unparse(st_guard)!r}")
    # listed = ", ".join(names)
    if not (
        isinstance(st_listed, ast.Assign)
        and ast.unparse(st_listed.targets[0]) == "listed"
        and isinstance(st_listed.value, ast.Call)
        and isinstance(st_listed.value.func, ast.Attribute)
        and st_listed.value.func.attr == "join"
        and len(st_listed.value.args) == 1
        and ast.unparse(st_listed.value.args[0]) == "names"
    ):
        raise TranslationBroken(site, f"listed is {ast.unparse(st_listed)!r}")
    sep = _const_str(st_listed.value.func.value, site)
    if not (isinstance(st_noun, ast.Assign) and ast.unparse(st_noun.targets[0]) == "noun"):
        raise TranslationBroken(site, f"noun is {ast.unparse(st_noun)!r}")
    noun = _if_one(st_noun.value, site)
    if not (isinstance(st_ret, ast.Return) and isinstance(st_ret.value, ast.JoinedStr)):
        raise TranslationBroken(site, "return value is not an f-string")
    parts: list[Any] = []
    for v in st_ret.value.values:
        if isinstance(v, ast.Constant) and isinstance(v.value, str):
            parts.append(("lit", v.value))
        elif isinstance(v, ast.FormattedValue) and v.conversion == -1 and v.format_spec is None:
            if isinstance(v.value, ast.Name) and v.value.id == "listed":
                parts.append(("listed", sep))
            elif isinstance(v.value, ast.Name) and v.value.id == "noun":
                parts.append(("ifone", *noun))
            else:
                parts.append(("ifone", *_if_one(v.value, site)))
        else:
            raise TranslationBroken(site, f"unexpected f-string piece {ast.dump(v)[:80]}")
    if sep != ", ":
        raise TranslationBroken(site, f"join separator is {sep!r}; the model's HListed joins with ', '")
    return parts


def proof_header(repo: Path) -> str:
    path = repo / "vgi_rpc" / "http" / "_common.py"
    site = f"{path}:PROOF_HEADER"
    return _const_str(_module_const(_parse(path), "PROOF_HEADER", site), site)


def html_token(repo: Path) -> str:
    path = repo / "vgi_rpc" / "http" / "server" / "_errors.py"
    site = f"{path}:_wants_html"
    fn = _func(_parse(path), "_wants_html", site)
    body = [n for n in fn.body if not (isinstance(n, ast.Expr) and isinstance(n.value, ast.Constant))]
    if len(body) != 1 or not isinstance(body[0], ast.Return) or body[0].value is None:
        raise TranslationBroken(site, "body is not a single return")
    e = body[0].value
    if not (isinstance(e, ast.Compare) and len(e.ops) == 1 and isinstance(e.ops[0], ast.In)):
        raise TranslationBroken(site, f"return is not '<lit> in <expr>': {ast.unparse(e)!r}")
    if ast.unparse(e.comparators[0]) not in ("req.get_header('Accept') or ''",):
        raise TranslationBroken(site, f"searched expression is {ast.unparse(e.comparators[0])!r}")
    return _const_str(e.left, site)


_EXPAND = {
    "ValueError": ["KValueError"],
    "RecursionError": ["KRecursionError"],
    "RuntimeError": ["KRecursionError"],
    "Exception": ["KValueError", "KRecursionError", "KOther"],
    "BaseException": ["KValueError", "KRecursionError", "KOther"],
}


def client(repo: Path) -> dict[str, Any]:
    path = repo / "vgi_rpc" / "http" / "_client.py"
    site = f"{path}:_parse_unauthorized"
    tree = _parse(path)
    fn = _func(tree, "_parse_unauthorized", site)
    withs = [n for n in ast.walk(fn) if isinstance(n, ast.With)]
    if len(withs) != 1 or len(withs[0].items) != 1:
        raise TranslationBroken(site, "expected exactly one with-statement with one item")
    call = withs[0].items[0].context_expr
    if not (isinstance(call, ast.Call) and ast.unparse(call.func) == "contextlib.suppress" and not call.keywords):
        raise TranslationBroken(site, f"with item is {ast.unparse(call)!r}, expected contextlib.suppress(...)")
    if ast.unparse(withs[0].body[0]) != "payload = json.loads(content)" or len(withs[0].body) != 1:
        raise TranslationBroken(site, "the suppressed block is not exactly 'payload = json.loads(content)'")
    sup: list[str] = []
    for a in call.args:
        if not isinstance(a, ast.Name) or a.id not in _EXPAND:
            raise TranslationBroken(site, f"unknown suppressed exception {ast.unparse(a)!r}")
        sup.extend(_EXPAND[a.id])
    # no try/except may wrap or follow that would change which exceptions leave the function
    if any(isinstance(n, ast.Try) for n in ast.walk(fn)):
        raise TranslationBroken(site, "unexpected try statement in _parse_unauthorized")
    maxd = _module_const(tree, "_MAX_UNAUTHORIZED_DETAIL", site)
    if not (isinstance(maxd, ast.Constant) and isinstance(maxd.value, int) and not isinstance(maxd.value, bool) and maxd.value >= 0):
        raise TranslationBroken(site, "_MAX_UNAUTHORIZED_DETAIL is not a non-negative int literal")
    # text[:9].lower() == "<!doctype" or text[:5].lower() == "<html"
    prefixes: list[tuple[int, str]] = []
    for n in ast.walk(fn):
        if isinstance(n, ast.Compare) and len(n.ops) == 1 and isinstance(n.ops[0], ast.Eq):
            left = ast.unparse(n.left)
            if left.startswith("text[:") and left.endswith("].lower()"):
                try:
                    k = int(left[len("text[:") : -len("].lower()")])
                except ValueError as e:
                    raise TranslationBroken(site, f"slice bound in {left!r} is not an int literal") from e
                prefixes.append((k, _const_str(n.comparators[0], site)))
    if len(prefixes) != 2:
        raise TranslationBroken(site, f"expected two HTML prefix comparisons, found {len(prefixes)}")
    return {"suppressed": list(dict.fromkeys(sup)), "max_detail": maxd.value, "prefixes": prefixes}


def coq_text(repo: Path) -> str:
    rs = reasons(repo)
    tpl = hint_template(repo)
    cl = client(repo)

    def part(p: Any) -> str:
        if p[0] == "lit":
            return f"HLit {_s(p[1])}"
        if p[0] == "listed":
            return "HListed"
        return f"HIfOne {_s(p[1])} {_s(p[2])}"

    lines = [
        "From Coq Require Import List NArith.",
        "From VGI Require Import M_Unauthorized.",
        "Import ListNotations.",
        "Open Scope N_scope.",
        "Definition gen_reasons : list (str * str) := [" + "; ".join(f"({_s(n)}, {_s(v)})" for n, v in rs) + "].",
        "Definition gen_hint_template : list hpart := [" + "; ".join(part(p) for p in tpl) + "].",
        f"Definition gen_proof_header : str := {_s(proof_header(repo))}.",
        f"Definition gen_html_token : str := {_s(html_token(repo))}.",
        "Definition gen_client_suppressed : list exck := [" + "; ".join(cl["suppressed"]) + "].",
        f"Definition gen_max_detail : N := {cl['max_detail']}%N.",
        "Definition gen_html_prefixes : list (N * str) := [" + "; ".join(f"({k}%N, {_s(v)})" for k, v in cl["prefixes"]) + "].",
    ]
    return "\n".join(lines) + "\n"
