"""Fail-closed translator for C38: vgi_rpc/http/_retry.py and the request sites of vgi_rpc/http/_client.py
-> Coq definitions over the types of coq/model/M_Retry.v (written to coq/gen/G_Retry.v).

What is translated (anything outside the accepted shapes raises TranslationBroken):
  * ``_DEFAULT_RETRYABLE = frozenset({...})``                    -> gen_default_retryable : list N
  * the field defaults of ``HttpRetryConfig``                    -> gen_default_config : config (floats exactly, as rationals)
  * the ``if self.<f> < 0: raise ValueError`` lines of ``__post_init__`` -> gen_cfg_valid
  * the body of ``_compute_delay`` (assignments, min/max calls with their argument ORDER, the
    ``respect_retry_after and retry_after is not None`` branch)   -> gen_exp_delay, gen_compute_delay
  * ``_request_with_retry``: the whole statement skeleton is matched (try / two handlers with their
    exception classes / return / break / sleep / continue / final raises); the three guard expressions,
    the range bound and the disconnect marker string are emitted as terms
                                                                  -> gen_loop_fuel, gen_guard_disconnect, gen_guard_conn,
                                                                     gen_guard_status, gen_disconnect_marker
  * ``_post_with_retry`` / ``_options_with_retry``: ``if config is None: return client.<verb>(...)`` then
    ``return _request_with_retry(lambda: client.<verb>(...), config=config, ...)`` (shape only)
  * request sites (``self._client.post`` / ``client.post`` = plain, ``_post_with_retry`` = retried, with the
    enclosing status condition) of HttpStreamSession.exchange / cancel / _send_continuation (for cancel also: the
    unconditional ``self._state_bytes = None`` precedes the posting statement) and of the
    unary / stream-init callers of _HttpProxy                      -> gen_*_sites
"""
from __future__ import annotations

import ast
from pathlib import Path
from typing import Any

from vlib.core import TranslationBroken

FIELDS = {
    "max_retries": "max_retries",
    "backoff_base": "bbase",
    "backoff_max": "bmax",
    "retryable_status_codes": "retryable",
    "retry_on_connection_error": "roce",
    "respect_retry_after": "respect_ra",
}
FLOAT_FIELDS = {"backoff_base", "backoff_max"}
BOOL_FIELDS = {"retry_on_connection_error", "respect_retry_after"}


def _parse(path: Path) -> ast.Module:
    try:
        return ast.parse(path.read_text())
    except (OSError, SyntaxError) as e:
        raise TranslationBroken(str(path), f"cannot parse: {e}") from e


def _d(node: ast.AST) -> str:
    return ast.dump(node)[:140]


def cfl(x: float) -> str:
    """A Python float as an M_Retry.fl term (exact)."""
    if x != x:
        return "FNaN"
    if x == float("inf"):
        return "FPInf"
    if x == float("-inf"):
        return "FNInf"
    n, d = float(x).as_integer_ratio()
    return f"(FFin (({n})%Z # {d}))"


def _strip_doc(body: list[ast.stmt]) -> list[ast.stmt]:
    if body and isinstance(body[0], ast.Expr) and isinstance(body[0].value, ast.Constant) and isinstance(body[0].value.value, str):
        return body[1:]
    return body


def _func(tree: ast.AST, name: str, site: str) -> ast.FunctionDef:
    found = [n for n in ast.iter_child_nodes(tree) if isinstance(n, ast.FunctionDef) and n.name == name]
    if len(found) != 1:
        raise TranslationBroken(site, f"expected exactly one def {name}, found {len(found)}")
    return found[0]


def _cls(tree: ast.Module, name: str, site: str) -> ast.ClassDef:
    found = [n for n in tree.body if isinstance(n, ast.ClassDef) and n.name == name]
    if len(found) != 1:
        raise TranslationBroken(site, f"expected exactly one class {name}, found {len(found)}")
    return found[0]


def _is_cfg_attr(node: ast.AST, obj: str = "config") -> str | None:
    if isinstance(node, ast.Attribute) and isinstance(node.value, ast.Name) and node.value.id == obj and node.attr in FIELDS:
        return node.attr
    return None


# ---------------------------------------------------------------------------------------------
# constants and defaults
# ---------------------------------------------------------------------------------------------
def default_retryable(tree: ast.Module, site: str) -> list[int]:
    for node in tree.body:
        tgt = None
        if isinstance(node, ast.AnnAssign) and isinstance(node.target, ast.Name):
            tgt, val = node.target.id, node.value
        elif isinstance(node, ast.Assign) and len(node.targets) == 1 and isinstance(node.targets[0], ast.Name):
            tgt, val = node.targets[0].id, node.value
        if tgt != "_DEFAULT_RETRYABLE":
            continue
        if not (isinstance(val, ast.Call) and isinstance(val.func, ast.Name) and val.func.id == "frozenset" and len(val.args) == 1 and not val.keywords):
            raise TranslationBroken(site, f"_DEFAULT_RETRYABLE is not frozenset(<literal>): {_d(val)}")
        try:
            lit = ast.literal_eval(val.args[0])
        except Exception as e:
            raise TranslationBroken(site, "_DEFAULT_RETRYABLE argument is not a literal") from e
        if not isinstance(lit, (set, frozenset, list, tuple)) or not all(type(x) is int and 0 <= x < 1000 for x in lit):
            raise TranslationBroken(site, f"_DEFAULT_RETRYABLE is not a collection of small ints: {lit!r}")
        return sorted(set(lit))
    raise TranslationBroken(site, "_DEFAULT_RETRYABLE not found")


def config_defaults(tree: ast.Module, site: str) -> dict[str, Any]:
    cls = _cls(tree, "HttpRetryConfig", site)
    out: dict[str, Any] = {}
    for node in _strip_doc(cls.body):
        if isinstance(node, ast.AnnAssign) and isinstance(node.target, ast.Name):
            name = node.target.id
            if name not in FIELDS:
                raise TranslationBroken(site, f"HttpRetryConfig has an unknown field {name}")
            if name == "retryable_status_codes":
                v = node.value
                ok = (
                    isinstance(v, ast.Call) and isinstance(v.func, ast.Name) and v.func.id == "field" and not v.args and len(v.keywords) == 1
                    and v.keywords[0].arg == "default_factory" and isinstance(v.keywords[0].value, ast.Lambda)
                    and isinstance(v.keywords[0].value.body, ast.Name) and v.keywords[0].value.body.id == "_DEFAULT_RETRYABLE"
                )
                if not ok:
                    raise TranslationBroken(site, f"retryable_status_codes default is not field(default_factory=lambda: _DEFAULT_RETRYABLE): {_d(v) if v else v}")
                out[name] = "default"
                continue
            if node.value is None:
                raise TranslationBroken(site, f"field {name} has no default")
            try:
                val = ast.literal_eval(node.value)
            except Exception as e:
                raise TranslationBroken(site, f"default of {name} is not a literal") from e
            if name == "max_retries" and not (type(val) is int and 0 <= val < 1000):
                raise TranslationBroken(site, f"max_retries default {val!r}")
            if name in FLOAT_FIELDS and type(val) not in (int, float):
                raise TranslationBroken(site, f"{name} default {val!r}")
            if name in BOOL_FIELDS and type(val) is not bool:
                raise TranslationBroken(site, f"{name} default {val!r}")
            out[name] = val
        elif isinstance(node, ast.FunctionDef) and node.name == "__post_init__":
            out["__post_init__"] = node
        else:
            raise TranslationBroken(site, f"unexpected statement in HttpRetryConfig: {_d(node)}")
    missing = [f for f in FIELDS if f not in out]
    if missing or "__post_init__" not in out:
        raise TranslationBroken(site, f"HttpRetryConfig lacks {missing or '__post_init__'}")
    return out


def post_init(fn: ast.FunctionDef, site: str) -> str:
    """``if self.f < 0: raise ValueError(...)`` for max_retries, backoff_base, backoff_max (any order)."""
    seen: list[str] = []
    for st in _strip_doc(fn.body):
        ok = (
            isinstance(st, ast.If) and not st.orelse and len(st.body) == 1 and isinstance(st.body[0], ast.Raise)
            and isinstance(st.test, ast.Compare) and len(st.test.ops) == 1 and isinstance(st.test.ops[0], ast.Lt)
            and isinstance(st.test.comparators[0], ast.Constant) and st.test.comparators[0].value == 0
            and type(st.test.comparators[0].value) is int
        )
        f = _is_cfg_attr(st.test.left, "self") if ok else None
        if f is None:
            raise TranslationBroken(site, f"__post_init__: unexpected statement {_d(st)}")
        seen.append(f)
    if sorted(seen) != ["backoff_base", "backoff_max", "max_retries"]:
        raise TranslationBroken(site, f"__post_init__ validates {seen}, expected max_retries, backoff_base, backoff_max once each")
    fl = [f for f in seen if f in FLOAT_FIELDS]
    return " && ".join(f"negb (flt ({FIELDS[f]} c) fzero)" for f in fl)


# ---------------------------------------------------------------------------------------------
# _compute_delay
# ---------------------------------------------------------------------------------------------
def _fexpr(node: ast.AST, env: dict[str, str], site: str) -> str:
    """float-valued expression over local names, config fields, min / max."""
    if isinstance(node, ast.Name) and node.id in env:
        return env[node.id]
    f = _is_cfg_attr(node)
    if f in FLOAT_FIELDS:
        return f"({FIELDS[f]} c)"
    if isinstance(node, ast.Call) and isinstance(node.func, ast.Name) and node.func.id in ("min", "max") and len(node.args) == 2 and not node.keywords:
        op = "pymin" if node.func.id == "min" else "pymax"
        return f"({op} {_fexpr(node.args[0], env, site)} {_fexpr(node.args[1], env, site)})"
    raise TranslationBroken(site, f"unsupported float expression {_d(node)}")


def compute_delay(fn: ast.FunctionDef, site: str) -> tuple[str, str]:
    args = [a.arg for a in fn.args.args]
    if args != ["attempt", "config", "retry_after"] or fn.args.kwonlyargs or fn.args.vararg or fn.args.kwarg:
        raise TranslationBroken(site, f"_compute_delay signature changed: {args}")
    body = _strip_doc(fn.body)
    if len(body) != 5:
        raise TranslationBroken(site, f"_compute_delay has {len(body)} statements, expected 5")
    s1, s2, s3, s4, s5 = body
    # exp_delay = config.backoff_base * (2**attempt)
    ok = (
        isinstance(s1, ast.Assign) and len(s1.targets) == 1 and isinstance(s1.targets[0], ast.Name)
        and isinstance(s1.value, ast.BinOp) and isinstance(s1.value.op, ast.Mult) and _is_cfg_attr(s1.value.left) == "backoff_base"
        and isinstance(s1.value.right, ast.BinOp) and isinstance(s1.value.right.op, ast.Pow)
        and isinstance(s1.value.right.left, ast.Constant) and s1.value.right.left.value == 2 and type(s1.value.right.left.value) is int
        and isinstance(s1.value.right.right, ast.Name) and s1.value.right.right.id == "attempt"
    )
    if not ok:
        raise TranslationBroken(site, f"_compute_delay: first statement is not `x = config.backoff_base * (2**attempt)`: {_d(s1)}")
    expn = s1.targets[0].id  # type: ignore[union-attr]
    exp_term = "fscale (bbase c) attempt"
    # jittered = random.uniform(0, exp_delay)
    ok = (
        isinstance(s2, ast.Assign) and len(s2.targets) == 1 and isinstance(s2.targets[0], ast.Name)
        and isinstance(s2.value, ast.Call) and isinstance(s2.value.func, ast.Attribute) and s2.value.func.attr == "uniform"
        and isinstance(s2.value.func.value, ast.Name) and s2.value.func.value.id == "random" and len(s2.value.args) == 2 and not s2.value.keywords
        and isinstance(s2.value.args[0], ast.Constant) and s2.value.args[0].value == 0 and type(s2.value.args[0].value) in (int, float)
        and isinstance(s2.value.args[1], ast.Name) and s2.value.args[1].id == expn
    )
    if not ok:
        raise TranslationBroken(site, f"_compute_delay: second statement is not `j = random.uniform(0, {expn})`: {_d(s2)}")
    env = {expn: "exp_d", s2.targets[0].id: "jit"}  # type: ignore[union-attr]
    # delay = <fexpr>
    if not (isinstance(s3, ast.Assign) and len(s3.targets) == 1 and isinstance(s3.targets[0], ast.Name)):
        raise TranslationBroken(site, f"_compute_delay: third statement is not an assignment: {_d(s3)}")
    dn = s3.targets[0].id
    d0 = _fexpr(s3.value, env, site)
    env2 = dict(env)
    env2[dn] = "delay"
    # if config.respect_retry_after and retry_after is not None: delay = <fexpr>
    t = s4.test if isinstance(s4, ast.If) else None
    ok = (
        isinstance(s4, ast.If) and not s4.orelse and len(s4.body) == 1
        and isinstance(t, ast.BoolOp) and isinstance(t.op, ast.And) and len(t.values) == 2
        and _is_cfg_attr(t.values[0]) == "respect_retry_after"
        and isinstance(t.values[1], ast.Compare) and isinstance(t.values[1].left, ast.Name) and t.values[1].left.id == "retry_after"
        and len(t.values[1].ops) == 1 and isinstance(t.values[1].ops[0], ast.IsNot)
        and isinstance(t.values[1].comparators[0], ast.Constant) and t.values[1].comparators[0].value is None
        and isinstance(s4.body[0], ast.Assign) and len(s4.body[0].targets) == 1
        and isinstance(s4.body[0].targets[0], ast.Name) and s4.body[0].targets[0].id == dn
    )
    if not ok:
        raise TranslationBroken(site, f"_compute_delay: fourth statement is not the respect_retry_after branch: {_d(s4)}")
    env3 = dict(env2)
    env3["retry_after"] = "retry_after"
    d1 = _fexpr(s4.body[0].value, env3, site)  # type: ignore[union-attr]
    if not (isinstance(s5, ast.Return) and isinstance(s5.value, ast.Name) and s5.value.id == dn):
        raise TranslationBroken(site, f"_compute_delay: does not end with `return {dn}`: {_d(s5)}")
    term = (
        f"let exp_d := {exp_term} in\n  let delay := {d0} in\n"
        f"  if respect_ra c then match ra with Some retry_after => {d1} | None => delay end else delay"
    )
    return exp_term, term


# ---------------------------------------------------------------------------------------------
# _request_with_retry
# ---------------------------------------------------------------------------------------------
def _nexpr(node: ast.AST, site: str) -> str:
    """nat-valued expression: attempt, config.max_retries, small literals, +."""
    if isinstance(node, ast.Name) and node.id == "attempt":
        return "attempt"
    if _is_cfg_attr(node) == "max_retries":
        return "max_retries c"
    if isinstance(node, ast.Constant) and type(node.value) is int and 0 <= node.value < 100:
        return str(node.value)
    if isinstance(node, ast.BinOp) and isinstance(node.op, ast.Add):
        return f"({_nexpr(node.left, site)} + {_nexpr(node.right, site)})"
    raise TranslationBroken(site, f"unsupported integer expression {_d(node)}")


def _bexpr(node: ast.AST, site: str) -> str:
    if isinstance(node, ast.BoolOp):
        op = " || " if isinstance(node.op, ast.Or) else " && "
        return "(" + op.join(_bexpr(v, site) for v in node.values) + ")"
    if isinstance(node, ast.UnaryOp) and isinstance(node.op, ast.Not):
        return f"negb {_bexpr(node.operand, site)}"
    f = _is_cfg_attr(node)
    if f in BOOL_FIELDS:
        return f"({FIELDS[f]} c)"
    if isinstance(node, ast.Compare) and len(node.ops) == 1:
        a, b = _nexpr(node.left, site), _nexpr(node.comparators[0], site)
        op = node.ops[0]
        if isinstance(op, ast.GtE):
            return f"({b} <=? {a})%nat"
        if isinstance(op, ast.Gt):
            return f"({b} <? {a})%nat"
        if isinstance(op, ast.LtE):
            return f"({a} <=? {b})%nat"
        if isinstance(op, ast.Lt):
            return f"({a} <? {b})%nat"
        if isinstance(op, ast.Eq):
            return f"({a} =? {b})%nat"
    raise TranslationBroken(site, f"unsupported guard expression {_d(node)}")


def _is_log(st: ast.stmt) -> bool:
    return (
        isinstance(st, ast.Expr) and isinstance(st.value, ast.Call) and isinstance(st.value.func, ast.Attribute)
        and isinstance(st.value.func.value, ast.Name) and st.value.func.value.id == "_logger"
    )


def _exc_names(node: ast.AST | None, site: str) -> list[str]:
    items = node.elts if isinstance(node, ast.Tuple) else [node]
    out = []
    for it in items:
        if not (isinstance(it, ast.Attribute) and isinstance(it.value, ast.Name) and it.value.id == "httpx2"):
            raise TranslationBroken(site, f"handler catches something that is not httpx2.<Class>: {_d(it) if it else it}")
        out.append(it.attr)
    return out


def _match_retry_tail(sts: list[ast.stmt], ra_arg: str | None, terminal: str | None, site: str) -> None:
    """delay = _compute_delay(attempt, config, <ra>) ; [log] ; _sleep(delay) ; [continue]"""
    sts = [s for s in sts if not _is_log(s)]
    want = 3 if terminal else 2
    if len(sts) != want:
        raise TranslationBroken(site, f"retry tail has {len(sts)} statements, expected {want}: {[_d(s)[:60] for s in sts]}")
    a = sts[0]
    ok = (
        isinstance(a, ast.Assign) and len(a.targets) == 1 and isinstance(a.targets[0], ast.Name)
        and isinstance(a.value, ast.Call) and isinstance(a.value.func, ast.Name) and a.value.func.id == "_compute_delay"
        and len(a.value.args) == 3 and not a.value.keywords
        and isinstance(a.value.args[0], ast.Name) and a.value.args[0].id == "attempt"
        and isinstance(a.value.args[1], ast.Name) and a.value.args[1].id == "config"
    )
    if ok:
        third = a.value.args[2]  # type: ignore[union-attr]
        if ra_arg is None:
            ok = isinstance(third, ast.Constant) and third.value is None
        else:
            ok = isinstance(third, ast.Name) and third.id == ra_arg
    if not ok:
        raise TranslationBroken(site, f"retry tail does not start with delay = _compute_delay(attempt, config, {ra_arg}): {_d(a)}")
    dn = a.targets[0].id  # type: ignore[union-attr]
    b = sts[1]
    ok = (
        isinstance(b, ast.Expr) and isinstance(b.value, ast.Call) and isinstance(b.value.func, ast.Name) and b.value.func.id == "_sleep"
        and len(b.value.args) == 1 and isinstance(b.value.args[0], ast.Name) and b.value.args[0].id == dn and not b.value.keywords
    )
    if not ok:
        raise TranslationBroken(site, f"retry tail does not call _sleep({dn}) exactly once: {_d(b)}")
    if terminal and not isinstance(sts[2], ast.Continue):
        raise TranslationBroken(site, f"retry tail does not end with continue: {_d(sts[2])}")


def _guard_raise(st: ast.stmt, site: str) -> ast.expr:
    if not (isinstance(st, ast.If) and not st.orelse and len(st.body) == 1 and isinstance(st.body[0], ast.Raise) and st.body[0].exc is None):
        raise TranslationBroken(site, f"expected `if <guard>: raise`: {_d(st)}")
    return st.test


def request_with_retry(fn: ast.FunctionDef, site: str) -> dict[str, str]:
    body = _strip_doc(fn.body)
    # last_resp = None ; last_retry_after = None ; for ... ; if last_resp is None: raise ... ; raise HttpTransientError(...)
    if len(body) != 5:
        raise TranslationBroken(site, f"_request_with_retry has {len(body)} top-level statements, expected 5")
    for st in body[:2]:
        tgt = st.target if isinstance(st, ast.AnnAssign) else (st.targets[0] if isinstance(st, ast.Assign) and len(st.targets) == 1 else None)
        val = getattr(st, "value", None)
        if not (isinstance(tgt, ast.Name) and tgt.id in ("last_resp", "last_retry_after") and isinstance(val, ast.Constant) and val.value is None):
            raise TranslationBroken(site, f"unexpected initialisation {_d(st)}")
    loop = body[2]
    ok = (
        isinstance(loop, ast.For) and not loop.orelse and isinstance(loop.target, ast.Name) and loop.target.id == "attempt"
        and isinstance(loop.iter, ast.Call) and isinstance(loop.iter.func, ast.Name) and loop.iter.func.id == "range"
        and len(loop.iter.args) == 1 and not loop.iter.keywords
    )
    if not ok:
        raise TranslationBroken(site, f"the loop is not `for attempt in range(<e>)`: {_d(loop)}")
    fuel = _nexpr(loop.iter.args[0], site)  # type: ignore[union-attr]
    lb = loop.body  # type: ignore[union-attr]
    if len([s for s in lb if not _is_log(s)]) < 6 or not isinstance(lb[0], ast.Try):
        raise TranslationBroken(site, "loop body does not start with try:")
    tr = lb[0]
    ok = (
        len(tr.body) == 1 and not tr.orelse and not tr.finalbody and len(tr.handlers) == 2
        and isinstance(tr.body[0], ast.Assign) and len(tr.body[0].targets) == 1 and isinstance(tr.body[0].targets[0], ast.Name)
        and tr.body[0].targets[0].id == "resp" and isinstance(tr.body[0].value, ast.Call)
        and isinstance(tr.body[0].value.func, ast.Name) and tr.body[0].value.func.id == "make_request"
        and not tr.body[0].value.args and not tr.body[0].value.keywords
    )
    if not ok:
        raise TranslationBroken(site, "try: body is not `resp = make_request()` with exactly two handlers")
    h1, h2 = tr.handlers
    if _exc_names(h1.type, site) != ["RemoteProtocolError"] or h1.name is None:
        raise TranslationBroken(site, f"first handler is not `except httpx2.RemoteProtocolError as exc`: {_exc_names(h1.type, site)}")
    if sorted(_exc_names(h2.type, site)) != ["ConnectError", "TimeoutException"]:
        raise TranslationBroken(site, f"second handler does not catch exactly (ConnectError, TimeoutException): {_exc_names(h2.type, site)}")
    # handler 1: if "<marker>" not in str(exc): raise ; if <guard>: raise ; tail
    hb = [s for s in h1.body if not _is_log(s)]
    t0 = _guard_raise(hb[0], site)
    ok = (
        isinstance(t0, ast.Compare) and len(t0.ops) == 1 and isinstance(t0.ops[0], ast.NotIn)
        and isinstance(t0.left, ast.Constant) and isinstance(t0.left.value, str)
        and isinstance(t0.comparators[0], ast.Call) and isinstance(t0.comparators[0].func, ast.Name) and t0.comparators[0].func.id == "str"
        and len(t0.comparators[0].args) == 1 and isinstance(t0.comparators[0].args[0], ast.Name) and t0.comparators[0].args[0].id == h1.name
    )
    if not ok:
        raise TranslationBroken(site, f"first handler does not start with `if <str> not in str({h1.name}): raise`: {_d(t0)}")
    marker = t0.left.value  # type: ignore[union-attr]
    g1 = _bexpr(_guard_raise(hb[1], site), site)
    _match_retry_tail(hb[2:], None, "continue", site)
    hb2 = [s for s in h2.body if not _is_log(s)]
    g2 = _bexpr(_guard_raise(hb2[0], site), site)
    _match_retry_tail(hb2[1:], None, "continue", site)
    # after the try
    rest = [s for s in lb[1:] if not _is_log(s)]
    st = rest[0]
    t = st.test if isinstance(st, ast.If) else None
    ok = (
        isinstance(st, ast.If) and not st.orelse and len(st.body) == 1 and isinstance(st.body[0], ast.Return)
        and isinstance(st.body[0].value, ast.Name) and st.body[0].value.id == "resp"
        and isinstance(t, ast.Compare) and len(t.ops) == 1 and isinstance(t.ops[0], ast.NotIn)
        and isinstance(t.left, ast.Attribute) and t.left.attr == "status_code" and isinstance(t.left.value, ast.Name) and t.left.value.id == "resp"
        and _is_cfg_attr(t.comparators[0]) == "retryable_status_codes"
    )
    if not ok:
        raise TranslationBroken(site, f"expected `if resp.status_code not in config.retryable_status_codes: return resp`: {_d(st)}")
    a1, a2 = rest[1], rest[2]
    ok = (
        isinstance(a1, ast.Assign) and isinstance(a1.targets[0], ast.Name) and a1.targets[0].id == "last_resp"
        and isinstance(a1.value, ast.Name) and a1.value.id == "resp"
        and isinstance(a2, ast.Assign) and isinstance(a2.targets[0], ast.Name) and a2.targets[0].id == "last_retry_after"
        and isinstance(a2.value, ast.Call) and isinstance(a2.value.func, ast.Name) and a2.value.func.id == "_get_retry_after"
        and len(a2.value.args) == 1 and isinstance(a2.value.args[0], ast.Attribute) and a2.value.args[0].attr == "headers"
    )
    if not ok:
        raise TranslationBroken(site, "expected last_resp = resp ; last_retry_after = _get_retry_after(resp.headers)")
    br = rest[3]
    if not (isinstance(br, ast.If) and not br.orelse and len(br.body) == 1 and isinstance(br.body[0], ast.Break)):
        raise TranslationBroken(site, f"expected `if <guard>: break`: {_d(br)}")
    g3 = _bexpr(br.test, site)
    _match_retry_tail(rest[4:], "last_retry_after", None, site)
    # after the loop: two raises of HttpTransientError
    s4, s5 = body[3], body[4]

    def is_transient_raise(r: ast.stmt) -> bool:
        return isinstance(r, ast.Raise) and isinstance(r.exc, ast.Call) and isinstance(r.exc.func, ast.Name) and r.exc.func.id == "HttpTransientError"

    if not (isinstance(s4, ast.If) and not s4.orelse and len(s4.body) == 1 and is_transient_raise(s4.body[0]) and is_transient_raise(s5)):
        raise TranslationBroken(site, "the loop is not followed by the two HttpTransientError raises")
    e = s5.exc  # type: ignore[union-attr]
    ok = (
        len(e.args) == 3 and isinstance(e.args[0], ast.Attribute) and e.args[0].attr == "status_code"
        and isinstance(e.args[0].value, ast.Name) and e.args[0].value.id == "last_resp"
        and isinstance(e.args[2], ast.Name) and e.args[2].id == "last_retry_after"
    )
    if not ok:
        raise TranslationBroken(site, "HttpTransientError is not raised with (last_resp.status_code, ..., last_retry_after)")
    return {"fuel": fuel, "g_disc": g1, "g_conn": g2, "g_status": g3, "marker": marker}


def wrapper_shape(fn: ast.FunctionDef, verb: str, site: str) -> None:
    """if config is None: return client.<verb>(...) ; return _request_with_retry(lambda: client.<verb>(...), config=config, ..., _sleep=_sleep)"""
    body = _strip_doc(fn.body)

    def is_client_call(n: ast.AST) -> bool:
        return (
            isinstance(n, ast.Call) and isinstance(n.func, ast.Attribute) and n.func.attr == verb
            and isinstance(n.func.value, ast.Name) and n.func.value.id == "client"
        )

    ok = (
        len(body) == 2 and isinstance(body[0], ast.If) and not body[0].orelse and len(body[0].body) == 1
        and isinstance(body[0].test, ast.Compare) and isinstance(body[0].test.left, ast.Name) and body[0].test.left.id == "config"
        and len(body[0].test.ops) == 1 and isinstance(body[0].test.ops[0], ast.Is)
        and isinstance(body[0].test.comparators[0], ast.Constant) and body[0].test.comparators[0].value is None
        and isinstance(body[0].body[0], ast.Return) and is_client_call(body[0].body[0].value)
        and isinstance(body[1], ast.Return) and isinstance(body[1].value, ast.Call)
        and isinstance(body[1].value.func, ast.Name) and body[1].value.func.id == "_request_with_retry"
        and len(body[1].value.args) == 1 and isinstance(body[1].value.args[0], ast.Lambda) and is_client_call(body[1].value.args[0].body)
    )
    if ok:
        kws = {k.arg: k.value for k in body[1].value.keywords}  # type: ignore[union-attr]
        ok = isinstance(kws.get("config"), ast.Name) and kws["config"].id == "config" and isinstance(kws.get("_sleep"), ast.Name) and kws["_sleep"].id == "_sleep"
    if not ok:
        raise TranslationBroken(site, f"{fn.name} does not have the shape `if config is None: return client.{verb}(..) ; return _request_with_retry(lambda: client.{verb}(..), config=config, .., _sleep=_sleep)`")


# ---------------------------------------------------------------------------------------------
# request sites of _client.py
# ---------------------------------------------------------------------------------------------
HTTP_VERBS = {"post", "get", "put", "options", "delete", "patch", "head", "request", "send", "stream", "build_request"}


def _status_guard(test: ast.AST) -> str | None:
    """`resp.status_code == HTTPStatus.X [and ...]` -> G413 / G415."""
    first = test.values[0] if isinstance(test, ast.BoolOp) and isinstance(test.op, ast.And) else test
    if (
        isinstance(first, ast.Compare) and len(first.ops) == 1 and isinstance(first.ops[0], ast.Eq)
        and isinstance(first.left, ast.Attribute) and first.left.attr == "status_code"
        and isinstance(first.comparators[0], ast.Attribute) and isinstance(first.comparators[0].value, ast.Name)
        and first.comparators[0].value.id == "HTTPStatus"
    ):
        return {"REQUEST_ENTITY_TOO_LARGE": "G413", "UNSUPPORTED_MEDIA_TYPE": "G415"}.get(first.comparators[0].attr)
    return None


def sites(fn: ast.FunctionDef, client_expr: str, site: str) -> list[tuple[str, str]]:
    """Ordered request sites of a function: (SitePlain | SiteRetried, GAlways | G413 | G415)."""
    out: list[tuple[str, str]] = []

    def is_client(n: ast.AST) -> bool:
        if client_expr == "self._client":
            return isinstance(n, ast.Attribute) and n.attr == "_client" and isinstance(n.value, ast.Name) and n.value.id == "self"
        return isinstance(n, ast.Name) and n.id == client_expr

    def scan_expr(e: ast.AST, guard: str | None) -> None:
        for n in ast.walk(e):
            if isinstance(n, (ast.Lambda, ast.ListComp, ast.GeneratorExp, ast.SetComp, ast.DictComp)):
                for m in ast.walk(n):
                    if isinstance(m, ast.Call) and call_kind(m) is not None:
                        raise TranslationBroken(site, "request inside a lambda / comprehension")
            if isinstance(n, ast.Call):
                k = call_kind(n)
                if k is None:
                    continue
                if guard is None:
                    raise TranslationBroken(site, f"{fn.name}: request under a condition that is not a 413/415 status test")
                out.append((k, guard))

    def call_kind(n: ast.Call) -> str | None:
        f = n.func
        if isinstance(f, ast.Attribute) and is_client(f.value):
            if f.attr == "post":
                return "SitePlain"
            if f.attr in HTTP_VERBS:
                raise TranslationBroken(site, f"{fn.name}: client.{f.attr}(...) is not an expected request site")
            return None
        if isinstance(f, ast.Name) and f.id == "_post_with_retry":
            if not (n.args and is_client(n.args[0])):
                raise TranslationBroken(site, f"{fn.name}: _post_with_retry not called on the session client")
            kws = {k.arg: k.value for k in n.keywords}
            cfg = kws.get("config")
            ok = (isinstance(cfg, ast.Attribute) and cfg.attr == "_retry_config") or (isinstance(cfg, ast.Name) and cfg.id in ("retry_cfg", "retry_config", "retry"))
            if not ok or "_sleep" in kws:
                raise TranslationBroken(site, f"{fn.name}: _post_with_retry config/_sleep arguments changed")
            return "SiteRetried"
        if isinstance(f, ast.Name) and f.id in ("_request_with_retry", "_options_with_retry"):
            raise TranslationBroken(site, f"{fn.name}: unexpected {f.id} call")
        return None

    def has_site(node: ast.AST) -> bool:
        return any(isinstance(n, ast.Call) and call_kind(n) is not None for n in ast.walk(node))

    def scan(sts: list[ast.stmt], guard: str | None) -> None:
        for st in sts:
            if isinstance(st, (ast.For, ast.While, ast.AsyncFor)):
                if has_site(st):
                    raise TranslationBroken(site, f"{fn.name}: request inside a loop")
            elif isinstance(st, ast.If):
                scan_expr(st.test, guard)
                g = _status_guard(st.test)
                if g is not None and guard == "GAlways":
                    scan(st.body, g)
                else:
                    inner = None if has_site(ast.Module(body=st.body, type_ignores=[])) else guard
                    if inner is None and g is None:
                        raise TranslationBroken(site, f"{fn.name}: request under an unrecognised condition: {_d(st.test)}")
                    scan(st.body, inner)
                if st.orelse:
                    if has_site(ast.Module(body=st.orelse, type_ignores=[])):
                        raise TranslationBroken(site, f"{fn.name}: request in an else branch")
            elif isinstance(st, ast.Try):
                scan(st.body, guard)
                for h in st.handlers:
                    if has_site(ast.Module(body=h.body, type_ignores=[])):
                        raise TranslationBroken(site, f"{fn.name}: request inside an exception handler")
                if has_site(ast.Module(body=st.orelse + st.finalbody, type_ignores=[])):
                    raise TranslationBroken(site, f"{fn.name}: request in try-else/finally")
            elif isinstance(st, ast.With):
                for it in st.items:
                    scan_expr(it.context_expr, guard)
                scan(st.body, guard)
            elif isinstance(st, (ast.FunctionDef, ast.AsyncFunctionDef, ast.ClassDef)):
                if has_site(st):
                    raise TranslationBroken(site, f"{fn.name}: request inside a nested definition")
            else:
                scan_expr(st, guard)

    scan(_strip_doc(fn.body), "GAlways")
    return out


def cancel_releases_first(fn: ast.FunctionDef, site: str) -> bool:
    """In cancel(): does the unconditional ``self._state_bytes = None`` come BEFORE the statement that posts?
    (the model's cancel() drops the token whatever the POST does; a release after the POST is skipped when it raises)"""
    rel = post = None
    for i, st in enumerate(_strip_doc(fn.body)):
        is_rel = (
            isinstance(st, ast.Assign) and len(st.targets) == 1 and isinstance(st.targets[0], ast.Attribute)
            and st.targets[0].attr == "_state_bytes" and isinstance(st.targets[0].value, ast.Name) and st.targets[0].value.id == "self"
            and isinstance(st.value, ast.Constant) and st.value.value is None
        )
        if is_rel and rel is None:
            rel = i
        has_post = any(
            isinstance(n, ast.Call) and isinstance(n.func, ast.Attribute) and n.func.attr == "post"
            and isinstance(n.func.value, ast.Attribute) and n.func.value.attr == "_client"
            for n in ast.walk(st)
        )
        if has_post and post is None:
            post = i
    if post is None:
        raise TranslationBroken(site, "cancel(): no self._client.post(...) statement found")
    return rel is not None and rel < post


def _method(cls: ast.ClassDef, name: str, site: str) -> ast.FunctionDef:
    return _func(cls, name, site)


def _inner_caller(cls: ast.ClassDef, maker: str, site: str) -> ast.FunctionDef:
    mk = _func(cls, maker, site)
    return _func(mk, "caller", site + ":" + maker)


def csites(name: str, ss: list[tuple[str, str]]) -> str:
    return f"Definition {name} : list (site_kind * site_guard) := [" + "; ".join(f"({k}, {g})" for k, g in ss) + "]."


# ---------------------------------------------------------------------------------------------
def definitions(repo: Path) -> str:
    rp = repo / "vgi_rpc" / "http" / "_retry.py"
    cp = repo / "vgi_rpc" / "http" / "_client.py"
    rt, ct = _parse(rp), _parse(cp)
    rs, cs = str(rp), str(cp)
    dr = default_retryable(rt, rs)
    cd = config_defaults(rt, rs)
    valid = post_init(cd["__post_init__"], rs)
    exp_term, delay_term = compute_delay(_func(rt, "_compute_delay", rs), rs)
    rw = request_with_retry(_func(rt, "_request_with_retry", rs), rs)
    wrapper_shape(_func(rt, "_post_with_retry", rs), "post", rs)
    wrapper_shape(_func(rt, "_options_with_retry", rs), "options", rs)
    sess = _cls(ct, "HttpStreamSession", cs)
    prox = _cls(ct, "_HttpProxy", cs)
    lines = [
        "From Coq Require Import List NArith ZArith QArith Bool.",
        "From VGI Require Import M_Retry.",
        "Import ListNotations.",
        "",
        "Definition gen_default_retryable : list N := [" + "; ".join(str(x) for x in dr) + "]%N.",
        "Definition gen_default_config : config :=",
        f"  {{| max_retries := {cd['max_retries']}; bbase := {cfl(cd['backoff_base'])}; bmax := {cfl(cd['backoff_max'])};",
        f"     retryable := gen_default_retryable; roce := {str(cd['retry_on_connection_error']).lower()}; respect_ra := {str(cd['respect_retry_after']).lower()} |}}.",
        f"Definition gen_cfg_valid (c : config) : bool := {valid}.",
        f"Definition gen_exp_delay (c : config) (attempt : nat) : fl := {exp_term}.",
        "Definition gen_compute_delay (c : config) (attempt : nat) (ra : option fl) (jit : fl) : fl :=",
        f"  {delay_term}.",
        f"Definition gen_loop_fuel (c : config) : nat := {rw['fuel']}.",
        f"Definition gen_guard_disconnect (c : config) (attempt : nat) : bool := {rw['g_disc']}.",
        f"Definition gen_guard_conn (c : config) (attempt : nat) : bool := {rw['g_conn']}.",
        f"Definition gen_guard_status (c : config) (attempt : nat) : bool := {rw['g_status']}.",
        "Definition gen_disconnect_marker : list N := [" + "; ".join(str(ord(ch)) for ch in rw["marker"]) + "]%N.",
        csites("gen_exchange_sites", sites(_method(sess, "exchange", cs), "self._client", cs)),
        csites("gen_cancel_sites", sites(_method(sess, "cancel", cs), "self._client", cs)),
        "Definition gen_cancel_releases_token_before_post : bool := " + str(cancel_releases_first(_method(sess, "cancel", cs), cs)).lower() + ".",
        csites("gen_continuation_sites", sites(_method(sess, "_send_continuation", cs), "self._client", cs)),
        csites("gen_unary_sites", sites(_inner_caller(prox, "_make_unary_caller", cs), "client", cs)),
        csites("gen_init_sites", sites(_inner_caller(prox, "_make_stream_caller", cs), "client", cs)),
    ]
    return "\n".join(lines) + "\n"
