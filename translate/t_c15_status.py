"""Fail-closed translator for the HTTP status tables of property C15 -> coq/gen/G_HttpStatus.v (``gen_cfg : config``).

What is read from the tree under test, and the only shapes accepted (anything else raises TranslationBroken):

  _factory.make_wsgi_app     source order of the constructor calls of the three request-rejecting middlewares
                             (_MaxRequestBytesMiddleware, _CompressionMiddleware, _AuthMiddleware) among everything put
                             into ``middleware`` (list literal + ``middleware.append``), each exactly once
  _middleware.<class>        every ``raise falcon.HTTPxxx(...)`` of the class, in source order -> status list
                             (any raise of something that is not a known falcon.HTTP* class, other than a bare re-raise, is refused)
  _errors._make_error_serializer._serialize
                             the leading ``if not isinstance(exc, falcon.HTTPUnauthorized):`` block: either
                             [content_type = MEDIA_JSON; data = exc.to_json(); return]  or the same preceded by ONE
                             ``if isinstance(exc, (falcon.HTTPa, ...)):`` block that sets content_type = _ARROW_CONTENT_TYPE,
                             data = _error_response_stream(...).getvalue() and returns -> statuses rendered as Arrow
  _app._resolve_method       first statement ``_check_content_type(req)`` (whose single raise gives the first status),
                             then the single ``raise _RpcHttpError(..., status_code=HTTPStatus.X)`` under ``if info is None``
  _resources.<Resource>.on_post   the first ``raise _RpcHttpError`` after ``_resolve_method`` (kind mismatch), and that the
                             only handler is ``except _RpcHttpError`` -> ``_set_error_response(..., status_code=e.status_code, ...)``
  _responses._set_http_status    ``if status_code == HTTPStatus.X: resp.status = "N"; resp.set_header(RPC_ERROR_HEADER, "true")
                             else: resp.status = str(status_code.value)``
  _app_unary._run_unary_sync / _app_stream._run_stream_init_sync
                             the try statement whose handlers all end in ``raise _RpcHttpError(exc, status_code=...)`` and
                             whose body calls ``_read_request``: ordered (classes, status)
  _app_stream._run_stream_exchange_sync   the try statement whose body calls ``ipc.open_stream``: ordered (classes, status)
  _state_token.py, _app_stream._unpack_and_recover_state / _resolve_call_from_token / the exchange shell
                             the status of every ``_RpcHttpError(...)`` there that is not under one of the tries above
  rpc/_wire._read_request / _decode_request   whether ``tp.decode()`` sits in a try whose UnicodeDecodeError handler raises RpcError,
                             on the path the HTTP shells take (no contain_decode_errors)
"""
from __future__ import annotations

import ast
from http import HTTPStatus
from pathlib import Path
from typing import Any

from vlib.core import TranslationBroken

FALCON_STATUS = {
    "HTTPBadRequest": 400, "HTTPUnauthorized": 401, "HTTPForbidden": 403, "HTTPNotFound": 404,
    "HTTPContentTooLarge": 413, "HTTPPayloadTooLarge": 413, "HTTPUnsupportedMediaType": 415,
    "HTTPInternalServerError": 500, "HTTPServiceUnavailable": 503,
}
HCLS = {
    "pa.ArrowInvalid": "HArrowInvalid", "OSError": "HOSError", "StopIteration": "HStopIteration", "TypeError": "HTypeError",
    "RpcError": "HRpcError", "VersionError": "HVersionError", "ValueError": "HValueError", "KeyError": "HKeyError",
    "Exception": "HException",
}
MW = {"_MaxRequestBytesMiddleware": "MwMaxBytes", "_CompressionMiddleware": "MwCompression", "_AuthMiddleware": "MwAuth"}


def _parse(p: Path) -> ast.Module:
    try:
        return ast.parse(p.read_text())
    except (OSError, SyntaxError) as e:
        raise TranslationBroken(str(p), f"cannot parse: {e}") from e


def _func(tree: ast.AST, name: str, site: str, cls: str | None = None) -> ast.FunctionDef:
    scope: ast.AST = tree
    if cls is not None:
        cs = [n for n in ast.walk(tree) if isinstance(n, ast.ClassDef) and n.name == cls]
        if len(cs) != 1:
            raise TranslationBroken(site, f"class {cls} not found exactly once")
        scope = cs[0]
    fs = [n for n in ast.walk(scope) if isinstance(n, ast.FunctionDef) and n.name == name]
    if len(fs) != 1:
        raise TranslationBroken(site, f"function {name} not found exactly once")
    return fs[0]


def _http_status_attr(e: ast.expr, site: str) -> int:
    """HTTPStatus.NAME -> number."""
    if isinstance(e, ast.Attribute) and isinstance(e.value, ast.Name) and e.value.id == "HTTPStatus":
        try:
            return int(HTTPStatus[e.attr].value)
        except KeyError as ex:
            raise TranslationBroken(site, f"unknown HTTPStatus.{e.attr}") from ex
    raise TranslationBroken(site, f"status is not an HTTPStatus constant: {ast.unparse(e)[:60]!r}")


def _rpc_http_error_status(call: ast.expr, site: str, allow_names: dict[str, int] | None = None) -> int:
    if not (isinstance(call, ast.Call) and isinstance(call.func, ast.Name) and call.func.id == "_RpcHttpError"):
        raise TranslationBroken(site, f"not an _RpcHttpError(...): {ast.unparse(call)[:60]!r}")
    kws = [k for k in call.keywords if k.arg == "status_code"]
    if len(kws) != 1:
        raise TranslationBroken(site, "_RpcHttpError without status_code=")
    v = kws[0].value
    if allow_names and isinstance(v, ast.Attribute) and ast.unparse(v) in allow_names:
        return allow_names[ast.unparse(v)]
    return _http_status_attr(v, site)


def _walk_no_nested_defs(node: ast.AST) -> Any:
    for child in ast.iter_child_nodes(node):
        if isinstance(child, (ast.FunctionDef, ast.AsyncFunctionDef, ast.Lambda, ast.ClassDef)):
            continue
        yield child
        yield from _walk_no_nested_defs(child)


# ---------------------------------------------------------------------------------------------- middleware order
def middleware_order(repo: Path) -> list[str]:
    p = repo / "vgi_rpc/http/server/_factory.py"
    site = f"{p}:make_wsgi_app"
    fn = _func(_parse(p), "make_wsgi_app", site)
    found: list[tuple[int, str]] = []
    for n in ast.walk(fn):
        if isinstance(n, ast.Call) and isinstance(n.func, ast.Name) and n.func.id in MW:
            found.append((n.lineno, MW[n.func.id]))
    names = [m for _, m in sorted(found)]
    if sorted(names) != sorted(MW.values()):
        raise TranslationBroken(site, f"each rejecting middleware must be constructed exactly once, found {names}")
    # every construction must be the argument of middleware.append(...) or an element of the initial list
    for n in ast.walk(fn):
        if isinstance(n, ast.Call) and isinstance(n.func, ast.Name) and n.func.id in MW:
            ok = False
            for m in ast.walk(fn):
                if isinstance(m, ast.Call) and ast.unparse(m.func) == "middleware.append" and len(m.args) == 1 and m.args[0] is n:
                    ok = True
                if isinstance(m, ast.AnnAssign) and isinstance(m.target, ast.Name) and m.target.id == "middleware" and isinstance(m.value, ast.List) and n in m.value.elts:
                    ok = True
            if not ok:
                raise TranslationBroken(site, f"{n.func.id} is not appended to the middleware list directly")
    # nothing reorders the list
    for n in ast.walk(fn):
        if isinstance(n, ast.Attribute) and isinstance(n.value, ast.Name) and n.value.id == "middleware" and n.attr != "append":
            raise TranslationBroken(site, f"middleware.{n.attr} is used")
    return names


def middleware_raises(repo: Path, cls: str) -> list[int]:
    p = repo / "vgi_rpc/http/server/_middleware.py"
    site = f"{p}:{cls}"
    cs = [n for n in ast.walk(_parse(p)) if isinstance(n, ast.ClassDef) and n.name == cls]
    if len(cs) != 1:
        raise TranslationBroken(site, "class not found exactly once")
    if not any(isinstance(n, ast.FunctionDef) and n.name == "process_request" for n in cs[0].body):
        raise TranslationBroken(site, "no process_request")
    out: list[tuple[int, int]] = []
    for n in ast.walk(cs[0]):
        if isinstance(n, ast.Raise):
            if n.exc is None:
                continue
            c = n.exc
            if isinstance(c, ast.Call) and isinstance(c.func, ast.Attribute) and isinstance(c.func.value, ast.Name) and c.func.value.id == "falcon" and c.func.attr in FALCON_STATUS:
                out.append((n.lineno, FALCON_STATUS[c.func.attr]))
            else:
                raise TranslationBroken(site, f"raise of something else than a known falcon.HTTP* error: {ast.unparse(c)[:60]!r}")
    return [s for _, s in sorted(out)]


# ---------------------------------------------------------------------------------------------- error serializer
def arrow_rendered(repo: Path) -> list[int]:
    p = repo / "vgi_rpc/http/server/_errors.py"
    site = f"{p}:_serialize"
    fn = _func(_parse(p), "_serialize", site)
    body = [s for s in fn.body if not (isinstance(s, ast.Expr) and isinstance(s.value, ast.Constant))]
    first = body[0]
    if not (isinstance(first, ast.If) and ast.unparse(first.test) == "not isinstance(exc, falcon.HTTPUnauthorized)" and not first.orelse):
        raise TranslationBroken(site, "first statement is not `if not isinstance(exc, falcon.HTTPUnauthorized):`")
    json_tail = ["resp.content_type = falcon.MEDIA_JSON", "resp.data = exc.to_json()", "return"]
    stmts = first.body
    rendered: list[int] = []
    if len(stmts) == 4:
        br = stmts[0]
        if not (isinstance(br, ast.If) and not br.orelse and isinstance(br.test, ast.Call) and ast.unparse(br.test.func) == "isinstance"
                and len(br.test.args) == 2 and ast.unparse(br.test.args[0]) == "exc"):
            raise TranslationBroken(site, "unexpected statement before the JSON fallback")
        classes = br.test.args[1].elts if isinstance(br.test.args[1], ast.Tuple) else [br.test.args[1]]
        for c in classes:
            nm = ast.unparse(c)
            if not nm.startswith("falcon.") or nm[7:] not in FALCON_STATUS:
                raise TranslationBroken(site, f"unknown error class {nm!r}")
            rendered.append(FALCON_STATUS[nm[7:]])
        texts = [ast.unparse(s) for s in br.body]
        if not (texts[-1] == "return" and "resp.content_type = _ARROW_CONTENT_TYPE" in texts
                and any(t.startswith("resp.data = _error_response_stream(") and t.endswith(".getvalue()") for t in texts)
                and all(t.startswith(("resp.content_type =", "resp.data =", "detail =")) or t == "return" for t in texts)):
            raise TranslationBroken(site, f"Arrow branch has an unexpected body: {texts}")
        stmts = stmts[1:]
    if [ast.unparse(s) for s in stmts] != json_tail:
        raise TranslationBroken(site, f"JSON fallback has an unexpected body: {[ast.unparse(s) for s in stmts]}")
    return sorted(set(rendered))


# ---------------------------------------------------------------------------------------------- resolve / kind / marker
def resolve_statuses(repo: Path) -> list[int]:
    pa_ = repo / "vgi_rpc/http/server/_app.py"
    site = f"{pa_}:_resolve_method"
    fn = _func(_parse(pa_), "_resolve_method", site, cls="_HttpRpcApp")
    body = [s for s in fn.body if not (isinstance(s, ast.Expr) and isinstance(s.value, ast.Constant))]
    if not (len(body) == 4 and ast.unparse(body[0]) == "_check_content_type(req)" and ast.unparse(body[1]) == "info = self._server.methods.get(method)"
            and isinstance(body[2], ast.If) and ast.unparse(body[2].test) == "info is None" and ast.unparse(body[3]) == "return info"):
        raise TranslationBroken(site, "unexpected statement sequence")
    raises = [n for n in ast.walk(body[2]) if isinstance(n, ast.Raise)]
    if len(raises) != 1 or raises[0].exc is None:
        raise TranslationBroken(site, "unknown-method branch does not raise exactly once")
    unknown = _rpc_http_error_status(raises[0].exc, site)
    pr = repo / "vgi_rpc/http/server/_responses.py"
    site2 = f"{pr}:_check_content_type"
    fc = _func(_parse(pr), "_check_content_type", site2)
    raises = [n for n in ast.walk(fc) if isinstance(n, ast.Raise)]
    ifs = [s for s in fc.body if isinstance(s, ast.If)]
    if len(raises) != 1 or raises[0].exc is None or len(ifs) != 1 or ast.unparse(ifs[0].test) != "content_type != _ARROW_CONTENT_TYPE":
        raise TranslationBroken(site2, "unexpected shape")
    if "content_type = req.content_type or ''" not in [ast.unparse(s) for s in fc.body]:
        raise TranslationBroken(site2, "content_type is not `req.content_type or ''`")
    return [_rpc_http_error_status(raises[0].exc, site2), unknown]


def kind_statuses(repo: Path) -> list[int]:
    p = repo / "vgi_rpc/http/server/_resources.py"
    tree = _parse(p)
    out = []
    for cls in ("_RpcResource", "_StreamInitResource", "_ExchangeResource"):
        site = f"{p}:{cls}.on_post"
        fn = _func(tree, "on_post", site, cls=cls)
        tries = [n for n in _walk_no_nested_defs(fn) if isinstance(n, ast.Try) and n.handlers]
        if len(tries) != 1:
            raise TranslationBroken(site, f"expected one try with handlers, found {len(tries)}")
        t = tries[0]
        if len(t.handlers) != 1 or ast.unparse(t.handlers[0].type or ast.Constant(None)) != "_RpcHttpError":
            raise TranslationBroken(site, "the handler is not exactly `except _RpcHttpError`")
        h = t.handlers[0]
        call = h.body[0].value if isinstance(h.body[0], ast.Expr) else None
        if not (isinstance(call, ast.Call) and ast.unparse(call.func) == "_set_error_response"
                and any(k.arg == "status_code" and ast.unparse(k.value) == f"{h.name}.status_code" for k in call.keywords)):
            raise TranslationBroken(site, "handler does not call _set_error_response(..., status_code=e.status_code)")
        if not ast.unparse(t.body[0]).startswith("info = self._app._resolve_method(req, method)"):
            raise TranslationBroken(site, "try does not start with _resolve_method")
        nxt = t.body[1]
        if not (isinstance(nxt, ast.If) and "info.method_type" in ast.unparse(nxt.test) and len(nxt.body) == 1 and isinstance(nxt.body[0], ast.Raise)):
            raise TranslationBroken(site, "second statement is not the method-kind check")
        exp = {"_RpcResource": "info.method_type == MethodType.STREAM"}.get(cls, "info.method_type != MethodType.STREAM")
        if ast.unparse(nxt.test) != exp:
            raise TranslationBroken(site, f"kind test is {ast.unparse(nxt.test)!r}")
        out.append(_rpc_http_error_status(nxt.body[0].exc, site))
        # any other raise in the responder would be a status the model does not know
        for n in _walk_no_nested_defs(fn):
            if isinstance(n, ast.Raise) and n is not nxt.body[0]:
                raise TranslationBroken(site, "another raise in the responder")
    return out


def marker_rule(repo: Path) -> tuple[int, int]:
    p = repo / "vgi_rpc/http/server/_responses.py"
    site = f"{p}:_set_http_status"
    fn = _func(_parse(p), "_set_http_status", site)
    body = [s for s in fn.body if not (isinstance(s, ast.Expr) and isinstance(s.value, ast.Constant))]
    if not (len(body) == 1 and isinstance(body[0], ast.If)):
        raise TranslationBroken(site, "not a single if")
    i = body[0]
    t = i.test
    if not (isinstance(t, ast.Compare) and ast.unparse(t.left) == "status_code" and len(t.ops) == 1 and isinstance(t.ops[0], ast.Eq)):
        raise TranslationBroken(site, "test is not `status_code == HTTPStatus.X`")
    frm = _http_status_attr(t.comparators[0], site)
    then = [ast.unparse(s) for s in i.body]
    if not (len(then) == 2 and then[0].startswith("resp.status = ") and then[1] == "resp.set_header(RPC_ERROR_HEADER, 'true')"):
        raise TranslationBroken(site, f"unexpected then-branch {then}")
    val = i.body[0].value  # type: ignore[attr-defined]
    if not (isinstance(val, ast.Constant) and isinstance(val.value, str) and val.value.isdigit()):
        raise TranslationBroken(site, "rewritten status is not a numeric string literal")
    if [ast.unparse(s) for s in i.orelse] != ["resp.status = str(status_code.value)"]:
        raise TranslationBroken(site, "unexpected else-branch")
    return frm, int(val.value)


# ---------------------------------------------------------------------------------------------- handler tables
def _handler_table(t: ast.Try, site: str) -> list[tuple[list[str], int]]:
    out = []
    for h in t.handlers:
        if h.type is None:
            raise TranslationBroken(site, "bare except")
        names = [ast.unparse(x) for x in (h.type.elts if isinstance(h.type, ast.Tuple) else [h.type])]
        for nm in names:
            if nm not in HCLS:
                raise TranslationBroken(site, f"unknown exception class {nm!r} in an except clause")
        last = h.body[-1]
        if not (isinstance(last, ast.Raise) and last.exc is not None and len(h.body) == 1):
            raise TranslationBroken(site, "except clause does not consist of one `raise _RpcHttpError(...)`")
        out.append(([HCLS[n] for n in names], _rpc_http_error_status(last.exc, site)))
    if t.orelse or t.finalbody:
        raise TranslationBroken(site, "try has else/finally")
    return out


def _try_calling(fn: ast.FunctionDef, callee: str, site: str) -> ast.Try:
    cands = []
    for n in _walk_no_nested_defs(fn):
        if isinstance(n, ast.Try) and n.handlers:
            direct = [s for s in n.body]
            txt = "\n".join(ast.unparse(s) for s in direct)
            if callee + "(" in txt and all(isinstance(h.body[-1], ast.Raise) for h in n.handlers) and any(
                isinstance(h.body[-1], ast.Raise) and h.body[-1].exc is not None and "_RpcHttpError" in ast.unparse(h.body[-1].exc) for h in n.handlers
            ):
                cands.append(n)
    # the innermost try whose handlers answer with _RpcHttpError and whose body (transitively) makes the call
    cands = [c for c in cands if not any(o is not c and o in list(ast.walk(c)) for o in cands)] or cands
    if len(cands) != 1:
        raise TranslationBroken(site, f"expected exactly one try around {callee}, found {len(cands)}")
    return cands[0]


def read_handlers(repo: Path) -> dict[str, list[tuple[list[str], int]]]:
    out = {}
    pu = repo / "vgi_rpc/http/server/_app_unary.py"
    ps = repo / "vgi_rpc/http/server/_app_stream.py"
    for key, p, fname, callee in (("unary", pu, "_run_unary_sync", "_read_request"), ("init", ps, "_run_stream_init_sync", "_read_request"),
                                  ("exchange", ps, "_run_stream_exchange_sync", "ipc.open_stream")):
        site = f"{p}:{fname}"
        fn = _func(_parse(p), fname, site)
        t = _try_calling(fn, callee, site)
        if key != "exchange":
            # the nested `except (KeyError, ValueError): raise TypeError(...)` around _deserialize_params is part of the shape
            inner = [n for s in t.body for n in ast.walk(s) if isinstance(n, ast.Try)]
            for it in inner:
                hs = [(ast.unparse(h.type) if h.type else None, ast.unparse(h.body[-1])) for h in it.handlers]
                if not (len(hs) == 1 and hs[0][0] == "(KeyError, ValueError)" and hs[0][1].startswith("raise TypeError(")):
                    raise TranslationBroken(site, f"unexpected nested try {hs}")
            calls = [ast.unparse(n.func) for s in t.body for n in ast.walk(s) if isinstance(n, ast.Call)]
            for need in ("_read_request", "_deserialize_params", "_validate_call_signature", "_validate_params"):
                if need not in calls:
                    raise TranslationBroken(site, f"{need} is not called inside the request-validation try")
        else:
            texts = [ast.unparse(s) for s in t.body]
            if not (len(texts) == 2 and "ipc.open_stream(stream)" in texts[0] and "read_next_batch_with_custom_metadata()" in texts[1]):
                raise TranslationBroken(site, f"unexpected body of the exchange read try: {texts}")
        out[key] = _handler_table(t, site)
    return out


def token_statuses(repo: Path) -> list[int]:
    """Every _RpcHttpError status of the token layer and of the exchange shell outside the read try / state-type guard."""
    ps = repo / "vgi_rpc/http/server/_app_stream.py"
    pt = repo / "vgi_rpc/http/server/_state_token.py"
    stats: set[int] = set()
    n_sites = 0
    tt = _parse(pt)
    for n in ast.walk(tt):
        if isinstance(n, ast.Call) and isinstance(n.func, ast.Name) and n.func.id == "_RpcHttpError":
            stats.add(_rpc_http_error_status(n, str(pt)))
            n_sites += 1
    ts = _parse(ps)
    for fname in ("_unpack_and_recover_state", "_resolve_call_from_token"):
        fn = _func(ts, fname, f"{ps}:{fname}")
        for n in ast.walk(fn):
            if isinstance(n, ast.Call) and isinstance(n.func, ast.Name) and n.func.id == "_RpcHttpError":
                stats.add(_rpc_http_error_status(n, f"{ps}:{fname}"))
                n_sites += 1
    fn = _func(ts, "_run_stream_exchange_sync", f"{ps}:_run_stream_exchange_sync")
    missing = [n for n in ast.walk(fn) if isinstance(n, ast.If) and ast.unparse(n.test) == "token is None"]
    if len(missing) != 1 or not isinstance(missing[0].body[0], ast.Raise) or missing[0].body[0].exc is None:
        raise TranslationBroken(f"{ps}:_run_stream_exchange_sync", "missing-token guard not found")
    stats.add(_rpc_http_error_status(missing[0].body[0].exc, f"{ps}:_run_stream_exchange_sync"))
    if n_sites < 10:
        raise TranslationBroken(str(pt), f"only {n_sites} token refusal sites found")
    return sorted(stats)


def traceparent_guarded(repo: Path) -> bool:
    """Is an undecodable trace context turned into RpcError on the path the HTTP shells take through _read_request?

    Accepted: the trace-context block lives in ``_read_request`` itself, or in ``_decode_request`` which ``_read_request``
    returns directly under ``if not contain_decode_errors:`` (default False) -- and then the HTTP shells must not pass
    ``contain_decode_errors`` (they call ``_read_request`` with positional arguments only), so the containment wrapper
    (which would change the exception classes) is not on their path.
    """
    p = repo / "vgi_rpc/rpc/_wire.py"
    tree = _parse(p)
    site = f"{p}:_read_request"
    fn = _func(tree, "_read_request", site)
    holder = fn
    blocks = [n for n in ast.walk(fn) if isinstance(n, ast.If) and ast.unparse(n.test) == "tp is not None"]
    if not blocks:
        # split shape: everything after the drain is in _decode_request
        args = fn.args
        names = [a.arg for a in args.args + args.kwonlyargs]
        defaults = dict(zip([a.arg for a in args.args][len(args.args) - len(args.defaults):], args.defaults))
        defaults.update({a.arg: d for a, d in zip(args.kwonlyargs, args.kw_defaults) if d is not None})
        if "contain_decode_errors" not in names or ast.unparse(defaults.get("contain_decode_errors", ast.Constant(None))) != "False":
            raise TranslationBroken(site, "no trace-context block and no `contain_decode_errors=False` parameter")
        direct = [n for n in fn.body if isinstance(n, ast.If) and ast.unparse(n.test) == "not contain_decode_errors"]
        if not (len(direct) == 1 and len(direct[0].body) == 1 and isinstance(direct[0].body[0], ast.Return)
                and ast.unparse(direct[0].body[0].value or ast.Constant(None)).startswith("_decode_request(") and not direct[0].orelse):
            raise TranslationBroken(site, "`if not contain_decode_errors: return _decode_request(...)` not found at the top level")
        # nothing between the drain and that return may raise or catch: only the reader statements precede it
        before = [ast.unparse(s) for s in fn.body[: fn.body.index(direct[0])] if not (isinstance(s, ast.Expr) and isinstance(s.value, ast.Constant))]
        if not (len(before) == 3 and before[0].startswith("reader = ValidatedReader(ipc.open_stream(reader_stream)")
                and "read_next_batch_with_custom_metadata()" in before[1] and before[2] == "_drain_stream(reader)"):
            raise TranslationBroken(site, f"unexpected statements before the decode step: {before}")
        for rel, fnames in (("vgi_rpc/http/server/_app_unary.py", ["_run_unary_sync"]), ("vgi_rpc/http/server/_app_stream.py", ["_run_stream_init_sync"])):
            t2 = _parse(repo / rel)
            for fname in fnames:
                f2 = _func(t2, fname, f"{rel}:{fname}")
                calls = [n for n in ast.walk(f2) if isinstance(n, ast.Call) and ast.unparse(n.func) == "_read_request"]
                if len(calls) != 1 or calls[0].keywords or len(calls[0].args) != 3:
                    raise TranslationBroken(f"{rel}:{fname}", "_read_request is not called exactly once with three positional arguments")
        site = f"{p}:_decode_request"
        holder = _func(tree, "_decode_request", site)
        blocks = [n for n in ast.walk(holder) if isinstance(n, ast.If) and ast.unparse(n.test) == "tp is not None"]
    if len(blocks) != 1:
        raise TranslationBroken(site, "`if tp is not None:` not found exactly once")
    blk = blocks[0]
    decodes = [n for n in ast.walk(blk) if isinstance(n, ast.Call) and ast.unparse(n.func) in ("tp.decode", "ts.decode")]
    if len(decodes) != 2 or any(n.args or n.keywords for n in decodes):
        raise TranslationBroken(site, "expected tp.decode() and ts.decode() without arguments")
    tries = [n for n in ast.walk(blk) if isinstance(n, ast.Try)]
    if not tries:
        return False
    if len(tries) != 1:
        raise TranslationBroken(site, "more than one try in the trace-context block")
    t = tries[0]
    inside = [n for n in ast.walk(t) if n in decodes]
    ok = (len(inside) == 2 and len(t.handlers) == 1 and ast.unparse(t.handlers[0].type or ast.Constant(None)) == "UnicodeDecodeError"
          and isinstance(t.handlers[0].body[-1], ast.Raise) and ast.unparse(t.handlers[0].body[-1].exc or ast.Constant(None)).startswith("RpcError("))
    if not ok:
        raise TranslationBroken(site, "trace-context try has an unexpected shape")
    return True


# ---------------------------------------------------------------------------------------------- Coq text
def _nl(xs: list[int]) -> str:
    return "[" + "; ".join(str(x) for x in xs) + "]"


def _hs(t: list[tuple[list[str], int]]) -> str:
    return "[" + "; ".join("([" + "; ".join(c) + "], " + str(s) + ")" for c, s in t) + "]"


def extract(repo: Path) -> dict[str, Any]:
    h = read_handlers(repo)
    return {
        "order": middleware_order(repo),
        "maxbytes": middleware_raises(repo, "_MaxRequestBytesMiddleware"),
        "compression": middleware_raises(repo, "_CompressionMiddleware"),
        "auth": middleware_raises(repo, "_AuthMiddleware"),
        "arrow_rendered": arrow_rendered(repo),
        "resolve": resolve_statuses(repo),
        "kind": kind_statuses(repo),
        "marker": marker_rule(repo),
        "unary": h["unary"], "init": h["init"], "exchange": h["exchange"],
        "token": token_statuses(repo),
        "traceparent_guarded": traceparent_guarded(repo),
    }


def coq_text(repo: Path) -> str:
    x = extract(repo)
    return (
        "From Coq Require Import List NArith Bool.\nFrom VGI Require Import M_HttpStatus.\nImport ListNotations.\nOpen Scope N_scope.\n"
        "Definition gen_cfg : config := mkCfg\n"
        f"  [{'; '.join(x['order'])}]\n  {_nl(x['maxbytes'])}\n  {_nl(x['compression'])}\n  {_nl(x['auth'])}\n  {_nl(x['arrow_rendered'])}\n"
        f"  {_nl(x['resolve'])}\n  {_nl(x['kind'])}\n  ({x['marker'][0]}, {x['marker'][1]})\n  {_hs(x['unary'])}\n  {_hs(x['init'])}\n  {_hs(x['exchange'])}\n"
        f"  {_nl(x['token'])}\n  {'true' if x['traceparent_guarded'] else 'false'}.\n"
    )
