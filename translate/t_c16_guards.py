"""Fail-closed translator for C16: the cap-site expressions of the source under test -> coq/gen/G_RespCaps.v.

What is regenerated (every definition is later proved equal to the hand model in coq/tie/T_RespCaps.v):

  gen_enforce            vgi_rpc/http/server/_responses.py  _enforce_response_budgets: the two `if ...: raise RuntimeError`
  gen_predict_batch      vgi_rpc/external.py                predict_externalize_bytes_for_batch   (statement sequence)
  gen_predict_coll       vgi_rpc/external.py                predict_externalize_bytes_for_collector
  gen_predict_mode       PLogical when both return the logical size they tested against the threshold, PFramed when both
                         return `_ipc_stream_size(...)` and that helper serialises the very batches that are uploaded into
                         a counting sink with `new_ipc_stream`
  gen_fires_batch/_coll  vgi_rpc/external.py                the early-return prefix of maybe_externalize_batch / _collector
  gen_preflight          _app_unary.py / _app_stream.py     the pre-flight `if` of the unary and of the exchange path (must be
                         the same expression), sitting before the flush; `_enforce_response_budgets(...)` sitting after it
                         with wire_bytes=resp_buf.tell() and the flush's return value as external_bytes
  gen_prod_guard         _app_stream.py                     `if max_external_bytes is not None and externalization_enabled:` /
                         `if predicted and cumulative_external_bytes + predicted > max_external_bytes:` in the producer loop,
                         before `cumulative_external_bytes += _flush_collector(...)`
  gen_should_continue    _app_stream.py                     `should_continue = max_bytes is not None and <write_sink|resp_buf>.tell() < max_bytes`
  (fact) the producer turn contains no `_enforce_response_budgets` call (the model has no post-flush check there).

Expression language accepted: names / attribute chains from a per-site table, integer literals, `+`, comparisons
`< > <= >= ==`, `and` / `or` / `not`, `X is None` / `X is not None` on option-typed names (a preceding
`X is not None` conjunct binds X for the conjuncts to its right), and truthiness of a number.  Anything else raises
TranslationBroken.
"""
from __future__ import annotations

import ast
from pathlib import Path

from vlib.core import TranslationBroken

N, B, O = "N", "bool", "optN"


class Env:
    def __init__(self, site: str, table: dict[str, tuple[str, str]]):
        self.site = site
        self.table = dict(table)  # python expression text -> (coq term, type)

    def bind(self, key: str, term: str) -> "Env":
        e = Env(self.site, self.table)
        e.table[key] = (term, N)
        return e


def _atom(node: ast.AST, env: Env) -> tuple[str, str] | None:
    key = ast.unparse(node)
    if key in env.table:
        return env.table[key]
    return None


def num(node: ast.AST, env: Env) -> str:
    a = _atom(node, env)
    if a is not None:
        if a[1] != N:
            raise TranslationBroken(env.site, f"`{ast.unparse(node)}` used as a number but is {a[1]}")
        return a[0]
    if isinstance(node, ast.Constant) and isinstance(node.value, int) and not isinstance(node.value, bool) and node.value >= 0:
        return f"{node.value}"
    if isinstance(node, ast.BinOp) and isinstance(node.op, ast.Add):
        return f"({num(node.left, env)} + {num(node.right, env)})"
    raise TranslationBroken(env.site, f"unsupported numeric expression `{ast.unparse(node)}`")


def boolean(node: ast.AST, env: Env) -> str:
    a = _atom(node, env)
    if a is not None:
        if a[1] == B:
            return a[0]
        if a[1] == N:
            return f"(negb ({a[0]} =? 0))"
        raise TranslationBroken(env.site, f"`{ast.unparse(node)}` (an optional) used as a truth value")
    if isinstance(node, ast.UnaryOp) and isinstance(node.op, ast.Not):
        return f"(negb {boolean(node.operand, env)})"
    if isinstance(node, ast.BoolOp) and isinstance(node.op, ast.Or):
        return "(" + " || ".join(boolean(v, env) for v in node.values) + ")"
    if isinstance(node, ast.BoolOp) and isinstance(node.op, ast.And):
        return _conj(list(node.values), env)
    if isinstance(node, ast.Compare) and len(node.ops) == 1:
        op, lhs, rhs = node.ops[0], node.left, node.comparators[0]
        if isinstance(op, (ast.Is, ast.IsNot)):
            if not (isinstance(rhs, ast.Constant) and rhs.value is None):
                raise TranslationBroken(env.site, f"`is` against something other than None: `{ast.unparse(node)}`")
            a = _atom(lhs, env)
            if a is None or a[1] != O:
                raise TranslationBroken(env.site, f"`{ast.unparse(lhs)}` is not a known optional")
            return f"(is_none {a[0]})" if isinstance(op, ast.Is) else f"(negb (is_none {a[0]}))"
        l, r = num(lhs, env), num(rhs, env)
        if isinstance(op, ast.Lt):
            return f"({l} <? {r})"
        if isinstance(op, ast.Gt):
            return f"({r} <? {l})"
        if isinstance(op, ast.LtE):
            return f"({l} <=? {r})"
        if isinstance(op, ast.GtE):
            return f"({r} <=? {l})"
        if isinstance(op, ast.Eq):
            return f"({l} =? {r})"
    raise TranslationBroken(env.site, f"unsupported condition `{ast.unparse(node)}`")


def _conj(values: list[ast.AST], env: Env) -> str:
    if not values:
        return "true"
    head, rest = values[0], values[1:]
    # `X is not None and ...` binds X (an optional) to its value for the remaining conjuncts
    if isinstance(head, ast.Compare) and len(head.ops) == 1 and isinstance(head.ops[0], ast.IsNot) and isinstance(head.comparators[0], ast.Constant) and head.comparators[0].value is None:
        a = _atom(head.left, env)
        if a is not None and a[1] == O:
            v = "v" + str(len(env.table))
            inner = _conj(rest, env.bind(ast.unparse(head.left), v))
            return f"(match {a[0]} with Some {v} => {inner} | None => false end)"
    if not rest:
        return boolean(head, env)
    return f"({boolean(head, env)} && {_conj(rest, env)})"


# ---------------------------------------------------------------------------------------------------------------
def _parse(path: Path) -> ast.Module:
    try:
        return ast.parse(path.read_text())
    except (OSError, SyntaxError) as e:
        raise TranslationBroken(str(path), f"cannot parse: {e}") from e


def _func(tree: ast.AST, name: str, site: str) -> ast.FunctionDef:
    found = [n for n in ast.walk(tree) if isinstance(n, ast.FunctionDef) and n.name == name]
    if len(found) != 1:
        raise TranslationBroken(site, f"expected exactly one function {name}, found {len(found)}")
    return found[0]


def _body(fn: ast.FunctionDef) -> list[ast.stmt]:
    b = fn.body
    if b and isinstance(b[0], ast.Expr) and isinstance(b[0].value, ast.Constant) and isinstance(b[0].value.value, str):
        return b[1:]
    return b


def _calls(node: ast.AST, name: str) -> list[ast.Call]:
    return [n for n in ast.walk(node) if isinstance(n, ast.Call) and ast.unparse(n.func) == name]


def _is_return_zero(st: ast.stmt) -> bool:
    return isinstance(st, ast.Return) and isinstance(st.value, ast.Constant) and st.value.value == 0 and not isinstance(st.value.value, bool)


def _try_data_batch(st: ast.stmt, target: str, site: str) -> bool:
    """`try: <target> = out.data_batch` / `except RuntimeError: <early return>`"""
    if not isinstance(st, ast.Try):
        return False
    if st.orelse or st.finalbody or len(st.handlers) != 1 or len(st.body) != 1:
        raise TranslationBroken(site, "unexpected try shape: " + ast.unparse(st)[:80])
    if ast.unparse(st.body[0]) != f"{target} = out.data_batch":
        raise TranslationBroken(site, "try body is not `" + target + " = out.data_batch`")
    h = st.handlers[0]
    if h.type is None or ast.unparse(h.type) != "RuntimeError" or len(h.body) != 1 or not isinstance(h.body[0], ast.Return):
        raise TranslationBroken(site, "try handler is not `except RuntimeError: return ...`")
    return True


# --------------------------------------------------------------------------------------------------------------- external.py
def _ipc_stream_size_ok(tree: ast.Module, site: str) -> None:
    fn = _func(tree, "_ipc_stream_size", site)
    src = ast.unparse(fn)
    need = ["pa.MockOutputStream()", "new_ipc_stream(", "writer.write_batch(", ".size()"]
    for n in need:
        if n not in src:
            raise TranslationBroken(site, f"_ipc_stream_size lacks `{n}`: not the counting serialisation the model assumes")
    rets = [n for n in ast.walk(fn) if isinstance(n, ast.Return)]
    if "sink = pa.MockOutputStream()" not in src or "new_ipc_stream(sink, schema)" not in src:
        raise TranslationBroken(site, "_ipc_stream_size does not write into `sink = pa.MockOutputStream()`")
    if len(rets) != 1 or ast.unparse(rets[0].value) not in ("sink.size()", "int(sink.size())"):
        raise TranslationBroken(site, "_ipc_stream_size must return sink.size() once")
    loops = [n for n in ast.walk(fn) if isinstance(n, ast.For)]
    if len(loops) != 1 or ast.unparse(loops[0].iter) != "batches" or len(_calls(loops[0], "writer.write_batch")) != 2:
        raise TranslationBroken(site, "_ipc_stream_size does not write every batch of `batches` (with / without metadata)")


def _predict(tree: ast.Module, name: str, collector: bool, site: str) -> tuple[str, str]:
    fn = _func(tree, name, site)
    params = [a.arg for a in fn.args.args]
    if params != (["out", "config"] if collector else ["batch", "config"]):
        raise TranslationBroken(site, f"{name}: unexpected parameters {params}")
    table = {"config.externalize_threshold_bytes": ("(threshold c)", N)}
    env = Env(site + ":" + name, table)
    conds: list[str] = []
    size_src: str | None = None
    stmts = _body(fn)
    if not stmts or not isinstance(stmts[-1], ast.Return):
        raise TranslationBroken(env.site, "does not end in a return")
    for st in stmts[:-1]:
        if isinstance(st, ast.If) and not st.orelse and len(st.body) == 1 and _is_return_zero(st.body[0]):
            t = ast.unparse(st.test)
            if t == "config.storage is None":
                conds.append("(negb (ext_on c))")
            elif t == "batch.num_rows == 0" and not collector:
                conds.append("(f_rows0 f)")
            else:
                conds.append(boolean(st.test, env))
        elif collector and _try_data_batch(st, "data_ab", env.site):
            if not _is_return_zero(st.handlers[0].body[0]):  # type: ignore[attr-defined]
                raise TranslationBroken(env.site, "no-data-batch handler does not return 0")
            conds.append("(negb (f_data f))")
        elif isinstance(st, ast.Assign) and len(st.targets) == 1 and ast.unparse(st.targets[0]) == "size":
            want = "data_ab.batch.get_total_buffer_size()" if collector else "batch.get_total_buffer_size()"
            if ast.unparse(st.value) != want:
                raise TranslationBroken(env.site, f"size is `{ast.unparse(st.value)}`, expected `{want}`")
            size_src = want
            env.table["size"] = ("(f_logical f)", N)
        else:
            raise TranslationBroken(env.site, "unexpected statement: " + ast.unparse(st)[:100])
    if collector and "(negb (f_data f))" not in conds:
        raise TranslationBroken(env.site, "collector prediction does not guard the missing data batch")
    ret = stmts[-1].value
    if ret is None:
        raise TranslationBroken(env.site, "bare return")
    rs = ast.unparse(ret)
    if rs == "size" and size_src is not None:
        mode, val = "PLogical", "(f_logical f)"
    elif isinstance(ret, ast.Call) and ast.unparse(ret.func) == "_ipc_stream_size":
        _ipc_stream_size_ok(tree, site)
        want_args = (
            ["out.output_schema", "[(ab.batch, ab.custom_metadata) for ab in out.batches]"] if collector else ["batch.schema", "[(batch, None)]"]
        )
        got = [ast.unparse(a) for a in ret.args]
        if got != want_args or ret.keywords:
            raise TranslationBroken(env.site, f"_ipc_stream_size arguments {got} are not the uploaded stream {want_args}")
        mode, val = "PFramed", "(f_up f)"
    else:
        raise TranslationBroken(env.site, f"unexpected return value `{rs}`")
    body = val
    for cnd in reversed(conds):
        body = f"if {cnd} then 0 else {body}"
    return body, mode


def _fires(tree: ast.Module, name: str, collector: bool, site: str) -> str:
    fn = _func(tree, name, site)
    env = Env(site + ":" + name, {"config.externalize_threshold_bytes": ("(threshold c)", N)})
    size_key = "data_ab.batch.get_total_buffer_size()" if collector else "batch.get_total_buffer_size()"
    env.table[size_key] = ("(f_logical f)", N)
    conds: list[str] = []
    stmts = _body(fn)
    i = 0
    for i, st in enumerate(stmts):
        if isinstance(st, ast.If) and not st.orelse and len(st.body) == 1 and isinstance(st.body[0], ast.Return):
            r = st.body[0].value
            if not (isinstance(r, ast.Tuple) and isinstance(r.elts[-1], ast.Constant) and r.elts[-1].value == 0):
                raise TranslationBroken(env.site, "early return does not report 0 uploaded bytes: " + ast.unparse(st.body[0]))
            t = ast.unparse(st.test)
            if t == "config.storage is None":
                conds.append("(negb (ext_on c))")
            elif t == "batch.num_rows == 0" and not collector:
                conds.append("(f_rows0 f)")
            else:
                conds.append(boolean(st.test, env))
        elif collector and _try_data_batch(st, "data_ab", env.site):
            r = st.handlers[0].body[0].value  # type: ignore[attr-defined]
            if not (isinstance(r, ast.Tuple) and isinstance(r.elts[-1], ast.Constant) and r.elts[-1].value == 0):
                raise TranslationBroken(env.site, "no-data-batch handler does not report 0 uploaded bytes")
            conds.append("(negb (f_data f))")
        else:
            break
    rest = stmts[i:]
    text = "\n".join(ast.unparse(s) for s in rest)
    if not rest or ast.unparse(rest[0]) != "buf = BytesIO()":
        raise TranslationBroken(env.site, "decision prefix is not followed by the serialisation (`buf = BytesIO()`)")
    ups = [c for s in rest for c in _calls(s, "_traced_upload")]
    if len(ups) != 1 or ast.unparse(ups[0].args[0]) != "ipc_bytes":
        raise TranslationBroken(env.site, "expected exactly one `_traced_upload(ipc_bytes, ...)`")
    if "raw_size = original_bytes if original_bytes is not None else len(ipc_bytes)" not in text:
        raise TranslationBroken(env.site, "raw_size is not the pre-compression length of the uploaded stream")
    last = rest[-1]
    if not (isinstance(last, ast.Return) and isinstance(last.value, ast.Tuple) and ast.unparse(last.value.elts[-1]) == "raw_size"):
        raise TranslationBroken(env.site, "does not return raw_size as the uploaded byte count")
    if not conds:
        raise TranslationBroken(env.site, "no decision prefix found")
    return "(" + " && ".join(f"negb {c}" for c in conds) + ")"


# --------------------------------------------------------------------------------------------------------------- dispatch sites
PREFLIGHT = "app._max_externalized_response_bytes is not None and predicted_external > app._max_externalized_response_bytes"


def _kw(call: ast.Call) -> dict[str, str]:
    return {k.arg or "**": ast.unparse(k.value) for k in call.keywords}


def _preflight_site(fn: ast.FunctionDef, site: str, predict_name: str, flush_name: str, ext_var: str, flush_is_assign_in_else: bool) -> str:
    env = Env(site, {"app._max_externalized_response_bytes": ("e", O), "predicted_external": ("p", N)})
    ifs = [n for n in ast.walk(fn) if isinstance(n, ast.If) and "predicted_external" in ast.unparse(n.test)]
    if len(ifs) != 1:
        raise TranslationBroken(site, f"expected one pre-flight `if` on predicted_external, found {len(ifs)}")
    pre = ifs[0]
    term = boolean(pre.test, env)
    asg = [n for n in ast.walk(fn) if isinstance(n, ast.Assign) and ast.unparse(n.targets[0]) == "predicted_external"]
    if len(asg) != 1:
        raise TranslationBroken(site, "predicted_external must be assigned exactly once")
    a = asg[0].value
    arg0 = "result_batch" if predict_name.endswith("batch") else "out"
    if ast.unparse(a) != f"{predict_name}({arg0}, ext_cfg) if ext_cfg is not None else 0":
        raise TranslationBroken(site, "predicted_external is `" + ast.unparse(a) + "`")
    if asg[0].lineno > pre.lineno:
        raise TranslationBroken(site, "prediction computed after the pre-flight test")
    if any(_calls(s, flush_name) for s in pre.body):
        raise TranslationBroken(site, "the refusing branch of the pre-flight flushes")
    flushes = _calls(fn, flush_name)
    if len(flushes) != 1 or flushes[0].lineno <= pre.lineno:
        raise TranslationBroken(site, f"expected exactly one `{flush_name}(...)` after the pre-flight")
    if flush_is_assign_in_else:
        if not any(_calls(s, flush_name) for s in pre.orelse):
            raise TranslationBroken(site, "the flush is not in the else branch of the pre-flight")
    else:
        last = pre.body[-1]
        if not isinstance(last, ast.Return):
            raise TranslationBroken(site, "the refusing branch of the pre-flight does not return")
    enf = _calls(fn, "_enforce_response_budgets")
    if len(enf) != 1 or enf[0].lineno <= flushes[0].lineno:
        raise TranslationBroken(site, "expected exactly one `_enforce_response_budgets(...)` after the flush")
    kw = _kw(enf[0])
    want = {"wire_bytes": "resp_buf.tell()", "external_bytes": ext_var, "wire_cap": "app._max_response_bytes", "external_cap": "app._max_externalized_response_bytes"}
    for k, v in want.items():
        if kw.get(k) != v:
            raise TranslationBroken(site, f"_enforce_response_budgets {k}={kw.get(k)!r}, expected {v!r}")
    # the flush's return value is what is checked
    if not any(isinstance(n, (ast.Assign, ast.AugAssign)) and ast.unparse(n.targets[0] if isinstance(n, ast.Assign) else n.target) == ext_var and _calls(n, flush_name) for n in ast.walk(fn)):
        raise TranslationBroken(site, f"{ext_var} is not the return value of {flush_name}")
    return term


def _producer_site(fn: ast.FunctionDef, site: str) -> tuple[str, str]:
    src = ast.unparse(fn)
    for need in ("max_bytes = app._max_response_bytes", "max_external_bytes = app._max_externalized_response_bytes"):
        if need not in src:
            raise TranslationBroken(site, f"missing `{need}`")
    ee = [n for n in ast.walk(fn) if isinstance(n, ast.Assign) and ast.unparse(n.targets[0]) == "externalization_enabled"]
    if len(ee) != 1 or ast.unparse(ee[0].value) != "app._server.external_config is not None and app._server.external_config.storage is not None":
        raise TranslationBroken(site, "externalization_enabled is not `config is not None and storage is not None`")
    if _calls(fn, "_enforce_response_budgets"):
        raise TranslationBroken(site, "the producer turn calls _enforce_response_budgets: the model has no post-flush check there")
    loops = [n for n in ast.walk(fn) if isinstance(n, ast.While)]
    if len(loops) != 1 or ast.unparse(loops[0].test) != "True":
        raise TranslationBroken(site, "expected one `while True` loop")
    loop = loops[0]
    outer = [s for s in loop.body if isinstance(s, ast.If) and "max_external_bytes" in ast.unparse(s.test)]
    if len(outer) != 1 or outer[0].orelse:
        raise TranslationBroken(site, "expected one external-cap guard in the loop body")
    og = outer[0]
    env = Env(site, {"max_external_bytes": ("e", O), "externalization_enabled": ("on", B), "cumulative_external_bytes": ("cum", N), "predicted": ("p", N)})
    pa_ = [s for s in og.body if isinstance(s, ast.Assign) and ast.unparse(s.targets[0]) == "predicted"]
    if len(pa_) != 1 or ast.unparse(pa_[0].value) != "predict_externalize_bytes_for_collector(out, ext_cfg)":
        raise TranslationBroken(site, "predicted is not predict_externalize_bytes_for_collector(out, ext_cfg)")
    inner = [s for s in og.body if isinstance(s, ast.If)]
    if len(inner) != 1 or inner[0].orelse or not isinstance(inner[0].body[-1], ast.Break):
        raise TranslationBroken(site, "expected one inner guard ending in break")
    if not _calls(inner[0], "_write_error_batch"):
        raise TranslationBroken(site, "the refusing branch writes no error batch")
    # combine: outer test && inner test, the optional bound by the outer `is not None`
    comb = ast.BoolOp(op=ast.And(), values=[*(og.test.values if isinstance(og.test, ast.BoolOp) and isinstance(og.test.op, ast.And) else [og.test]), *(inner[0].test.values if isinstance(inner[0].test, ast.BoolOp) and isinstance(inner[0].test.op, ast.And) else [inner[0].test])])
    guard = boolean(comb, env)
    idx = loop.body.index(og)
    after = loop.body[idx + 1 :]
    if not after or ast.unparse(after[0]) != "cumulative_external_bytes += _flush_collector(writer, out, app._server.external_config)":
        raise TranslationBroken(site, "the guard is not directly followed by `cumulative_external_bytes += _flush_collector(...)`")
    if len(_calls(loop, "_flush_collector")) != 1:
        raise TranslationBroken(site, "more than one flush in the loop")
    if len(after) < 2 or ast.unparse(after[1]) != "if out.finished:\n    break":
        raise TranslationBroken(site, "`if out.finished: break` does not follow the flush")
    sc = [s for s in after if isinstance(s, ast.Assign) and ast.unparse(s.targets[0]) == "should_continue"]
    if len(sc) != 1:
        raise TranslationBroken(site, "should_continue not assigned exactly once after the flush")
    # the position compared with the cap is the (uncompressed) body position: `write_sink.tell()` since the C11 fix
    # (write_sink is resp_buf when no codec was negotiated), `resp_buf.tell()` before it -- the same number whenever no
    # response codec is negotiated, which is the only configuration this property's check runs
    env2 = Env(site, {"max_bytes": ("w", O), "resp_buf.tell()": ("pos", N), "write_sink.tell()": ("pos", N)})
    cont = boolean(sc[0].value, env2)
    nxt = after[after.index(sc[0]) + 1] if after.index(sc[0]) + 1 < len(after) else None
    if not (isinstance(nxt, ast.If) and ast.unparse(nxt.test) == "not should_continue" and isinstance(nxt.body[-1], ast.Break) and not nxt.orelse):
        raise TranslationBroken(site, "`if not should_continue: ... break` does not follow")
    return guard, cont


def _enforce(tree: ast.Module, site: str) -> str:
    fn = _func(tree, "_enforce_response_budgets", site)
    kws = [a.arg for a in fn.args.kwonlyargs]
    if kws != ["method_name", "wire_bytes", "external_bytes", "wire_cap", "external_cap"] or fn.args.args:
        raise TranslationBroken(site, f"unexpected parameters {kws}")
    env = Env(site, {"wire_cap": ("w", O), "external_cap": ("e", O), "wire_bytes": ("wb", N), "external_bytes": ("eb", N)})
    stmts = _body(fn)
    arms = []
    for st in stmts:
        if not (isinstance(st, ast.If) and not st.orelse and len(st.body) == 1 and isinstance(st.body[0], ast.Raise)):
            raise TranslationBroken(site, "unexpected statement: " + ast.unparse(st)[:80])
        exc = st.body[0].exc
        if not (isinstance(exc, ast.Call) and ast.unparse(exc.func) == "RuntimeError"):
            raise TranslationBroken(site, "raises something other than RuntimeError")
        msg = ast.unparse(exc)
        if "HTTP body exceeds max_response_bytes" in msg:
            which = "true"
        elif "exceeds max_externalized_response_bytes" in msg:
            which = "false"
        else:
            raise TranslationBroken(site, "unrecognised refusal message")
        arms.append((boolean(st.test, env), which))
    if [w for _, w in arms] != ["true", "false"]:
        raise TranslationBroken(site, "expected the wire test then the external test")
    body = "None"
    for t, w in reversed(arms):
        body = f"if {t} then Some {w} else {body}"
    return body


def generate(repo: Path) -> tuple[str, str]:
    ext = repo / "vgi_rpc" / "external.py"
    t_ext = _parse(ext)
    pb, mb = _predict(t_ext, "predict_externalize_bytes_for_batch", False, str(ext))
    pc, mc = _predict(t_ext, "predict_externalize_bytes_for_collector", True, str(ext))
    if mb != mc:
        raise TranslationBroken(str(ext), f"the two predictions disagree on what they return ({mb} vs {mc})")
    fb = _fires(t_ext, "maybe_externalize_batch", False, str(ext))
    fc = _fires(t_ext, "maybe_externalize_collector", True, str(ext))
    resp = repo / "vgi_rpc" / "http" / "server" / "_responses.py"
    enf = _enforce(_parse(resp), str(resp))
    un = repo / "vgi_rpc" / "http" / "server" / "_app_unary.py"
    t_un = _parse(un)
    ufn = [n for n in ast.walk(t_un) if isinstance(n, ast.FunctionDef) and _calls(n, "predict_externalize_bytes_for_batch")]
    if len(ufn) != 1:
        raise TranslationBroken(str(un), "expected one function calling predict_externalize_bytes_for_batch")
    pre_u = _preflight_site(ufn[0], f"{un}:{ufn[0].name}", "predict_externalize_bytes_for_batch", "_write_result_batch", "external_bytes_written", True)
    # the post-flush check of the unary path only runs for a successful call
    enf_call = _calls(ufn[0], "_enforce_response_budgets")[0]
    guards = [n for n in ast.walk(ufn[0]) if isinstance(n, ast.If) and ast.unparse(n.test) == "status == 'ok'" and any(c is enf_call for c in _calls(n, "_enforce_response_budgets"))]
    if len(guards) != 1:
        raise TranslationBroken(str(un), "_enforce_response_budgets is not under `if status == 'ok'`")
    st = repo / "vgi_rpc" / "http" / "server" / "_app_stream.py"
    t_st = _parse(st)
    xfn = _func(t_st, "_run_http_exchange_turn", str(st))
    pre_x = _preflight_site(xfn, f"{st}:_run_http_exchange_turn", "predict_externalize_bytes_for_collector", "_flush_collector", "exchange_external_bytes", False)
    if pre_u != pre_x:
        raise TranslationBroken(str(st), "unary and exchange pre-flight tests differ")
    pfn = _func(t_st, "_run_http_producer_turn", str(st))
    guard, cont = _producer_site(pfn, f"{st}:_run_http_producer_turn")
    text = f"""From Coq Require Import List NArith Bool.
From VGI Require Import M_RespCaps.
Import ListNotations.
Open Scope N_scope.
Definition is_none {{A : Type}} (o : option A) : bool := match o with None => true | Some _ => false end.
Definition gen_predict_mode : predict_mode := {mb}.
Definition gen_predict_batch (c : cfg) (f : flush) : N := {pb}.
Definition gen_predict_coll (c : cfg) (f : flush) : N := {pc}.
Definition gen_fires_batch (c : cfg) (f : flush) : bool := {fb}.
Definition gen_fires_coll (c : cfg) (f : flush) : bool := {fc}.
Definition gen_enforce (w e : option N) (wb eb : N) : option bool := {enf}.
Definition gen_preflight (e : option N) (p : N) : bool := {pre_u}.
Definition gen_prod_guard (e : option N) (on : bool) (cum p : N) : bool := {guard}.
Definition gen_should_continue (w : option N) (pos : N) : bool := {cont}.
Definition gen_producer_post_check : bool := false.
"""
    return text, mb
