"""placeholder"""
def generate(repo):
    return "(* placeholder *)\n"
