"""Fail-closed translator for C14: the call-state cache and the order in which a continuation resolves its tokens.

Sources: vgi_rpc/http/server/_state_token.py (_CallStateCache._identity/get/put, the TTL guards of the two open functions),
         vgi_rpc/http/server/_app_stream.py  (_unpack_and_recover_state, _resolve_call_from_token, every use of the cache),
         vgi_rpc/http/server/_app.py         (the constructor arguments of the cache).

Output (coq/gen/G_CallCache.v):
  gen_anon_ident, gen_ident_parts    _identity: the anonymous literal and the parts of the f-string
  gen_key_fields                     the cache key tuple of get and put
  gen_get_expired, gen_put_expiry, gen_over_capacity, gen_evict_oldest      guards / expressions of get and put
  gen_cache_ttl_sec                  the ttl= expression handed to the constructor, as a function of token_ttl
  gen_cursor_expired, gen_call_expired   `token_ttl > 0` and `int(time.time()) - created_at > token_ttl` over Z
  gen_mint_none_guard                _mint_call_token seals `no call state` iff call_state is None (not: falsy)
  gen_resolve_order                  statement order of _unpack_and_recover_state up to the resolved call
  gen_cold_checks                    order of the checks of _resolve_call_from_token
  gen_cache_uses                     every `app._call_state_cache.<op>(...)` site of _app_stream.py, in source order
Expressions are translated by a small grammar (a changed operator yields a different Coq term and the tie lemma fails);
statement shapes are compared with the shape the model was written against (any other shape: TranslationBroken).
"""
from __future__ import annotations

import ast
from pathlib import Path
from typing import Any

from vlib.core import TranslationBroken

ST = "vgi_rpc/http/server/_state_token.py"
AS = "vgi_rpc/http/server/_app_stream.py"
AP = "vgi_rpc/http/server/_app.py"


def _d(src: str, mode: str = "exec") -> str:
    t = ast.parse(src, mode=mode)
    return ast.dump(t.body if mode == "eval" else t.body[0])


def _body(fn: ast.FunctionDef) -> list[ast.stmt]:
    b = list(fn.body)
    if b and isinstance(b[0], ast.Expr) and isinstance(b[0].value, ast.Constant) and isinstance(b[0].value.value, str):
        b = b[1:]
    return b


def _find(tree: ast.AST, name: str, site: str, cls: str | None = None) -> ast.FunctionDef:
    scope: Any = tree
    if cls is not None:
        cs = [n for n in tree.body if isinstance(n, ast.ClassDef) and n.name == cls]  # type: ignore[attr-defined]
        if len(cs) != 1:
            raise TranslationBroken(site, f"class {cls}: expected exactly one definition")
        scope = cs[0]
    fs = [n for n in scope.body if isinstance(n, ast.FunctionDef) and n.name == name]
    if len(fs) != 1:
        raise TranslationBroken(site, f"{cls + '.' if cls else ''}{name}: expected exactly one definition")
    return fs[0]


def _expect(stmt: ast.AST, src: str, site: str, what: str) -> None:
    if ast.dump(stmt) != _d(src):
        raise TranslationBroken(site, f"{what}: expected `{src}`, found `{ast.unparse(stmt)[:160]}`")


# ---- expressions ------------------------------------------------------------------------------------------------
class Expr:
    """Translate a Python arithmetic / comparison expression to a Coq term over N or Z."""

    def __init__(self, site: str, env: dict[str, str], scope: str) -> None:
        self.site, self.env, self.scope = site, env, scope  # env: dump of a leaf expression -> Coq variable

    def bad(self, e: ast.AST) -> TranslationBroken:
        return TranslationBroken(self.site, f"expression outside the translated grammar: {ast.unparse(e)[:120]}")

    def num(self, e: ast.expr) -> str:
        k = ast.dump(e)
        if k in self.env:
            return self.env[k]
        if isinstance(e, ast.Constant) and type(e.value) in (int, float) and e.value >= 0 and float(e.value).is_integer():
            return f"{int(e.value)}%{self.scope}"
        if isinstance(e, ast.Call) and isinstance(e.func, ast.Name) and e.func.id in ("float", "int") and len(e.args) == 1 and not e.keywords:
            return self.num(e.args[0])
        if isinstance(e, ast.BinOp) and isinstance(e.op, (ast.Add, ast.Sub, ast.Mult)):
            op = {ast.Add: "+", ast.Sub: "-", ast.Mult: "*"}[type(e.op)]
            return f"({self.num(e.left)} {op} {self.num(e.right)})%{self.scope}"
        if isinstance(e, ast.IfExp):
            return f"(if {self.boolean(e.test)} then {self.num(e.body)} else {self.num(e.orelse)})"
        raise self.bad(e)

    def boolean(self, e: ast.expr) -> str:
        if isinstance(e, ast.Compare) and len(e.ops) == 1:
            a, b = self.num(e.left), self.num(e.comparators[0])
            op = type(e.ops[0])
            m = self.scope
            if op is ast.LtE:
                return f"({a} <=? {b})%{m}"
            if op is ast.Lt:
                return f"({a} <? {b})%{m}"
            if op is ast.GtE:
                return f"({b} <=? {a})%{m}"
            if op is ast.Gt:
                return f"({b} <? {a})%{m}"
            if op is ast.Eq:
                return f"({a} =? {b})%{m}"
            if op is ast.NotEq:
                return f"(negb ({a} =? {b}))%{m}"
        if isinstance(e, ast.BoolOp):
            j = " && " if isinstance(e.op, ast.And) else " || "
            return "(" + j.join(self.boolean(v) for v in e.values) + ")"
        if isinstance(e, ast.UnaryOp) and isinstance(e.op, ast.Not):
            return f"(negb {self.boolean(e.operand)})"
        raise self.bad(e)


def _codepoints(s: str) -> str:
    return "[" + "; ".join(str(ord(c)) for c in s) + "]%N"


# ---- _CallStateCache -----------------------------------------------------------------------------------------------
def _identity(tree: ast.Module) -> list[str]:
    fn = _find(tree, "_identity", ST, "_CallStateCache")
    b = _body(fn)
    if len(b) != 2 or not isinstance(b[0], ast.If) or b[0].orelse or not isinstance(b[1], ast.Return):
        raise TranslationBroken(ST, "_identity: expected `if <anonymous>: return <literal>` followed by `return f\"...\"`")
    if ast.dump(b[0].test) != _d("auth is None or not auth.authenticated", "eval"):
        raise TranslationBroken(ST, f"_identity: anonymous test changed: {ast.unparse(b[0].test)}")
    r0 = b[0].body
    if len(r0) != 1 or not isinstance(r0[0], ast.Return) or not isinstance(r0[0].value, ast.Constant) or not isinstance(r0[0].value.value, str):
        raise TranslationBroken(ST, "_identity: the anonymous branch does not return a string literal")
    anon = r0[0].value.value
    js = b[1].value
    if not isinstance(js, ast.JoinedStr):
        raise TranslationBroken(ST, "_identity: the authenticated branch is not an f-string")
    parts = []
    for v in js.values:
        if isinstance(v, ast.Constant) and isinstance(v.value, str):
            parts.append(f"inr {_codepoints(v.value)}")
        elif isinstance(v, ast.FormattedValue) and v.conversion == -1 and v.format_spec is None:
            k = ast.dump(v.value)
            if k == _d("auth.domain or ''", "eval"):
                parts.append("inl 0%N")
            elif k == _d("auth.principal or ''", "eval"):
                parts.append("inl 1%N")
            else:
                raise TranslationBroken(ST, f"_identity: unknown f-string field {ast.unparse(v.value)}")
        else:
            raise TranslationBroken(ST, "_identity: f-string part with conversion / format spec")
    return [
        f"Definition gen_anon_ident : list N := {_codepoints(anon)}.",
        "(* inl 0 = (auth.domain or \"\"), inl 1 = (auth.principal or \"\"), inr = literal text *)",
        "Definition gen_ident_parts : list (N + list N) := [" + "; ".join(parts) + "].",
    ]


KEY_SRC = "key = (call_id, self._identity(auth))"


def _get_put(tree: ast.Module) -> list[str]:
    out = []
    # ---- get
    g = _body(_find(tree, "get", ST, "_CallStateCache"))
    if [a.arg for a in _find(tree, "get", ST, "_CallStateCache").args.args] != ["self", "call_id", "auth", "now"]:
        raise TranslationBroken(ST, "get: signature changed")
    if len(g) != 2 or not isinstance(g[1], ast.With):
        raise TranslationBroken(ST, "get: expected key assignment followed by one `with self._lock:` block")
    _expect(g[0], KEY_SRC, ST, "get: cache key")
    if ast.dump(g[1].items[0].context_expr) != _d("self._lock", "eval"):
        raise TranslationBroken(ST, "get: not under self._lock")
    w = g[1].body
    if len(w) != 6:
        raise TranslationBroken(ST, f"get: {len(w)} statements under the lock, the model has 6")
    _expect(w[0], "entry = self._entries.get(key)", ST, "get: lookup")
    _expect(w[1], "if entry is None:\n    return None", ST, "get: miss")
    _expect(w[2], "expires_at, resolved = entry", ST, "get: unpack")
    if not isinstance(w[3], ast.If) or w[3].orelse or len(w[3].body) != 2:
        raise TranslationBroken(ST, "get: expiry branch changed")
    _expect(w[3].body[0], "del self._entries[key]", ST, "get: expired entry is deleted")
    _expect(w[3].body[1], "return None", ST, "get: expired entry is a miss")
    ex = Expr(ST, {_d("expires_at", "eval"): "expires_at", _d("now", "eval"): "now"}, "N")
    out.append(f"Definition gen_get_expired (expires_at now : N) : bool := {ex.boolean(w[3].test)}.")
    _expect(w[4], "self._entries.move_to_end(key)", ST, "get: LRU touch")
    _expect(w[5], "return resolved", ST, "get: hit")
    # ---- put
    pf = _find(tree, "put", ST, "_CallStateCache")
    if [a.arg for a in pf.args.args] != ["self", "call_id", "auth", "resolved", "now"]:
        raise TranslationBroken(ST, "put: signature changed")
    p = _body(pf)
    if len(p) != 2 or not isinstance(p[1], ast.With) or ast.dump(p[1].items[0].context_expr) != _d("self._lock", "eval"):
        raise TranslationBroken(ST, "put: expected key assignment followed by one `with self._lock:` block")
    _expect(p[0], KEY_SRC, ST, "put: cache key")
    w = p[1].body
    if len(w) != 3:
        raise TranslationBroken(ST, f"put: {len(w)} statements under the lock, the model has 3")
    s0 = w[0]
    ok = (isinstance(s0, ast.Assign) and len(s0.targets) == 1 and ast.dump(s0.targets[0]) == ast.dump(ast.parse("self._entries[key] = 0").body[0].targets[0])  # type: ignore[attr-defined]
          and isinstance(s0.value, ast.Tuple) and len(s0.value.elts) == 2 and ast.dump(s0.value.elts[1]) == _d("resolved", "eval"))
    if not ok:
        raise TranslationBroken(ST, f"put: store statement changed: {ast.unparse(s0)}")
    ex = Expr(ST, {_d("now", "eval"): "now", _d("self._ttl", "eval"): "ttl"}, "N")
    out.append(f"Definition gen_put_expiry (now ttl : N) : N := {ex.num(s0.value.elts[0])}.")  # type: ignore[union-attr]
    _expect(w[1], "self._entries.move_to_end(key)", ST, "put: LRU touch")
    lp = w[2]
    if not isinstance(lp, ast.While) or lp.orelse or len(lp.body) != 1:
        raise TranslationBroken(ST, "put: eviction loop changed")
    ex = Expr(ST, {_d("len(self._entries)", "eval"): "len", _d("self._max_entries", "eval"): "cap"}, "N")
    out.append(f"Definition gen_over_capacity (len cap : N) : bool := {ex.boolean(lp.test)}.")
    if ast.dump(lp.body[0]) == _d("self._entries.popitem(last=False)"):
        out.append("Definition gen_evict_oldest : bool := true.")
    elif ast.dump(lp.body[0]) in (_d("self._entries.popitem(last=True)"), _d("self._entries.popitem()")):
        out.append("Definition gen_evict_oldest : bool := false.")
    else:
        raise TranslationBroken(ST, f"put: eviction statement changed: {ast.unparse(lp.body[0])}")
    out.append("(* 0 = call_id, 1 = self._identity(auth) *)\nDefinition gen_key_fields : list N := [0; 1]%N.")
    # constructor: the attributes the guards read are the constructor's parameters
    init = _body(_find(tree, "__init__", ST, "_CallStateCache"))
    want = {"self._max_entries = max_entries", "self._ttl = ttl"}
    have = {ast.unparse(s) for s in init}
    if not want <= have:
        raise TranslationBroken(ST, "_CallStateCache.__init__: _max_entries / _ttl are not the constructor parameters")
    return out


def _ttl_guards(tree: ast.Module) -> list[str]:
    out = []
    names = {n.name for n in tree.body if isinstance(n, ast.FunctionDef)}
    call_fn = "_open_call_token_dated" if "_open_call_token_dated" in names else "_open_call_token"
    if call_fn == "_open_call_token_dated":
        w = _body(_find(tree, "_open_call_token", ST))
        if len(w) != 1 or ast.unparse(w[0]) != "return _open_call_token_dated(token, token_key, aad, token_ttl)[0]":
            raise TranslationBroken(ST, "_open_call_token is not the plain projection of _open_call_token_dated")
    for fname, gname in (("_open_cursor_token", "gen_cursor_expired"), (call_fn, "gen_call_expired")):
        fn = _find(tree, fname, ST)
        ex = Expr(ST, {_d("token_ttl", "eval"): "token_ttl", _d("int(time.time())", "eval"): "now_sec", _d("created_at", "eval"): "created_at"}, "Z")
        flat = [s for s in _body(fn) if isinstance(s, ast.If) and any(isinstance(n, ast.Name) and n.id == "token_ttl" for n in ast.walk(s.test))]
        dated = [s for s in _body(fn) if isinstance(s, ast.AnnAssign) and ast.unparse(s) == "created_at: int = struct.unpack_from('<Q', plaintext, 0)[0]"]
        if dated and len(flat) == 1 and not flat[0].orelse and len(flat[0].body) == 1 and isinstance(flat[0].body[0], ast.Raise):
            i, j = _body(fn).index(dated[0]), _body(fn).index(flat[0])
            if j != i + 1:
                raise TranslationBroken(ST, f"{fname}: created_at is not read right before the expiry test")
            out.append(f"Definition {gname} (token_ttl now_sec created_at : Z) : bool := {ex.boolean(flat[0].test)}.")
            continue
        guards = [s for s in _body(fn) if isinstance(s, ast.If) and ast.dump(s.test) == _d("token_ttl > 0", "eval")]
        if len(guards) != 1 or guards[0].orelse or len(guards[0].body) != 2:
            raise TranslationBroken(ST, f"{fname}: expected exactly one `if token_ttl > 0:` block of two statements")
        a, c = guards[0].body
        _expect(a, "created_at = struct.unpack_from('<Q', plaintext, 0)[0]", ST, f"{fname}: created_at")
        if not isinstance(c, ast.If) or c.orelse or len(c.body) != 1 or not isinstance(c.body[0], ast.Raise):
            raise TranslationBroken(ST, f"{fname}: expiry test is not `if ...: raise`")
        out.append(f"Definition {gname} (token_ttl now_sec created_at : Z) : bool := {ex.boolean(guards[0].test)} && {ex.boolean(c.test)}.")
    return out


def _mint(tree: ast.Module) -> list[str]:
    """_mint_call_token: "no call state" must mean `call_state is None`, not falsiness (the cache holds the live object)."""
    fn = _find(tree, "_mint_call_token", ST)
    conds = [n for n in ast.walk(fn) if isinstance(n, ast.IfExp) and any(isinstance(x, ast.Name) and x.id == "call_state" for x in ast.walk(n.test))]
    conds.sort(key=lambda n: (n.lineno, n.col_offset))
    want = ["b'' if call_state is None else call_state.serialize_to_bytes()", "'' if call_state is None else type(call_state).__name__"]
    got = [ast.unparse(n) for n in conds]
    if got == want:
        flag = "true"
    elif len(conds) == 2 and all(ast.dump(n.test) != _d("call_state is None", "eval") for n in conds):
        flag = "false"
    else:
        raise TranslationBroken(ST, f"_mint_call_token: call-state guards changed: {got}")
    return ["(* the call token carries `no call state` exactly when call_state is None *)", f"Definition gen_mint_none_guard : bool := {flag}."]


# ---- _app.py ---------------------------------------------------------------------------------------------------------
def _ctor(repo: Path) -> list[str]:
    tree = ast.parse((repo / AP).read_text())
    calls = [n for n in ast.walk(tree) if isinstance(n, ast.Call) and isinstance(n.func, ast.Name) and n.func.id == "_CallStateCache"]
    if len(calls) != 1:
        raise TranslationBroken(AP, f"expected exactly one _CallStateCache(...) construction, found {len(calls)}")
    c = calls[0]
    kw = {k.arg: k.value for k in c.keywords}
    if c.args or set(kw) != {"max_entries", "ttl"}:
        raise TranslationBroken(AP, f"_CallStateCache(...) arguments changed: {ast.unparse(c)}")
    if ast.dump(kw["max_entries"]) != _d("call_state_cache_entries", "eval"):
        raise TranslationBroken(AP, "max_entries is not call_state_cache_entries")
    ex = Expr(AP, {_d("token_ttl", "eval"): "token_ttl"}, "N")
    return [f"Definition gen_cache_ttl_sec (token_ttl : N) : N := {ex.num(kw['ttl'])}."]


# ---- _app_stream.py --------------------------------------------------------------------------------------------------
def _resolution(tree: ast.Module) -> list[str]:
    b = _body(_find(tree, "_unpack_and_recover_state", AS))
    want = [
        "state_bytes, call_id = _open_cursor_token(token, app._token_key, _compute_aad(auth), app._token_ttl)",
        "now = time.time()",
        "resolved = app._call_state_cache.get(call_id, auth, now)",
    ]
    miss_now = "if resolved is None:\n    resolved = _resolve_call_from_token(app, call_token, call_id, state_info, auth)\n    app._call_state_cache.put(call_id, auth, resolved, now)"
    miss_dated = ("if resolved is None:\n    resolved = _resolve_call_from_token(app, call_token, call_id, state_info, auth)\n"
                  "    born = float(resolved.created_at) if app._token_ttl > 0 and resolved.created_at is not None else now\n"
                  "    app._call_state_cache.put(call_id, auth, resolved, born)")
    if len(b) < len(want) + 1:
        raise TranslationBroken(AS, "_unpack_and_recover_state: too few statements")
    for i, src in enumerate(want):
        _expect(b[i], src, AS, f"_unpack_and_recover_state: statement {i + 1}")
    if ast.dump(b[3]) == _d(miss_now):
        dated_miss = False
    elif ast.dump(b[3]) == _d(miss_dated):
        dated_miss = True
    else:
        raise TranslationBroken(AS, f"_unpack_and_recover_state: miss branch changed: {ast.unparse(b[3])[:200]}")
    want.append(miss_dated if dated_miss else miss_now)
    if dated_miss:
        # created_at must be what _open_call_token_dated read from the token, carried unchanged by _ResolvedCall
        st = ast.parse((Path(_REPO[0]) / ST).read_text())
        rc = [n for n in st.body if isinstance(n, ast.ClassDef) and n.name == "_ResolvedCall"]
        if len(rc) != 1 or "self.created_at = created_at" not in {ast.unparse(x) for x in ast.walk(rc[0]) if isinstance(x, ast.Assign)}:
            raise TranslationBroken(ST, "_ResolvedCall does not store created_at unchanged")
        ret = [x for x in _body(_find(st, "_open_call_token_dated", ST)) if isinstance(x, ast.Return)]
        if len(ret) != 1 or not isinstance(ret[0].value, ast.Tuple) or len(ret[0].value.elts) != 2 or ast.unparse(ret[0].value.elts[1]) != "created_at":
            raise TranslationBroken(ST, "_open_call_token_dated does not return (fields, created_at)")
    for s in b[len(want):]:
        for n in ast.walk(s):
            if isinstance(n, ast.Attribute) and n.attr == "_call_state_cache":
                raise TranslationBroken(AS, "_unpack_and_recover_state: the cache is used again after the call is resolved")
            if isinstance(n, ast.Name) and n.id == "call_token":
                raise TranslationBroken(AS, "_unpack_and_recover_state: the presented call token is used after the call is resolved")
    out = ["(* 1 open cursor (caller AAD, token_ttl) ; 2 read clock ; 3 cache.get(call_id of the cursor, auth, now) ;",
           "   4 on a miss: 5 resolve the presented call token against that call_id ; 6 cache.put(call_id, auth, resolved, the same now) *)",
           "Definition gen_resolve_order : list N := [1; 2; 3; 4; 5; 6]%N.",
           "(* birth handed to put on the miss path: false = now, true = created_at of the call token when token_ttl > 0 *)",
           f"Definition gen_dated_miss : bool := {'true' if dated_miss else 'false'}."]
    # ---- the miss path
    c = _body(_find(tree, "_resolve_call_from_token", AS))
    codes: list[int] = []

    def raises(s: ast.stmt, text: str) -> bool:
        return any(isinstance(n, ast.Constant) and isinstance(n.value, str) and text in n.value for n in ast.walk(s)) and any(isinstance(n, ast.Raise) for n in ast.walk(s))

    for s in c:
        if isinstance(s, ast.If) and ast.dump(s.test) == _d("call_token is None", "eval") and raises(s, "Missing call token in exchange request"):
            codes.append(8)
        elif isinstance(s, ast.Assign) and not dated_miss and ast.dump(s.value) == _d("_open_call_token(call_token, app._token_key, _compute_call_aad(auth), app._token_ttl)", "eval"):
            if ast.unparse(s.targets[0]) != "(call_state_bytes, call_state_type, schema_bytes, input_schema_bytes, token_call_id, stream_id)":
                raise TranslationBroken(AS, "_resolve_call_from_token: result tuple of _open_call_token changed")
            codes.append(100)
        elif isinstance(s, ast.Assign) and dated_miss and ast.dump(s.value) == _d("_open_call_token_dated(call_token, app._token_key, _compute_call_aad(auth), app._token_ttl)", "eval"):
            if ast.unparse(s.targets[0]) != "((call_state_bytes, call_state_type, schema_bytes, input_schema_bytes, token_call_id, stream_id), created_at)":
                raise TranslationBroken(AS, "_resolve_call_from_token: result tuple of _open_call_token_dated changed")
            codes.append(100)
        elif isinstance(s, ast.If) and ast.dump(s.test) == _d("not secrets.compare_digest(token_call_id, expected_call_id)", "eval") and raises(s, "State token does not belong to the supplied call token"):
            codes.append(9)
        elif isinstance(s, ast.Try) and len(s.body) == 1 and ast.unparse(s.body[0]) == "output_schema = pa.ipc.read_schema(pa.py_buffer(schema_bytes))":
            codes.append(101)
        elif isinstance(s, ast.Try) and len(s.body) == 1 and ast.unparse(s.body[0]) == "input_schema = pa.ipc.read_schema(pa.py_buffer(input_schema_bytes))":
            codes.append(102)
        elif isinstance(s, ast.AnnAssign) and ast.unparse(s.target) == "call_state" and ast.unparse(s.value) == "None":  # type: ignore[arg-type]
            continue
        elif isinstance(s, ast.If) and ast.dump(s.test) == _d("call_state_bytes", "eval") and not s.orelse:
            inner = s.body
            ok = (len(inner) == 3 and ast.unparse(inner[0]) == "call_state_cls = _declared_call_state_types(state_info).get(call_state_type)"
                  and isinstance(inner[1], ast.If) and ast.dump(inner[1].test) == _d("call_state_cls is None", "eval") and raises(inner[1], "which this method does not")
                  and isinstance(inner[2], ast.Try))
            if not ok:
                raise TranslationBroken(AS, "_resolve_call_from_token: call-state type check changed")
            codes += [11, 103]
        elif isinstance(s, ast.Return) and ast.unparse(s.value) == ("_ResolvedCall(call_state, output_schema, input_schema, stream_id, created_at)" if dated_miss else "_ResolvedCall(call_state, output_schema, input_schema, stream_id)"):  # type: ignore[arg-type]
            codes.append(104)
        else:
            raise TranslationBroken(AS, f"_resolve_call_from_token: statement not modelled: {ast.unparse(s)[:100]}")
    out += ["(* 8 missing ; 100 open (call AAD of the caller, token_ttl) ; 9 call id must equal the cursor's ; 101/102 schemas ;",
            "   11 declared call-state type (only when the token carries call state) ; 103 deserialize ; 104 build the resolved call *)",
            "Definition gen_cold_checks : list N := [" + "; ".join(str(x) for x in codes) + "]%N."]
    # declared types: CALL_STATE_TYPE of the method's state classes
    dct = _body(_find(tree, "_declared_call_state_types", AS))
    if [ast.unparse(s) for s in dct] != [
        "members = state_info if isinstance(state_info, tuple) else (state_info,)",
        "return {m.CALL_STATE_TYPE.__name__: m.CALL_STATE_TYPE for m in members if m.CALL_STATE_TYPE is not None}",
    ]:
        raise TranslationBroken(AS, "_declared_call_state_types changed")
    # ---- every use of the cache in the module, in source order
    uses = []
    for n in ast.walk(tree):
        if isinstance(n, ast.Call) and isinstance(n.func, ast.Attribute) and ast.dump(n.func.value) == _d("app._call_state_cache", "eval"):
            uses.append((n.lineno, n.col_offset, n))
    uses.sort(key=lambda t: t[:2])
    srcs = [ast.unparse(n) for _, _, n in uses]
    want_uses = [
        "app._call_state_cache.put(call_id, auth, _ResolvedCall(result.call_state, result.output_schema, result.input_schema, stream_id), time.time())",
        "app._call_state_cache.get(call_id, auth, now)",
        "app._call_state_cache.put(call_id, auth, resolved, born)" if dated_miss else "app._call_state_cache.put(call_id, auth, resolved, now)",
    ]
    if srcs != want_uses:
        raise TranslationBroken(AS, f"uses of the call-state cache changed: {srcs}")
    others = [n for n in ast.walk(tree) if isinstance(n, ast.Attribute) and n.attr == "_call_state_cache"]
    if len(others) != 3:
        raise TranslationBroken(AS, "the call-state cache is referenced outside the three modelled call sites")
    # warm-up: the very objects of the call token just minted, under the id it was minted with
    init = _find(tree, "_run_stream_init_sync", AS)
    mint = [n for n in ast.walk(init) if isinstance(n, ast.Assign) and isinstance(n.value, ast.Call) and ast.unparse(n.value.func) == "_mint_call_token"]
    if len(mint) != 1 or ast.unparse(mint[0]) != "call_token, call_id, call_state_bytes = _mint_call_token(result.call_state, result.output_schema, result.input_schema, app._token_key, auth, stream_id)":
        raise TranslationBroken(AS, "_run_stream_init_sync: minting of the call token changed")
    if not (mint[0].lineno < uses[0][0]):
        raise TranslationBroken(AS, "_run_stream_init_sync: cache warm-up precedes the mint")
    out += ["(* 1 = put at /init (objects of the token just minted, clock read at the put) ; 2 = get ; 3 = put on the miss path *)",
            "Definition gen_cache_uses : list N := [1; 2; 3]%N."]
    return out


def dated_miss(repo: Path) -> bool:
    """The flag of the miss-path put, for the correspondence driver (the same value goes into gen_dated_miss)."""
    return "Definition gen_dated_miss : bool := true." in generate(repo)


_REPO: list[Path] = [Path("/repo")]


def generate(repo: Path) -> str:
    _REPO[0] = repo
    st = ast.parse((repo / ST).read_text())
    ap = ast.parse((repo / AS).read_text())
    lines = ["From Coq Require Import List NArith ZArith Bool.", "Import ListNotations.", "Open Scope N_scope.", ""]
    lines += _identity(st) + _get_put(st) + _ttl_guards(st) + _mint(st) + _ctor(repo) + _resolution(ap)
    return "\n".join(lines) + "\n"
