"""Fail-closed translator: vgi_rpc/access_log.schema.json -> a Coq ``M_AccessLog.schema`` term (gen/G_AccessLog.v).

Only the JSON-Schema fragment listed here is accepted; any other keyword, nesting or value raises
TranslationBroken, so a schema edit either changes the proof obligation or stops the build.

  top level   : $schema $id title description (ignored) ; type = "object" ; additionalProperties = true ;
                required : [str] ; properties : {name: propschema} ; allOf : [rule]
  propschema  : description (ignored) ; type in {string, integer, number, boolean, object} ; const ; enum ;
                minLength ; pattern ; minimum ; maximum ; exclusiveMinimum ; oneOf : [{const: v}, ...]
  rule        : {description?, if: cond, then: {required?: [str], properties?: {name: propschema}}}
              | {description?, anyOf: [{not: {anyOf: [{required: [k]}...]}}, {required: [k...]}]}  (all or none)
  cond        : {properties: {name: {const: v}}, required: [names...] (must list every name of properties),
                 not?: {required: [names]}}

``pattern`` values go through translate/t_regex.translate_pattern (python-jsonschema evaluates them with re.search).
"""
from __future__ import annotations

import json
from pathlib import Path
from typing import Any

from translate import t_regex
from vlib.core import TranslationBroken

SITE = "vgi_rpc/access_log.schema.json"
TYPES = {"string": "TString", "integer": "TInteger", "number": "TNumber", "boolean": "TBoolean", "object": "TObject"}


def cstr(x: str) -> str:
    return "([" + ";".join(str(ord(c)) for c in x) + "]%N : list N)"


def clist(items: list[str]) -> str:
    return "[" + "; ".join(items) + "]"


def bad(why: str) -> TranslationBroken:
    return TranslationBroken(SITE, why)


def lit(v: Any) -> str:
    if isinstance(v, bool):
        return f"LBool {'true' if v else 'false'}"
    if isinstance(v, str):
        return f"LStr {cstr(v)}"
    raise bad(f"unsupported literal {v!r}")


def intlit(v: Any, kw: str) -> str:
    if isinstance(v, bool) or not isinstance(v, int):
        raise bad(f"{kw} must be an integer, got {v!r}")
    return f"({v})%Z"


def prop_cons(name: str, sch: Any) -> list[str]:
    if not isinstance(sch, dict):
        raise bad(f"property {name}: not an object")
    out: list[str] = []
    for kw, v in sch.items():
        if kw == "description":
            continue
        if kw == "type":
            if v not in TYPES:
                raise bad(f"property {name}: unsupported type {v!r}")
            out.append(f"CType {TYPES[v]}")
        elif kw == "const":
            out.append(f"CConst ({lit(v)})")
        elif kw == "enum":
            if not isinstance(v, list) or not v:
                raise bad(f"property {name}: enum must be a non-empty list")
            out.append(f"CEnum {clist([lit(x) for x in v])}")
        elif kw == "oneOf":
            if not isinstance(v, list) or not all(isinstance(a, dict) and list(a) == ["const"] for a in v):
                raise bad(f"property {name}: oneOf must list {{const: v}} alternatives only")
            out.append(f"COneOf {clist([lit(a['const']) for a in v])}")
        elif kw == "minLength":
            if isinstance(v, bool) or not isinstance(v, int) or not 0 <= v < 4096:
                raise bad(f"property {name}: minLength {v!r}")
            out.append(f"CMinLen {v}%nat")
        elif kw == "pattern":
            if not isinstance(v, str):
                raise bad(f"property {name}: pattern must be a string")
            out.append(f"CPattern ({t_regex.translate_pattern(v, 0, SITE + ':' + name)})")
        elif kw == "minimum":
            out.append(f"CMin {intlit(v, 'minimum')}")
        elif kw == "maximum":
            out.append(f"CMax {intlit(v, 'maximum')}")
        elif kw == "exclusiveMinimum":
            out.append(f"CExclMin {intlit(v, 'exclusiveMinimum')}")
        else:
            raise bad(f"property {name}: unsupported keyword {kw!r}")
    return out


def props_term(props: Any) -> str:
    if not isinstance(props, dict):
        raise bad("properties must be an object")
    return clist([f"({cstr(k)}, {clist(prop_cons(k, v))})" for k, v in props.items()])


def strlist(v: Any, what: str) -> list[str]:
    if not isinstance(v, list) or not all(isinstance(x, str) for x in v):
        raise bad(f"{what} must be a list of strings")
    return v


def cond_term(c: Any) -> str:
    if not isinstance(c, dict) or not set(c) <= {"properties", "required", "not"}:
        raise bad(f"unsupported 'if' shape: {sorted(c) if isinstance(c, dict) else c!r}")
    props = c.get("properties", {})
    req = strlist(c.get("required", []), "if.required")
    consts = []
    for k, v in props.items():
        if not (isinstance(v, dict) and list(v) == ["const"]):
            raise bad(f"if.properties.{k} must be {{const: v}}")
        if k not in req:
            raise bad(f"if.properties.{k} is not listed in if.required (vacuous-when-absent conditions are not supported)")
        consts.append(f"({cstr(k)}, {lit(v['const'])})")
    notreq: list[str] = []
    if "not" in c:
        n = c["not"]
        if not (isinstance(n, dict) and list(n) == ["required"]):
            raise bad("if.not must be {required: [...]}")
        notreq = strlist(n["required"], "if.not.required")
        if not notreq:
            raise bad("if.not.required is empty")
    return f"{{| if_const := {clist(consts)}; if_required := {clist([cstr(k) for k in req])}; if_not_required := {clist([cstr(k) for k in notreq])} |}}"


def rule_term(r: Any) -> str:
    if not isinstance(r, dict):
        raise bad("allOf member is not an object")
    keys = set(r) - {"description"}
    if keys == {"if", "then"}:
        th = r["then"]
        if not isinstance(th, dict) or not set(th) <= {"required", "properties"}:
            raise bad("unsupported 'then' shape")
        req = strlist(th.get("required", []), "then.required")
        return f"RIf {cond_term(r['if'])} {clist([cstr(k) for k in req])} {props_term(th.get('properties', {}))}"
    if keys == {"anyOf"}:
        a = r["anyOf"]
        ok = (
            isinstance(a, list) and len(a) == 2 and isinstance(a[0], dict) and list(a[0]) == ["not"]
            and isinstance(a[0]["not"], dict) and list(a[0]["not"]) == ["anyOf"] and isinstance(a[1], dict) and list(a[1]) == ["required"]
        )
        if not ok:
            raise bad("anyOf rule is not the all-or-none shape")
        singles = []
        for m in a[0]["not"]["anyOf"]:
            if not (isinstance(m, dict) and list(m) == ["required"] and isinstance(m["required"], list) and len(m["required"]) == 1):
                raise bad("all-or-none rule: inner anyOf members must be {required: [k]}")
            singles.append(m["required"][0])
        allr = strlist(a[1]["required"], "all-or-none required")
        if singles != allr:
            raise bad("all-or-none rule: the two field lists differ")
        return f"RAllOrNone {clist([cstr(k) for k in allr])}"
    raise bad(f"unsupported allOf member with keys {sorted(keys)}")


def schema_definition(repo: Path, coq_name: str = "gen_schema") -> str:
    path = repo / "vgi_rpc" / "access_log.schema.json"
    try:
        sch = json.loads(path.read_text(encoding="utf-8"))
    except (OSError, ValueError) as e:
        raise TranslationBroken(SITE, f"cannot read: {e}") from e
    if not isinstance(sch, dict):
        raise bad("schema is not an object")
    known = {"$schema", "$id", "title", "description", "type", "additionalProperties", "required", "properties", "allOf"}
    extra = set(sch) - known
    if extra:
        raise bad(f"unsupported top-level keywords {sorted(extra)}")
    if sch.get("type") != "object":
        raise bad("top-level type is not 'object'")
    if sch.get("additionalProperties", True) is not True:
        raise bad("additionalProperties is not true")
    req = strlist(sch.get("required", []), "required")
    rules = sch.get("allOf", [])
    if not isinstance(rules, list):
        raise bad("allOf is not a list")
    body = (
        f"Definition {coq_name} : schema :=\n  {{| s_required := {clist([cstr(k) for k in req])};\n"
        f"     s_props := {props_term(sch.get('properties', {}))};\n"
        f"     s_rules := {clist([rule_term(r) for r in rules])} |}}.\n"
    )
    return body
