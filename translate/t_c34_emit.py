"""Fail-closed translator for C34: the source shape of access-log emission -> ``gen_shape`` and tables (gen/G_AccessLog.v).

  msg_limit        ``_ACCESS_LOG_ERROR_MESSAGE_LIMIT`` (int -> Some n, None -> None) as applied by ``_truncate_error_message``
                   (body must be one of the two known forms); every ``error_message`` the HTTP shells hand to the access
                   log must be ``_truncate_error_message(<name>)``, every one of the socket paths ``str(exc)``.
  error_msg_always the statement of ``_emit_access_log`` that writes ``extra["error_message"]``: ``if error_message:``
                   (old) or ``if status == "error": ... = error_message or error_type or "error"`` / ``elif error_message``.
  sentinel_sid     whether the sentinel form of ``VgiAccessLogFormatter.format`` copies ``stream_id``.
  escape_marked    whether the ``except BaseException`` clause of ``_dispatch_telemetry`` records an unrecorded failure.
Tables (tied by reflexivity in tie/T_AccessLog.v): the keys ``_emit_access_log`` writes, in source order, with their
guards; the sentinel dict (key -> source expression); the keyword arguments of the ``_emit_access_log`` call in
``_dispatch_telemetry``; the statements of ``_unpack_and_recover_state`` before the state rebuild (where the stream id of a
continuation is published from the resolved call, cache hit or miss).
"""
from __future__ import annotations

import ast
from pathlib import Path
from typing import Any

from vlib.core import TranslationBroken


def cstr(x: str) -> str:
    return "([" + ";".join(str(ord(c)) for c in x) + "]%N : list N)"


def clist(items: list[str]) -> str:
    return "[" + "; ".join(items) + "]"


def _parse(path: Path) -> ast.Module:
    try:
        return ast.parse(path.read_text())
    except (OSError, SyntaxError) as e:
        raise TranslationBroken(str(path), f"cannot parse: {e}") from e


def _func(tree: ast.AST, name: str, site: str) -> ast.FunctionDef:
    found = [n for n in ast.walk(tree) if isinstance(n, ast.FunctionDef) and n.name == name]
    if len(found) != 1:
        raise TranslationBroken(site, f"function {name} found {len(found)} times")
    return found[0]


def _strip_doc(body: list[ast.stmt]) -> list[ast.stmt]:
    if body and isinstance(body[0], ast.Expr) and isinstance(body[0].value, ast.Constant) and isinstance(body[0].value.value, str):
        return body[1:]
    return body


# ---------------------------------------------------------------- msg_limit
def msg_limit(repo: Path) -> int | None:
    site = "vgi_rpc/rpc/_server.py:_truncate_error_message"
    tree = _parse(repo / "vgi_rpc" / "rpc" / "_server.py")
    val: Any = "missing"
    for n in tree.body:
        tgt = None
        if isinstance(n, ast.Assign) and len(n.targets) == 1 and isinstance(n.targets[0], ast.Name):
            tgt, v = n.targets[0].id, n.value
        elif isinstance(n, ast.AnnAssign) and isinstance(n.target, ast.Name) and n.value is not None:
            tgt, v = n.target.id, n.value
        if tgt == "_ACCESS_LOG_ERROR_MESSAGE_LIMIT":
            if not isinstance(v, ast.Constant) or not (v.value is None or (isinstance(v.value, int) and not isinstance(v.value, bool))):
                raise TranslationBroken(site, f"limit constant is not an int / None literal: {ast.unparse(v)}")
            val = v.value
    if val == "missing":
        raise TranslationBroken(site, "_ACCESS_LOG_ERROR_MESSAGE_LIMIT not found")
    fn = _func(tree, "_truncate_error_message", site)
    args = [a.arg for a in fn.args.args]
    defaults = [ast.unparse(d) for d in fn.args.defaults]
    if args != ["exc", "limit"] or defaults != ["_ACCESS_LOG_ERROR_MESSAGE_LIMIT"]:
        raise TranslationBroken(site, f"unexpected signature {args} {defaults}")
    body = [ast.unparse(x) for x in _strip_doc(fn.body)]
    old = ["if exc is None:\n    return ''", "return str(exc)[:limit]"]
    new = ["if exc is None:\n    return ''", "text = str(exc)", "return text if limit is None else text[:limit]"]
    if body == old:
        if val is None:
            raise TranslationBroken(site, "str(exc)[:None] with a None limit: unexpected combination")
        return int(val)
    if body == new:
        return None if val is None else int(val)
    raise TranslationBroken(site, f"unexpected body: {body}")


def message_sites(repo: Path) -> None:
    """Every value that reaches the access log's error_message comes from the known expressions."""
    http_files = ["vgi_rpc/http/server/_app_stream.py", "vgi_rpc/http/server/_app_unary.py"]
    for rel in http_files:
        tree = _parse(repo / rel)
        n_sites = 0
        for n in ast.walk(tree):
            if isinstance(n, ast.Assign) and len(n.targets) == 1 and ast.unparse(n.targets[0]) == "outcome.error_message":
                n_sites += 1
                v = n.value
                if not (isinstance(v, ast.Call) and ast.unparse(v.func) == "_truncate_error_message" and len(v.args) == 1 and isinstance(v.args[0], ast.Name) and not v.keywords):
                    raise TranslationBroken(rel, f"outcome.error_message = {ast.unparse(v)}")
            if isinstance(n, ast.Call) and ast.unparse(n.func) == "_emit_access_log":
                for kw in n.keywords:
                    if kw.arg == "error_message":
                        n_sites += 1
                        t = ast.unparse(kw.value)
                        if t not in ("_truncate_error_message(_hook_exc)", "outcome.error_message"):
                            raise TranslationBroken(rel, f"_emit_access_log(error_message={t})")
        if n_sites == 0:
            raise TranslationBroken(rel, "no error_message site found")
    rel = "vgi_rpc/rpc/_server.py"
    tree = _parse(repo / rel)
    for fname in ("_serve_unary", "_serve_stream"):
        fn = _func(tree, fname, rel)
        assigns = [ast.unparse(n.value) for n in ast.walk(fn) if isinstance(n, ast.Assign) and len(n.targets) == 1 and ast.unparse(n.targets[0]) == "error_message"]
        if not assigns or any(a not in ("''", "str(exc)") for a in assigns):
            raise TranslationBroken(f"{rel}:{fname}", f"error_message assignments: {assigns}")
        calls = [n for n in ast.walk(fn) if isinstance(n, ast.Call) and ast.unparse(n.func) == "_emit_access_log"]
        for c in calls:
            kws = {k.arg: ast.unparse(k.value) for k in c.keywords}
            if "error_message" in kws and kws["error_message"] != "error_message":
                raise TranslationBroken(f"{rel}:{fname}", f"_emit_access_log(error_message={kws['error_message']})")


# ---------------------------------------------------------------- _emit_access_log
def _emit_try_body(repo: Path) -> list[ast.stmt]:
    site = "vgi_rpc/rpc/_server.py:_emit_access_log"
    fn = _func(_parse(repo / "vgi_rpc" / "rpc" / "_server.py"), "_emit_access_log", site)
    body = _strip_doc(fn.body)
    if len(body) != 2 or ast.unparse(body[0]) != "if not _access_logger.isEnabledFor(logging.INFO):\n    return" or not isinstance(body[1], ast.Try):
        raise TranslationBroken(site, "expected: enabled-guard, try")
    return body[1].body


def error_msg_always(repo: Path) -> bool:
    site = "vgi_rpc/rpc/_server.py:_emit_access_log"
    hits = []
    for n in _emit_try_body(repo):
        if isinstance(n, ast.If) and any(isinstance(x, ast.Assign) and ast.unparse(x.targets[0]) == "extra['error_message']" for x in ast.walk(n)):
            hits.append(n)
        elif not isinstance(n, ast.If) and any(isinstance(x, ast.Assign) and ast.unparse(x.targets[0]) == "extra['error_message']" for x in ast.walk(n)):
            raise TranslationBroken(site, "error_message written outside an if statement")
    if len(hits) != 1:
        raise TranslationBroken(site, f"{len(hits)} statements write extra['error_message']")
    t = ast.unparse(hits[0])
    old = "if error_message:\n    extra['error_message'] = error_message"
    new = "if status == 'error':\n    extra['error_message'] = error_message or error_type or 'error'\nelif error_message:\n    extra['error_message'] = error_message"
    if t == old:
        return False
    if t == new:
        return True
    raise TranslationBroken(site, f"unexpected error_message statement: {t}")


def emit_keys(repo: Path) -> list[tuple[str, str]]:
    """(key, guard) for every key written into ``extra``, in source order; guard = the enclosing if-tests joined by ' & '."""
    site = "vgi_rpc/rpc/_server.py:_emit_access_log"
    out: list[tuple[str, str]] = []

    def walk(stmts: list[ast.stmt], guard: list[str]) -> None:
        for n in stmts:
            if isinstance(n, ast.AnnAssign) and ast.unparse(n.target) == "extra" and isinstance(n.value, ast.Dict):
                for k in n.value.keys:
                    if not (isinstance(k, ast.Constant) and isinstance(k.value, str)):
                        raise TranslationBroken(site, "non-literal key in the extra dict")
                    out.append((k.value, " & ".join(guard)))
            elif isinstance(n, ast.Assign) and len(n.targets) == 1 and isinstance(n.targets[0], ast.Subscript) and ast.unparse(n.targets[0].value) == "extra":
                k = n.targets[0].slice
                if not (isinstance(k, ast.Constant) and isinstance(k.value, str)):
                    raise TranslationBroken(site, "non-literal key written into extra")
                out.append((k.value, " & ".join(guard)))
            elif isinstance(n, ast.If):
                walk(n.body, guard + [ast.unparse(n.test)])
                walk(n.orelse, guard + ["not (" + ast.unparse(n.test) + ")"])
            elif isinstance(n, (ast.For, ast.While, ast.With, ast.Try)):
                raise TranslationBroken(site, f"unexpected compound statement {type(n).__name__}")
    walk(_emit_try_body(repo), [])
    return out


# ---------------------------------------------------------------- formatter
def sentinel(repo: Path) -> tuple[bool, list[tuple[str, str]], list[str]]:
    site = "vgi_rpc/logging_utils.py:VgiAccessLogFormatter.format"
    tree = _parse(repo / "vgi_rpc" / "logging_utils.py")
    cls = [n for n in tree.body if isinstance(n, ast.ClassDef) and n.name == "VgiAccessLogFormatter"]
    if len(cls) != 1:
        raise TranslationBroken(site, "class not found")
    fn = _func(cls[0], "format", site)
    body = _strip_doc(fn.body)
    idx = [i for i, n in enumerate(body) if isinstance(n, ast.AnnAssign) and ast.unparse(n.target) == "sentinel" and isinstance(n.value, ast.Dict)]
    if len(idx) != 1:
        raise TranslationBroken(site, "sentinel dict not found")
    d = body[idx[0]].value  # type: ignore[attr-defined]
    table = []
    for k, v in zip(d.keys, d.values):
        if not (isinstance(k, ast.Constant) and isinstance(k.value, str)):
            raise TranslationBroken(site, "non-literal sentinel key")
        table.append((k.value, ast.unparse(v)))
    head = [ast.unparse(n) for n in body[: idx[0]]]
    tail = [ast.unparse(n) for n in body[idx[0] + 1 :]]
    err = "if sentinel['status'] == 'error':\n    err = obj.get('error_message')\n    sentinel['error_message'] = err if isinstance(err, str) and err else 'record_too_large'"
    ret = "return json.dumps(sentinel, default=str)"
    sid = ["stream_id = obj.get('stream_id')", "if isinstance(stream_id, str) and stream_id:\n    sentinel['stream_id'] = stream_id"]
    if tail == [err, ret]:
        keeps = False
    elif tail == [err, *sid, ret]:
        keeps = True
    else:
        raise TranslationBroken(site, f"unexpected statements after the sentinel dict: {tail}")
    return keeps, table, head


# ---------------------------------------------------------------- _dispatch_telemetry
def telemetry(repo: Path) -> tuple[bool, list[tuple[str, str]]]:
    site = "vgi_rpc/http/server/_app_stream.py:_dispatch_telemetry"
    fn = _func(_parse(repo / "vgi_rpc" / "http" / "server" / "_app_stream.py"), "_dispatch_telemetry", site)
    outer = [n for n in fn.body if isinstance(n, ast.Try)]
    if len(outer) != 1 or len(outer[0].body) != 1 or not isinstance(outer[0].body[0], ast.Try):
        raise TranslationBroken(site, "expected try: try: yield ... finally: ...")
    inner = outer[0].body[0]
    if [ast.unparse(x) for x in inner.body] != ["yield outcome"] or len(inner.handlers) != 1 or ast.unparse(inner.handlers[0].type) != "BaseException" or inner.finalbody or inner.orelse:
        raise TranslationBroken(site, "inner try is not 'yield outcome / except BaseException'")
    h = [ast.unparse(x) for x in inner.handlers[0].body]
    mark = (
        "if outcome.status == 'ok':\n"
        "    cause = exc.cause if isinstance(exc, _RpcHttpError) else exc\n"
        "    outcome.status = 'error'\n"
        "    outcome.error_type = type(cause).__name__\n"
        "    outcome.error_message = _truncate_error_message(cause)\n"
        "    outcome.http_status = exc.status_code if isinstance(exc, _RpcHttpError) else HTTPStatus.INTERNAL_SERVER_ERROR"
    )
    if h == ["hook_exc = exc", "raise"]:
        marked = False
    elif h == ["hook_exc = exc", mark, "raise"]:
        marked = True
    else:
        raise TranslationBroken(site, f"unexpected except clause: {h}")
    calls = [n for n in ast.walk(ast.Module(body=outer[0].finalbody, type_ignores=[])) if isinstance(n, ast.Call) and ast.unparse(n.func) == "_emit_access_log"]
    if len(calls) != 1:
        raise TranslationBroken(site, f"{len(calls)} _emit_access_log calls in the finally block")
    c = calls[0]
    args = [(str(i), ast.unparse(a)) for i, a in enumerate(c.args)] + [(k.arg or "**", ast.unparse(k.value)) for k in c.keywords]
    return marked, args


def recover_head(repo: Path) -> list[str]:
    """The statements of ``_unpack_and_recover_state`` up to the state rebuild: open the cursor, look the call up,
    reopen the call token on a miss, then -- hit or miss -- publish the stream id."""
    site = "vgi_rpc/http/server/_app_stream.py:_unpack_and_recover_state"
    fn = _func(_parse(repo / "vgi_rpc" / "http" / "server" / "_app_stream.py"), "_unpack_and_recover_state", site)
    body = _strip_doc(fn.body)
    idx = [i for i, n in enumerate(body) if isinstance(n, ast.Try)]
    if not idx:
        raise TranslationBroken(site, "no try statement (state rebuild) found")
    return [ast.unparse(n) for n in body[: idx[0]]]


def format_time(repo: Path) -> list[str]:
    """The statements of ``VgiJsonFormatter.formatTime`` (docstring removed); VgiAccessLogFormatter must not override it."""
    site = "vgi_rpc/logging_utils.py:VgiJsonFormatter.formatTime"
    tree = _parse(repo / "vgi_rpc" / "logging_utils.py")
    base = [n for n in tree.body if isinstance(n, ast.ClassDef) and n.name == "VgiJsonFormatter"]
    sub = [n for n in tree.body if isinstance(n, ast.ClassDef) and n.name == "VgiAccessLogFormatter"]
    if len(base) != 1 or len(sub) != 1:
        raise TranslationBroken(site, "formatter classes not found exactly once")
    if [ast.unparse(b) for b in sub[0].bases] != ["VgiJsonFormatter"]:
        raise TranslationBroken(site, "VgiAccessLogFormatter does not derive from VgiJsonFormatter alone")
    if any(isinstance(n, ast.FunctionDef) and n.name in ("formatTime", "_build_payload") for n in sub[0].body):
        raise TranslationBroken(site, "VgiAccessLogFormatter overrides formatTime / _build_payload")
    fn = _func(base[0], "formatTime", site)
    return [ast.unparse(n) for n in _strip_doc(fn.body)]


def definitions(repo: Path) -> str:
    lim = msg_limit(repo)
    message_sites(repo)
    always = error_msg_always(repo)
    keys = emit_keys(repo)
    keeps, table, head = sentinel(repo)
    marked, targs = telemetry(repo)
    rhead = recover_head(repo)
    ftime = format_time(repo)
    pair = lambda a, b: f"({cstr(a)}, {cstr(b)})"  # noqa: E731
    out = [
        f"Definition gen_shape : shape :=\n  {{| msg_limit := {'None' if lim is None else f'Some {lim}%nat'}; error_msg_always := {'true' if always else 'false'}; "
        f"sentinel_sid := {'true' if keeps else 'false'}; escape_marked := {'true' if marked else 'false'} |}}.",
        "(* keys written by _emit_access_log, in source order, with their guards *)",
        "Definition gen_emit_keys : list (list N * list N) :=\n  " + clist([pair(k, g) for k, g in keys]) + ".",
        "(* the sentinel dict of VgiAccessLogFormatter.format: key -> source expression *)",
        "Definition gen_sentinel : list (list N * list N) :=\n  " + clist([pair(k, v) for k, v in table]) + ".",
        "(* the statements of VgiAccessLogFormatter.format before the sentinel dict *)",
        "Definition gen_format_head : list (list N) :=\n  " + clist([cstr(x) for x in head]) + ".",
        "(* arguments of the _emit_access_log call in _dispatch_telemetry *)",
        "Definition gen_telemetry_args : list (list N * list N) :=\n  " + clist([pair(k, v) for k, v in targs]) + ".",
        "(* _unpack_and_recover_state up to the state rebuild: the stream id is published after the lookup, hit or miss *)",
        "Definition gen_recover_head : list (list N) :=\n  " + clist([cstr(x) for x in rhead]) + ".",
        "(* VgiJsonFormatter.formatTime *)",
        "Definition gen_format_time : list (list N) :=\n  " + clist([cstr(x) for x in ftime]) + ".",
    ]
    return "\n".join(out) + "\n"


def describe(repo: Path) -> dict[str, Any]:
    """The shape as Python values (for the correspondence run, also when the Coq side is broken)."""
    keeps, _, _ = sentinel(repo)
    marked, _ = telemetry(repo)
    return {"msg_limit": msg_limit(repo), "error_msg_always": error_msg_always(repo), "sentinel_sid": keeps, "escape_marked": marked}
