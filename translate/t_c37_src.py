"""Fail-closed translator for C37: vgi_rpc/http/_oauth_pkce.py -> coq/gen/G_Url.v.

Regenerated on every run:
  * constants (_SESSION_COOKIE_VERSION, _SESSION_MAX_AGE, _MAX_ORIGINAL_URL_LEN, _HMAC_LEN, the default allowlist,
    the names _is_localhost accepts, the 2048 / 49 literals of the validators / of _unpack_oauth_cookie);
  * the payload expression of _pack_oauth_cookie as a lib/Layout.v layout;
  * the statement sequence of _validate_return_to and _validate_original_url, recognised statement by statement
    against the shapes the model M_Url.v implements; the two optional guards against the browser-side reading of
    a URL become the booleans gen_rt_chk_bs / gen_orig_chk;
  * the order of the refusal tests in _OAuthCallbackResource.on_get, the way the redirect Location is built, and the
    fact that process_response stores only validated values in the cookie.
Any statement outside the known shapes raises TranslationBroken.
"""
from __future__ import annotations

import ast
from pathlib import Path

from vlib.core import TranslationBroken

REL = "vgi_rpc/http/_oauth_pkce.py"


def _cstr(s: str) -> str:
    return "[" + "; ".join(str(ord(c)) for c in s) + "]"


def _func(tree: ast.AST, name: str, site: str, cls: str | None = None) -> ast.FunctionDef:
    scope: ast.AST = tree
    if cls is not None:
        cs = [n for n in ast.walk(tree) if isinstance(n, ast.ClassDef) and n.name == cls]
        if len(cs) != 1:
            raise TranslationBroken(site, f"class {cls} not found exactly once")
        scope = cs[0]
    hits = [n for n in ast.walk(scope) if isinstance(n, ast.FunctionDef) and n.name == name]
    if len(hits) != 1:
        raise TranslationBroken(site, f"expected exactly one def {name}, found {len(hits)}")
    return hits[0]


def _body(fn: ast.FunctionDef) -> list[ast.stmt]:
    b = list(fn.body)
    if b and isinstance(b[0], ast.Expr) and isinstance(b[0].value, ast.Constant) and isinstance(b[0].value.value, str):
        b = b[1:]
    return b


def _const(tree: ast.Module, name: str, site: str) -> ast.expr:
    for node in tree.body:
        if isinstance(node, ast.Assign) and len(node.targets) == 1 and isinstance(node.targets[0], ast.Name) and node.targets[0].id == name:
            return node.value
        if isinstance(node, ast.AnnAssign) and isinstance(node.target, ast.Name) and node.target.id == name and node.value is not None:
            return node.value
    raise TranslationBroken(site, f"module constant {name} not found")


def _int_const(tree: ast.Module, name: str, site: str) -> int:
    v = _const(tree, name, site)
    if not (isinstance(v, ast.Constant) and isinstance(v.value, int) and not isinstance(v.value, bool) and v.value >= 0):
        raise TranslationBroken(site, f"{name} is not a non-negative int literal")
    return v.value


def _u(n: ast.AST) -> str:
    return ast.unparse(n)


# ---------------------------------------------------------------------------------------- validators
RT_GUARD = "if '\\\\' in parsed.netloc:\n    return ''"
RT_SHAPE = [
    ("len", None),  # if not url or len(url) > N: return ''
    ("fixed", "parsed = urlparse(url)"),
    ("fixed", "if parsed.scheme not in ('http', 'https'):\n    return ''"),
    ("fixed", "if not parsed.netloc:\n    return ''"),
    ("guard", RT_GUARD),
    ("fixed", "hostname = parsed.hostname or ''"),
    ("fixed", "if _is_localhost(hostname) and parsed.scheme == 'http':\n    return url"),
    ("fixed", "origin = f'{parsed.scheme}://{parsed.hostname}'"),
    ("fixed", "if origin in allowed_origins:\n    return url"),
    ("fixed", "if parsed.port:\n    origin_with_port = f'{parsed.scheme}://{parsed.hostname}:{parsed.port}'\n    if origin_with_port in allowed_origins:\n        return url"),
    ("fixed", "return ''"),
]
ORIG_GUARD = "if not url.startswith('/') or url[1:2] in ('/', '\\\\') or any((c in url for c in '\\t\\r\\n')):\n    return prefix or '/'"
ORIG_SHAPE = [
    ("fixed", "if len(url) > _MAX_ORIGINAL_URL_LEN:\n    url = url[:_MAX_ORIGINAL_URL_LEN]"),
    ("fixed", "parsed = urlparse(url)"),
    ("fixed", "if parsed.scheme or parsed.netloc:\n    return prefix or '/'"),
    ("guard", ORIG_GUARD),
    ("fixed", "if prefix and (not url.startswith(prefix)):\n    return prefix or '/'"),
    ("fixed", "return url"),
]


def _match_shape(fn: ast.FunctionDef, shape: list[tuple[str, str | None]], site: str) -> tuple[bool, int | None]:
    """-> (guard present, the literal N of the `len` statement if the shape has one)."""
    stmts = _body(fn)
    i = 0
    guard = False
    n_lit: int | None = None
    for kind, text in shape:
        cur = stmts[i] if i < len(stmts) else None
        if kind == "guard":
            if cur is not None and _u(cur) == text:
                guard = True
                i += 1
            continue
        if cur is None:
            raise TranslationBroken(site, f"statement missing: {text!r}")
        if kind == "len":
            ok = (
                isinstance(cur, ast.If)
                and not cur.orelse
                and len(cur.body) == 1
                and _u(cur.body[0]) == "return ''"
                and isinstance(cur.test, ast.BoolOp)
                and isinstance(cur.test.op, ast.Or)
                and len(cur.test.values) == 2
                and _u(cur.test.values[0]) == "not url"
                and isinstance(cur.test.values[1], ast.Compare)
                and _u(cur.test.values[1].left) == "len(url)"
                and len(cur.test.values[1].ops) == 1
                and isinstance(cur.test.values[1].ops[0], ast.Gt)
                and isinstance(cur.test.values[1].comparators[0], ast.Constant)
                and isinstance(cur.test.values[1].comparators[0].value, int)
            )
            if not ok:
                raise TranslationBroken(site, f"unexpected length test: {_u(cur)[:100]!r}")
            n_lit = cur.test.values[1].comparators[0].value  # type: ignore[union-attr]
        elif _u(cur) != text:
            raise TranslationBroken(site, f"unexpected statement {_u(cur)[:120]!r} (expected {text[:80]!r})")
        i += 1
    if i != len(stmts):
        raise TranslationBroken(site, f"unexpected extra statement {_u(stmts[i])[:120]!r}")
    return guard, n_lit


# ---------------------------------------------------------------------------------------- cookie layout
def _layout(fn: ast.FunctionDef, tree: ast.Module, site: str) -> tuple[str, list[str]]:
    """payload = struct.pack(..) + ... -> (Coq layout, names of the byte variables in order)."""
    assigns = {s.targets[0].id: s.value for s in _body(fn) if isinstance(s, ast.Assign) and len(s.targets) == 1 and isinstance(s.targets[0], ast.Name)}
    if "payload" not in assigns:
        raise TranslationBroken(site, "no `payload = ...`")
    terms: list[ast.expr] = []

    def flat(e: ast.expr) -> None:
        if isinstance(e, ast.BinOp) and isinstance(e.op, ast.Add):
            flat(e.left)
            flat(e.right)
        else:
            terms.append(e)

    flat(assigns["payload"])
    fields: list[str] = []
    names: list[str] = []
    widths = {"B": "W8", "<H": "W16", "<I": "W32", "<Q": "W64"}
    i = 0
    while i < len(terms):
        t = terms[i]
        if not (isinstance(t, ast.Call) and _u(t.func) == "struct.pack" and len(t.args) == 2 and not t.keywords and isinstance(t.args[0], ast.Constant) and t.args[0].value in widths):
            raise TranslationBroken(site, f"payload term is not struct.pack(fmt, x): {_u(t)[:60]!r}")
        w = widths[t.args[0].value]
        a = t.args[1]
        if isinstance(a, ast.Name) and a.id.isupper() or (isinstance(a, ast.Name) and a.id.startswith("_")):
            v = _int_const(tree, a.id, site)
            if w != "W8" or v > 255:
                raise TranslationBroken(site, "constant field wider than one byte")
            fields.append(f"FConst [{v}]")
            i += 1
        elif isinstance(a, ast.Name):
            fields.append(f"FInt {w}")
            i += 1
        elif isinstance(a, ast.Call) and _u(a.func) == "len" and len(a.args) == 1 and isinstance(a.args[0], ast.Name):
            nm = a.args[0].id
            if i + 1 >= len(terms) or not (isinstance(terms[i + 1], ast.Name) and terms[i + 1].id == nm):  # type: ignore[union-attr]
                raise TranslationBroken(site, f"length of {nm} is not followed by {nm}")
            src = assigns.get(nm)
            if src is None or not (isinstance(src, ast.Call) and isinstance(src.func, ast.Attribute) and src.func.attr == "encode" and isinstance(src.func.value, ast.Name) and [_u(x) for x in src.args] == ["'utf-8'"]):
                raise TranslationBroken(site, f"{nm} is not <param>.encode('utf-8')")
            names.append(src.func.value.id)
            fields.append(f"FLen {w}")
            i += 2
        else:
            raise TranslationBroken(site, f"unsupported struct.pack argument {_u(a)[:60]!r}")
    if _u(assigns.get("mac", ast.Constant(0))) != "hmac.new(session_key, payload, hashlib.sha256).digest()":
        raise TranslationBroken(site, "mac is not hmac.new(session_key, payload, hashlib.sha256).digest()")
    last = _body(fn)[-1]
    if _u(last) != "return base64.urlsafe_b64encode(payload + mac).decode('ascii')":
        raise TranslationBroken(site, f"unexpected return {_u(last)[:80]!r}")
    return "[" + "; ".join(fields) + "]", names


UNPACK_BODY = [
    "try:\n    raw = base64.urlsafe_b64decode(cookie_value)\nexcept Exception as exc:\n    raise ValueError('Malformed session cookie') from exc",
    "if len(raw) < {MIN}:\n    raise ValueError('Session cookie too short')",
    "payload = raw[:-_HMAC_LEN]",
    "received_mac = raw[-_HMAC_LEN:]",
    "expected_mac = hmac.new(session_key, payload, hashlib.sha256).digest()",
    "if not hmac.compare_digest(received_mac, expected_mac):\n    raise ValueError('Session cookie signature mismatch')",
    "version = struct.unpack_from('B', payload, 0)[0]",
    "if version != _SESSION_COOKIE_VERSION:\n    raise ValueError(f'Unexpected session cookie version: {version}')",
    "created_at = struct.unpack_from('<Q', payload, 1)[0]",
    "if max_age > 0:\n    age = int(time.time()) - created_at\n    if age < 0 or age > max_age:\n        raise ValueError(f'Session cookie expired (age={age}s, max={max_age}s)')",
    "pos = 9",
    "cv_len = struct.unpack_from('<H', payload, pos)[0]",
    "pos += 2",
    "code_verifier = payload[pos:pos + cv_len].decode('utf-8')",
    "pos += cv_len",
    "state_len = struct.unpack_from('<H', payload, pos)[0]",
    "pos += 2",
    "state_nonce = payload[pos:pos + state_len].decode('utf-8')",
    "pos += state_len",
    "url_len = struct.unpack_from('<H', payload, pos)[0]",
    "pos += 2",
    "original_url = payload[pos:pos + url_len].decode('utf-8')",
    "pos += url_len",
    "rt_len = struct.unpack_from('<H', payload, pos)[0]",
    "pos += 2",
    "return_to = payload[pos:pos + rt_len].decode('utf-8')",
    "return (code_verifier, state_nonce, original_url, return_to)",
]


def _unpack_min(fn: ast.FunctionDef, site: str) -> int:
    stmts = _body(fn)
    if len(stmts) != len(UNPACK_BODY):
        raise TranslationBroken(site, f"{len(stmts)} statements, model has {len(UNPACK_BODY)}")
    mn = None
    for s, want in zip(stmts, UNPACK_BODY):
        got = _u(s)
        if "{MIN}" in want:
            if not (isinstance(s, ast.If) and isinstance(s.test, ast.Compare) and isinstance(s.test.comparators[0], ast.Constant) and isinstance(s.test.comparators[0].value, int)):
                raise TranslationBroken(site, f"unexpected length test {got[:80]!r}")
            mn = s.test.comparators[0].value
            want = want.replace("{MIN}", str(mn))
        if got != want:
            raise TranslationBroken(site, f"unexpected statement {got[:120]!r}")
    assert mn is not None
    return mn


# ---------------------------------------------------------------------------------------- flow sites
CALLBACK_TESTS = ["error", "not code or not state", "not session_cookie", "<unpack>", "not hmac.compare_digest(state, expected_state)", "endpoints is None", "<exchange>", "return_to"]


def _callback(fn: ast.FunctionDef, site: str) -> None:
    seq: list[str] = []
    for s in _body(fn):
        if seq and seq[-1] == "return_to":
            break  # what follows is the same-origin redirect, checked below
        if isinstance(s, ast.If):
            seq.append(_u(s.test))
            # every refusal arm returns without a Location
            if _u(s.test) != "return_to" and not isinstance(s.body[-1], ast.Return):
                raise TranslationBroken(site, f"arm `{_u(s.test)}` does not return")
            if _u(s.test) != "return_to" and "Location" in _u(s):
                raise TranslationBroken(site, f"refusal arm `{_u(s.test)}` sets a Location")
        elif isinstance(s, ast.Try):
            body = _u(ast.Module(body=s.body, type_ignores=[]))
            if "_unpack_oauth_cookie(session_cookie, self._session_key)" in body:
                if _u(s.handlers[0].type) != "ValueError" or len(s.handlers) != 1 or not isinstance(s.handlers[0].body[-1], ast.Return):  # type: ignore[arg-type]
                    raise TranslationBroken(site, "cookie failure is not `except ValueError: ... return`")
                if body.strip() != "code_verifier, expected_state, original_url, return_to = _unpack_oauth_cookie(session_cookie, self._session_key)":
                    raise TranslationBroken(site, "unexpected unpack statement")
                seq.append("<unpack>")
            elif "_exchange_code_for_token(" in body:
                seq.append("<exchange>")
            else:
                raise TranslationBroken(site, "unknown try block in on_get")
    if seq != CALLBACK_TESTS:
        raise TranslationBroken(site, f"order of tests in on_get changed: {seq}")
    src = _u(fn)
    for need in (
        "session_cookie = req.cookies.get(_SESSION_COOKIE_NAME)",
        "code = req.get_param('code')",
        "state = req.get_param('state')",
        "error = req.get_param('error')",
        "separator = '#' if '#' not in return_to else '&'",
        "redirect_url = f'{return_to}{separator}{'&'.join(fragment_params)}'",
        "resp.set_header('Location', redirect_url)",
        "original_url = _validate_original_url(original_url, self._prefix)",
        "resp.set_header('Location', original_url)",
    ):
        if need not in src:
            raise TranslationBroken(site, f"on_get lost `{need}`")
    if src.count("set_header('Location'") != 2:
        raise TranslationBroken(site, "on_get sets Location at an unexpected number of places")


def _middleware(tree: ast.Module, site: str) -> None:
    pr = _u(_func(tree, "process_request", site, "_OAuthPkceMiddleware"))
    for need in (
        "return_to = _validate_return_to(req.get_param('_vgi_return_to') or '', self._allowed_return_origins)",
        "if not return_to:\n        return",
        "separator = '#' if '#' not in return_to else '&'",
        "fragment_params = [f'token={token}']",
        "redirect_url = f'{return_to}{separator}{'&'.join(fragment_params)}'",
        "'Location': redirect_url",
    ):
        if need not in pr:
            raise TranslationBroken(site, f"process_request lost `{need}`")
    if pr.count("Location") != 1:
        raise TranslationBroken(site, "process_request mentions Location more than once")
    ps = _u(_func(tree, "process_response", site, "_OAuthPkceMiddleware"))
    for need in (
        "original_url = _validate_original_url(original_url, self._prefix)",
        "return_to = _validate_return_to(req.get_param('_vgi_return_to') or '', self._allowed_return_origins)",
        "cookie_value = _pack_oauth_cookie(code_verifier, state_nonce, original_url, self._session_key, return_to=return_to)",
        "auth_url = f'{authorization_endpoint}?{urlencode(params)}'",
        "resp.set_header('Location', auth_url)",
    ):
        if need not in ps:
            raise TranslationBroken(site, f"process_response lost `{need}`")
    if ps.count("Location") != 1:
        raise TranslationBroken(site, "process_response mentions Location more than once")
    # _pack_oauth_cookie has exactly one caller
    calls = [n for n in ast.walk(tree) if isinstance(n, ast.Call) and _u(n.func) == "_pack_oauth_cookie"]
    if len(calls) != 1:
        raise TranslationBroken(site, f"_pack_oauth_cookie is called at {len(calls)} places")
    lo = _u(_func(tree, "on_get", site, "_OAuthLogoutResource"))
    if "raise falcon.HTTPFound(self._prefix or '/')" not in lo:
        raise TranslationBroken(site, "logout redirect changed")


def definitions(repo: Path) -> str:
    path = repo / REL
    site = str(path)
    try:
        tree = ast.parse(path.read_text())
    except (OSError, SyntaxError) as e:
        raise TranslationBroken(site, f"cannot parse: {e}") from e
    out: list[str] = []
    # constants
    for py, coq in (("_SESSION_COOKIE_VERSION", "gen_cookie_version"), ("_SESSION_MAX_AGE", "gen_session_max_age"), ("_MAX_ORIGINAL_URL_LEN", "gen_max_original_url_len"), ("_HMAC_LEN", "gen_hmac_len")):
        out.append(f"Definition {coq} : N := {_int_const(tree, py, site)}.")
    d = _const(tree, "_DEFAULT_ALLOWED_RETURN_ORIGINS", site)
    if not (isinstance(d, ast.Call) and _u(d.func) == "frozenset" and len(d.args) == 1 and isinstance(d.args[0], (ast.Tuple, ast.List, ast.Set)) and all(isinstance(e, ast.Constant) and isinstance(e.value, str) for e in d.args[0].elts)):
        raise TranslationBroken(site, "_DEFAULT_ALLOWED_RETURN_ORIGINS is not frozenset((<str literals>,))")
    origins = [e.value for e in d.args[0].elts]  # type: ignore[attr-defined]
    out.append("Definition gen_default_allowed : list (list N) := [" + "; ".join(_cstr(o) for o in origins) + "].")
    import re

    ents = []
    for o in origins:
        m = re.fullmatch(r"(https?)://([^:/?#@\\\[\]]+)(?::([0-9]+))?", o)
        if m is None:
            raise TranslationBroken(site, f"default allowlist entry {o!r} is not scheme://host[:port]")
        ents.append(f"({_cstr(m.group(1))}, {_cstr(m.group(2))}, {'None' if m.group(3) is None else 'Some ' + _cstr(m.group(3))})")
    out.append("Definition gen_default_entries : list (list N * list N * option (list N)) := [" + "; ".join(ents) + "].")
    il = _func(tree, "_is_localhost", site)
    b = _body(il)
    if not (len(b) == 1 and isinstance(b[0], ast.Return) and isinstance(b[0].value, ast.Compare) and _u(b[0].value.left) == "hostname" and len(b[0].value.ops) == 1 and isinstance(b[0].value.ops[0], ast.In) and isinstance(b[0].value.comparators[0], ast.Tuple) and all(isinstance(e, ast.Constant) and isinstance(e.value, str) for e in b[0].value.comparators[0].elts)):
        raise TranslationBroken(site, "_is_localhost is not `return hostname in (<str literals>)`")
    out.append("Definition gen_localhost_names : list (list N) := [" + "; ".join(_cstr(e.value) for e in b[0].value.comparators[0].elts) + "].")  # type: ignore[attr-defined]
    # validators
    g_rt, n_rt = _match_shape(_func(tree, "_validate_return_to", site), RT_SHAPE, site + ":_validate_return_to")
    out.append(f"Definition gen_rt_chk_bs : bool := {'true' if g_rt else 'false'}.")
    out.append(f"Definition gen_rt_max_len : N := {n_rt}.")
    g_or, _ = _match_shape(_func(tree, "_validate_original_url", site), ORIG_SHAPE, site + ":_validate_original_url")
    out.append(f"Definition gen_orig_chk : bool := {'true' if g_or else 'false'}.")
    # cookie
    pk = _func(tree, "_pack_oauth_cookie", site)
    lay, names = _layout(pk, tree, site + ":_pack_oauth_cookie")
    if names != ["code_verifier", "state_nonce", "original_url", "return_to"]:
        raise TranslationBroken(site, f"cookie fields changed: {names}")
    out.append(f"Definition gen_cookie_layout : layout := {lay}.")
    un = _func(tree, "_unpack_oauth_cookie", site)
    out.append(f"Definition gen_unpack_min_len : N := {_unpack_min(un, site + ':_unpack_oauth_cookie')}.")
    dflt = un.args.defaults
    if not (len(dflt) == 1 and _u(dflt[0]) == "_SESSION_MAX_AGE"):
        raise TranslationBroken(site, "default max_age of _unpack_oauth_cookie changed")
    # flow sites
    _callback(_func(tree, "on_get", site, "_OAuthCallbackResource"), site + ":_OAuthCallbackResource.on_get")
    _middleware(tree, site + ":_OAuthPkceMiddleware")
    out.append("Definition gen_flow_sites_ok : bool := true.")
    return "\n".join(out) + "\n"


def flags(repo: Path) -> tuple[bool, bool]:
    """(return_to guard present, original_url guard present) -- used by the correspondence run even when the
    tie fails, so that model and implementation are compared like for like."""
    tree = ast.parse((repo / REL).read_text())
    site = str(repo / REL)
    g_rt, _ = _match_shape(_func(tree, "_validate_return_to", site), RT_SHAPE, site)
    g_or, _ = _match_shape(_func(tree, "_validate_original_url", site), ORIG_SHAPE, site)
    return g_rt, g_or
