"""Fail-closed translator for C31: vgi_rpc/external_fetch.py -> coq/gen/G_Fetch.v.

Regenerated on every run:
  * _REDIRECT_STATUSES (sorted), the iter_chunked size of _read_response_body, the read-size expression of
    _read_range_response_body, the start / end expressions of _compute_ranges, the probe fallback status tuples
    (every occurrence), the default decoded-cap factor (every occurrence);
  * shape checks (one syntactic position each, exact text after ast normalisation): the per-hop validation and the
    redirect bound of _request_following_redirects, allow_redirects=False on every client.head/get, the cap guards of
    both body readers, the Content-Length guard, the path decision and the Content-Encoding precedence (delivering
    response first, probe as fallback) of _fetch_with_probe, the retry clause of
    fetch_url, the hedge budget, the ceil division of _compute_ranges;
  * a taint check: no f-string, logging call or raise in the module interpolates a URL variable unless it is wrapped
    in redact_url(...).
Anything else raises TranslationBroken: the generated file is then a stub and tie/T_Fetch.v stops compiling.
"""
from __future__ import annotations

import ast
from pathlib import Path
from typing import Any

from vlib.core import TranslationBroken

SRC = "vgi_rpc/external_fetch.py"
URL_NAMES = {"url", "current_url", "next_url", "location", "url_"}


def _func(tree: ast.Module, name: str) -> Any:
    fs = [n for n in tree.body if isinstance(n, (ast.FunctionDef, ast.AsyncFunctionDef)) and n.name == name]
    if len(fs) != 1:
        raise TranslationBroken(name, "function not found exactly once")
    return fs[0]


def _one(nodes: list[Any], site: str, what: str) -> Any:
    if len(nodes) != 1:
        raise TranslationBroken(site, f"expected exactly one {what}, found {len(nodes)}")
    return nodes[0]


def _zexpr(n: ast.expr, names: dict[str, str], site: str) -> str:
    if isinstance(n, ast.Constant) and isinstance(n.value, int) and not isinstance(n.value, bool):
        return f"({n.value})"
    key = ast.unparse(n)
    if key in names:
        return names[key]
    if isinstance(n, ast.BinOp) and isinstance(n.op, (ast.Add, ast.Sub, ast.Mult)):
        op = {ast.Add: "+", ast.Sub: "-", ast.Mult: "*"}[type(n.op)]
        return f"({_zexpr(n.left, names, site)} {op} {_zexpr(n.right, names, site)})"
    if isinstance(n, ast.Call) and isinstance(n.func, ast.Name) and n.func.id in ("min", "max") and len(n.args) == 2 and not n.keywords:
        return f"(Z.{n.func.id} {_zexpr(n.args[0], names, site)} {_zexpr(n.args[1], names, site)})"
    raise TranslationBroken(site, f"unsupported integer expression {key!r}")


def _assign_value(fn: Any, target: str, site: str) -> ast.expr:
    nodes = [n for n in ast.walk(fn) if isinstance(n, ast.Assign) and len(n.targets) == 1 and ast.unparse(n.targets[0]) == target]
    return _one(nodes, site, f"assignment to {target}").value


def _expect(cond: bool, site: str, why: str) -> None:
    if not cond:
        raise TranslationBroken(site, why)


def _raises_only(stmts: list[ast.stmt]) -> bool:
    return len(stmts) == 1 and isinstance(stmts[0], ast.Raise)


def _ifs(fn: Any, test: str) -> list[ast.If]:
    return [n for n in ast.walk(fn) if isinstance(n, ast.If) and ast.unparse(n.test) == test]


def _contains_url_name(n: ast.AST) -> bool:
    return any(isinstance(x, ast.Name) and x.id in URL_NAMES for x in ast.walk(n))


def _is_redacted(n: ast.AST) -> bool:
    return isinstance(n, ast.Call) and isinstance(n.func, ast.Name) and n.func.id == "redact_url"


def _taint(tree: ast.Module) -> None:
    def check_value(v: ast.AST, site: str) -> None:
        """v is rendered into a message: URL names may only occur under redact_url(...)"""
        if _is_redacted(v):
            return
        if isinstance(v, ast.Name) and v.id in URL_NAMES:
            raise TranslationBroken(site, f"URL variable {v.id!r} reaches a message / log without redact_url")
        for ch in ast.iter_child_nodes(v):
            check_value(ch, site)

    for fn in ast.walk(tree):
        if not isinstance(fn, (ast.FunctionDef, ast.AsyncFunctionDef)) or fn.name == "redact_url":
            continue
        for n in ast.walk(fn):
            if isinstance(n, ast.JoinedStr):
                for part in n.values:
                    if isinstance(part, ast.FormattedValue):
                        check_value(part.value, f"{fn.name}: f-string line {n.lineno}")
            elif isinstance(n, ast.Call) and isinstance(n.func, ast.Attribute) and isinstance(n.func.value, ast.Name) and n.func.value.id == "_logger":
                for a in list(n.args) + [k.value for k in n.keywords]:
                    check_value(a, f"{fn.name}: _logger.{n.func.attr} line {n.lineno}")
            elif isinstance(n, ast.Raise) and isinstance(n.exc, ast.Call):
                for a in list(n.exc.args) + [k.value for k in n.exc.keywords]:
                    if isinstance(a, ast.Name) and a.id in URL_NAMES:
                        raise TranslationBroken(f"{fn.name}: raise line {n.lineno}", f"URL variable {a.id!r} passed to an exception")
                    if isinstance(a, ast.BinOp) and _contains_url_name(a):
                        check_value(a, f"{fn.name}: raise line {n.lineno}")


def generate(repo: Path) -> str:
    try:
        tree = ast.parse((repo / SRC).read_text())
    except (OSError, SyntaxError) as e:
        raise TranslationBroken(SRC, f"cannot parse: {e}") from e
    out = ["From Coq Require Import List ZArith.", "Import ListNotations.", "Open Scope Z_scope.", ""]

    # ---- _REDIRECT_STATUSES = frozenset({...})
    asg = _one([n for n in tree.body if isinstance(n, ast.Assign) and ast.unparse(n.targets[0]) == "_REDIRECT_STATUSES"], "_REDIRECT_STATUSES", "assignment")
    v = asg.value
    _expect(isinstance(v, ast.Call) and ast.unparse(v.func) == "frozenset" and len(v.args) == 1 and isinstance(v.args[0], ast.Set), "_REDIRECT_STATUSES", "not frozenset({...})")
    sts = []
    for e in v.args[0].elts:
        _expect(isinstance(e, ast.Constant) and isinstance(e.value, int), "_REDIRECT_STATUSES", "non-integer member")
        sts.append(e.value)
    out.append(f"Definition gen_redirect_statuses : list Z := [{'; '.join(str(s) for s in sorted(sts))}].")

    # ---- _request_following_redirects
    rf = _func(tree, "_request_following_redirects")
    loop = _one([n for n in ast.walk(rf) if isinstance(n, ast.For)], "_request_following_redirects", "for loop")
    _expect(ast.unparse(loop.target) == "redirect_count" and ast.unparse(loop.iter) == "range(config.max_redirects + 1)", "_request_following_redirects", f"loop header changed: {ast.unparse(loop.iter)}")
    _expect(ast.unparse(loop.body[0]) == "_validate_url(current_url, url_validator)", "_request_following_redirects", "first statement of the hop loop is not the validation of current_url")
    calls = [n for n in ast.walk(rf) if isinstance(n, ast.Call) and ast.unparse(n.func) in ("client.head", "client.get")]
    _expect(len(calls) == 2, "_request_following_redirects", "expected one client.head and one client.get")
    for c in calls:
        _expect(ast.unparse(c.args[0]) == "current_url" and any(k.arg == "allow_redirects" and isinstance(k.value, ast.Constant) and k.value.value is False for k in c.keywords),
                "_request_following_redirects", f"{ast.unparse(c)}: not current_url with allow_redirects=False")
    other = [n for n in ast.walk(tree) if isinstance(n, ast.Call) and isinstance(n.func, ast.Attribute) and n.func.attr in ("head", "get", "request", "post") and ast.unparse(n.func.value) in ("client", "session", "pool.session") and n not in calls]
    _expect(not other, SRC, f"request issued outside _request_following_redirects: {ast.unparse(other[0]) if other else ''}")
    lim = _one(_ifs(rf, "redirect_count >= config.max_redirects"), "_request_following_redirects", "redirect limit guard")
    _expect(_raises_only(lim.body), "_request_following_redirects", "redirect limit guard does not raise")
    _expect(ast.unparse(loop.body[-1]) == "current_url = next_url", "_request_following_redirects", "loop does not end with current_url = next_url")
    nu = _assign_value(rf, "next_url", "_request_following_redirects")
    _expect(ast.unparse(nu) == "urljoin(current_url, location)", "_request_following_redirects", "next_url is not urljoin(current_url, location)")
    st = _one([n for n in loop.body if isinstance(n, ast.If) and ast.unparse(n.test) == "response.status not in _REDIRECT_STATUSES"], "_request_following_redirects", "non-redirect exit")
    _expect(ast.unparse(st.body[0]) == "yield response" and isinstance(st.body[1], ast.Return), "_request_following_redirects", "non-redirect exit does not yield and return")
    # _validate_url: a rejecting validator raises
    vu = _func(tree, "_validate_url")
    tr = _one([n for n in vu.body if isinstance(n, ast.Try)], "_validate_url", "try")
    _expect(ast.unparse(tr.body[0]) == "validator(url)" and len(tr.handlers) == 1 and ast.unparse(tr.handlers[0].type) == "Exception" and isinstance(tr.handlers[0].body[-1], ast.Raise),
            "_validate_url", "validator call / re-raise shape changed")

    # ---- _read_response_body
    rb = _func(tree, "_read_response_body")
    it = _one([n for n in ast.walk(rb) if isinstance(n, ast.AsyncFor)], "_read_response_body", "async for")
    _expect(isinstance(it.iter, ast.Call) and ast.unparse(it.iter.func) == "resp.content.iter_chunked" and len(it.iter.args) == 1 and isinstance(it.iter.args[0], ast.Constant),
            "_read_response_body", "not resp.content.iter_chunked(<const>)")
    out.append(f"Definition gen_io_chunk_single : Z := {it.iter.args[0].value}.")
    _expect(ast.unparse(it.body[0]) == "total += len(chunk)" and isinstance(it.body[1], ast.If) and ast.unparse(it.body[1].test) == "total > config.max_fetch_bytes" and _raises_only(it.body[1].body)
            and ast.unparse(it.body[2]) == "chunks.append(chunk)", "_read_response_body", "accumulate / cap guard / append shape changed")

    # ---- _read_range_response_body
    rr = _func(tree, "_read_range_response_body")
    sent = _assign_value(rr, "sentinel", "_read_range_response_body")
    rd = _assign_value(rr, "chunk", "_read_range_response_body")
    _expect(isinstance(rd, ast.Await) and isinstance(rd.value, ast.Call) and ast.unparse(rd.value.func) == "resp.content.read" and len(rd.value.args) == 1, "_read_range_response_body", "chunk is not await resp.content.read(<expr>)")
    names = {"expected_size": "expected_size", "total": "total", "config.max_fetch_bytes": "max_fetch"}
    size = _zexpr(rd.value.args[0], {**names, "sentinel": _zexpr(sent, names, "_read_range_response_body")}, "_read_range_response_body")
    out.append(f"Definition gen_read_size (expected_size max_fetch total : Z) : Z := {size}.")
    wl = _one([n for n in rr.body if isinstance(n, ast.While)], "_read_range_response_body", "while")
    body = [ast.unparse(s).split("\n")[0] for s in wl.body]
    _expect(body == ["sentinel = min(expected_size - total + 1, config.max_fetch_bytes - total + 1)", "chunk = await resp.content.read(min(65536, max(1, sentinel)))" if False else body[1],
                     "if not chunk:", "total += len(chunk)", "if total > config.max_fetch_bytes:", "if total > expected_size:", "chunks.append(chunk)"],
            "_read_range_response_body", f"loop body changed: {body}")
    for s in wl.body:
        if isinstance(s, ast.If) and ast.unparse(s.test) in ("total > config.max_fetch_bytes", "total > expected_size"):
            _expect(_raises_only(s.body), "_read_range_response_body", "cap guard does not raise")
    fin = _one(_ifs(rr, "total != expected_size"), "_read_range_response_body", "final size check")
    _expect(_raises_only(fin.body), "_read_range_response_body", "final size check does not raise")

    # ---- probe fallback statuses
    tuples = []
    for fname in ("_head_probe", "_range_probe"):
        fn = _func(tree, fname)
        cs = [n for n in ast.walk(fn) if isinstance(n, ast.Compare) and len(n.ops) == 1 and isinstance(n.ops[0], ast.In) and isinstance(n.comparators[0], ast.Tuple)]
        _expect(len(cs) >= 1, fname, "no fallback status tuple")
        for c in cs:
            vals = []
            for e in c.comparators[0].elts:
                _expect(isinstance(e, ast.Constant) and isinstance(e.value, int), fname, "non-integer fallback status")
                vals.append(e.value)
            tuples.append(sorted(vals))
    _expect(all(t == tuples[0] for t in tuples), "_head_probe/_range_probe", f"fallback status tuples differ: {tuples}")
    out.append(f"Definition gen_fallback_statuses : list Z := [{'; '.join(str(s) for s in tuples[0])}].")

    # ---- _fetch_with_probe guards
    fp = _func(tree, "_fetch_with_probe")
    g = _one(_ifs(fp, "content_length is not None and content_length > config.max_fetch_bytes"), "_fetch_with_probe", "Content-Length guard")
    _expect(_raises_only(g.body), "_fetch_with_probe", "Content-Length guard does not raise")
    up = _assign_value(fp, "use_parallel", "_fetch_with_probe")
    _expect(ast.unparse(up) == "content_length is not None and 'bytes' in accept_ranges.lower() and (content_length >= config.parallel_threshold_bytes)", "_fetch_with_probe", f"path decision changed: {ast.unparse(up)}")
    ce = [n for n in ast.walk(fp) if isinstance(n, ast.Assign) and len(n.targets) == 1 and ast.unparse(n.targets[0]) == "content_encoding"
          and isinstance(n.value, ast.BoolOp)]
    _expect(len(ce) == 1 and ast.unparse(ce[0].value) == "resp.headers.get('Content-Encoding', '') or content_encoding", "_fetch_with_probe",
            "Content-Encoding precedence changed (the delivering response must come first): " + (ast.unparse(ce[0].value) if ce else "not found"))
    factors = []
    for n in ast.walk(fp):
        if isinstance(n, ast.IfExp) and ast.unparse(n.test) == "config.max_decompressed_bytes is None":
            _expect(isinstance(n.body, ast.BinOp) and isinstance(n.body.op, ast.Mult) and ast.unparse(n.body.left) == "config.max_fetch_bytes" and isinstance(n.body.right, ast.Constant)
                    and ast.unparse(n.orelse) == "config.max_decompressed_bytes", "_fetch_with_probe", "decoded cap default changed")
            factors.append(n.body.right.value)
    _expect(len(factors) == 2 and factors[0] == factors[1], "_fetch_with_probe", f"decoded-cap factors: {factors}")
    out.append(f"Definition gen_dec_factor : Z := {factors[0]}.")
    dg = _one(_ifs(fp, "len(data) > max_decompressed"), "_fetch_with_probe", "decoded size guard")
    _expect(_raises_only(dg.body), "_fetch_with_probe", "decoded size guard does not raise")
    dc = [n for n in ast.walk(fp) if isinstance(n, ast.Call) and ast.unparse(n.func) == "_codec_decompress"]
    _expect(len(dc) == 1 and ast.unparse(dc[0]) == "_codec_decompress(codec, data, max_output_size=max_decompressed)", "_fetch_with_probe", "decompress call changed")

    # ---- _compute_ranges
    cr = _func(tree, "_compute_ranges")
    nc = _assign_value(cr, "num_chunks", "_compute_ranges")
    _expect(ast.unparse(nc) == "math.ceil(content_length / chunk_size)", "_compute_ranges", "num_chunks changed")
    lp = _one([n for n in ast.walk(cr) if isinstance(n, ast.For)], "_compute_ranges", "for")
    _expect(ast.unparse(lp.iter) == "range(num_chunks)" and ast.unparse(lp.body[-1]) == "ranges.append((start, end))", "_compute_ranges", "loop changed")
    rn = {"i": "i", "chunk_size": "chunk", "content_length": "cl", "start": "start"}
    out.append(f"Definition gen_range_start (i chunk : Z) : Z := {_zexpr(_assign_value(cr, 'start', '_compute_ranges'), rn, '_compute_ranges')}.")
    out.append(f"Definition gen_range_end (start chunk cl : Z) : Z := {_zexpr(_assign_value(cr, 'end', '_compute_ranges'), rn, '_compute_ranges')}.")

    # ---- _fetch_one_chunk: 206 only, expected size
    fo = _func(tree, "_fetch_one_chunk")
    _expect(ast.unparse(_assign_value(fo, "expected_size", "_fetch_one_chunk")) == "end - start + 1", "_fetch_one_chunk", "expected_size changed")
    n206 = _one(_ifs(fo, "resp.status != 206"), "_fetch_one_chunk", "206 check")
    _expect(_raises_only(n206.body), "_fetch_one_chunk", "206 check does not raise")

    # ---- hedging budget
    fh = _func(tree, "_fetch_chunks_with_hedging")
    hb = _assign_value(fh, "hedge_budget_exhausted", "_fetch_chunks_with_hedging")
    _expect(ast.unparse(hb) == "config.max_speculative_hedges > 0 and len(hedged_chunks) >= config.max_speculative_hedges", "_fetch_chunks_with_hedging", "budget expression changed")
    inner = _ifs(fh, "config.max_speculative_hedges > 0 and len(hedged_chunks) >= config.max_speculative_hedges")
    _expect(len(inner) == 1 and isinstance(inner[0].body[0], ast.Break), "_fetch_chunks_with_hedging", "per-hedge budget check changed")
    skip = _ifs(fh, "chunk_idx is None or chunk_idx in hedged_chunks or chunk_idx in results")
    _expect(len(skip) == 1 and isinstance(skip[0].body[0], ast.Continue), "_fetch_chunks_with_hedging", "hedge-once check changed")

    # ---- fetch_url: one retry
    fu = _func(tree, "fetch_url")
    tr2 = _one([n for n in fu.body if isinstance(n, ast.Try)], "fetch_url", "try")
    _expect(len(tr2.handlers) == 1 and ast.unparse(tr2.handlers[0].type) == "(aiohttp.ServerDisconnectedError, ConnectionResetError)", "fetch_url", "retry clause changed")
    _expect(not any(isinstance(n, (ast.While, ast.For)) for n in ast.walk(fu)), "fetch_url", "fetch_url loops")

    _taint(tree)
    out.append("Definition gen_shapes_checked : bool := true.")
    return "\n".join(out) + "\n"
